// C16: connection accounting.  A world with the real registry, GC thread (real 1 s ticks) and JSON access log; connections
// come in through real http / socks listeners on loopback and go to recording upstreams.
//   N <history_size>     new world
//   K <n>                n connections, one after the other (each fully ended and dropped before the next starts)
//   O / X                open a connection that stays established / close it again
//   G                    wait for the GC tick, rotate (flush) the log: -> live=[ids] hist=[ids newest first] log=[ids in file order]
use super::route::*;
use super::util::*;
use crate::context::{Feature, TargetAddress};
use std::sync::Arc;
use tokio::io::{AsyncReadExt, AsyncWriteExt};
use tokio::net::TcpStream;

#[derive(Clone, Debug)]
struct Expect {
    listener: &'static str,
    src_port: u16,
    target: Option<String>,
    connector: Option<&'static str>,
    terminal: &'static str, // Terminated | ErrorOccured | none (handshake never completed)
    up: usize,
    down: usize,
    kind: &'static str,
}

struct W16 {
    w: World,
    http: u16,
    socks: u16,
    log_path: String,
    expects: Vec<Expect>,
    /// the management API is polled throughout the run (GET /api/live, /api/history, /api/status every few ms): reading the
    /// records must never change what is recorded
    poller: tokio::task::JoinHandle<()>,
}

impl Drop for W16 {
    fn drop(&mut self) {
        self.poller.abort();
    }
}

async fn new_world(history: usize, tag: &str) -> W16 {
    let all = vec![Feature::TcpForward, Feature::TcpBind, Feature::UdpForward, Feature::UdpBind];
    let conns = vec![("up".to_string(), all.clone()), ("bad".to_string(), all.clone()), ("gone".to_string(), all), ("tcponly".to_string(), vec![Feature::TcpForward])];
    let mut w = world(&conns, history);
    let log_path = format!("/verif/out/C16/access-{}-{}.log", std::process::id(), tag);
    let _ = std::fs::remove_file(&log_path);
    {
        let st = Arc::get_mut(&mut w.state).unwrap();
        let mut log: crate::access_log::AccessLog = serde_yaml::from_str(&format!("path: {}\nformat: json", log_path)).unwrap();
        log.init().await.unwrap();
        Arc::get_mut(&mut st.contexts).unwrap().access_log = Some(log);
    }
    w.conns[1].fail.store(true, std::sync::atomic::Ordering::SeqCst);
    w.conns[2].vanish.store(true, std::sync::atomic::Ordering::SeqCst);
    w.state.contexts.clone().gc_thread();
    set_rules(&w, &[("tcponly".into(), Some("request.feature == \"UdpForward\"".into())), ("deny".into(), Some("request.target.port == 1".into())), ("bad".into(), Some("request.target.port == 2".into())), ("gone".into(), Some("request.target.port == 3".into())), ("up".into(), None)]).await.unwrap();
    let http = start_listener(&w, "name: http\ntype: http").await;
    let socks = start_listener(&w, "name: socks\ntype: socks").await;
    let api = free_port();
    let m: crate::metrics::MetricsServer = serde_yaml::from_str(&format!("bind: 127.0.0.1:{}\nui: null", api)).unwrap();
    Arc::new(m).listen(w.state.clone()).await.unwrap();
    let poller = tokio::spawn(async move {
        tokio::time::sleep(std::time::Duration::from_millis(100)).await;
        loop {
            for path in ["/api/live", "/api/history", "/api/status"] {
                let _ = tokio::time::timeout(std::time::Duration::from_millis(500), async {
                    let mut s = TcpStream::connect(("127.0.0.1", api)).await.ok()?;
                    s.write_all(format!("GET {} HTTP/1.1\r\nHost: x\r\nConnection: close\r\n\r\n", path).as_bytes()).await.ok()?;
                    let mut v = vec![];
                    s.read_to_end(&mut v).await.ok()?;
                    Some(())
                })
                .await;
            }
            tokio::time::sleep(std::time::Duration::from_millis(7)).await;
        }
    });
    W16 { w, http, socks, log_path, expects: vec![], poller }
}

async fn wait_dropped(w: &World, id: u64) {
    for _ in 0..4000 {
        let gone = {
            let a = w.state.contexts.alive.lock().await;
            a.get(&id).map(|x| x.upgrade().is_none()).unwrap_or(true)
        };
        if gone {
            return;
        }
        tokio::time::sleep(std::time::Duration::from_millis(1)).await;
    }
}

async fn next_id(w: &World) -> u64 {
    // ids are handed out from a counter: the next one is max(known)+1; observe through the API-visible tables only
    let a = w.state.contexts.alive.lock().await.keys().cloned().max();
    let t = w.state.contexts.terminated.lock().await.iter().map(|p| p.id).max();
    a.max(t).map(|x| x + 1).unwrap_or(0)
}

/// one complete connection of the given kind; returns what the record must say
async fn one_connection(x: &mut W16, rng: &mut Rng, kind: usize, hold: bool) -> Option<TcpStream> {
    let kinds = ["ok", "deny", "connfail", "garbage", "hangup", "ok-early", "upvanish", "udp-unsupported"];
    let kind = kinds[kind % kinds.len()];
    let via_socks = rng.chance(1, 2) || kind == "udp-unsupported";
    let port = if via_socks { x.socks } else { x.http };
    let tport: u16 = match kind {
        "deny" => 1,
        "connfail" => 2,
        "upvanish" => 3,
        _ => 80,
    };
    let host = *rng.pick(&["example.com", "10.1.2.3", "a.b"]);
    let before = x.w.state.contexts.alive.lock().await.keys().cloned().collect::<std::collections::HashSet<_>>();
    let mut s = TcpStream::connect(("127.0.0.1", port)).await.unwrap();
    let src_port = s.local_addr().unwrap().port();
    let up_n = if kind.starts_with("ok") { rng.below(3000) } else if kind == "upvanish" { 1000 } else { 0 };
    let up = rng.bytes(up_n);
    let early = if kind == "ok-early" { up_n.min(40) } else { 0 };
    let mut target = Some(format!("{}:{}", host, tport));
    let mut down = 0usize;
    let terminal;
    let connector;
    match kind {
        "udp-unsupported" => {
            // a UDP request whose rule names a connector without UDP support: refused, no upstream is used or named
            let _ = s.write_all(&[5, 1, 0, 5, 3, 0, 1, 0, 0, 0, 0, 0, 0]).await;
            let mut v = vec![];
            let _ = tokio::time::timeout(std::time::Duration::from_secs(3), s.read_to_end(&mut v)).await;
            drop(s);
            if let Some(id) = wait_new_id(&x.w, &before).await {
                wait_dropped(&x.w, id).await;
            }
            x.expects.push(Expect { listener: "socks", src_port, target: None, connector: None, terminal: "ErrorOccured", up: 0, down: 0, kind });
            return None;
        }
        "garbage" => {
            let _ = s.write_all(b"\x16\x03\x01 this is not a proxy request\r\n\r\n").await;
            let _ = s.shutdown().await;
            let mut v = vec![];
            let _ = tokio::time::timeout(std::time::Duration::from_secs(3), s.read_to_end(&mut v)).await;
            target = None;
            terminal = "none";
            connector = None;
        }
        "hangup" => {
            let _ = s.write_all(if via_socks { &b"\x05\x01"[..] } else { &b"CONNECT exam"[..] }).await;
            drop(s);
            target = None;
            terminal = "none";
            connector = None;
            // nothing more to do
            let id = wait_new_id(&x.w, &before).await;
            if let Some(id) = id {
                wait_dropped(&x.w, id).await;
            }
            x.expects.push(Expect { listener: if via_socks { "socks" } else { "http" }, src_port, target, connector, terminal, up: 0, down: 0, kind });
            return None;
        }
        _ => {
            let mut first: Vec<u8> = if via_socks {
                let mut r = vec![5u8, 1, 0, 5, 1, 0, 3, host.len() as u8];
                r.extend(host.as_bytes());
                r.extend(tport.to_be_bytes());
                r
            } else {
                format!("CONNECT {}:{} HTTP/1.1\r\nHost: x\r\n\r\n", host, tport).into_bytes()
            };
            first.extend_from_slice(&up[..early]);
            let _ = s.write_all(&first).await;
            if kind == "upvanish" {
                // established, then the upstream goes away: what the client sends afterwards is read by the proxy but never delivered
                let n = if via_socks { 2 + 4 + 1 + host.len() + 2 + 1 } else { 39 };
                let mut reply = vec![0u8; n];
                let _ = tokio::time::timeout(std::time::Duration::from_secs(3), s.read_exact(&mut reply)).await;
                tokio::time::sleep(std::time::Duration::from_millis(20)).await;
                let _ = s.write_all(&up).await;
                let mut v = vec![];
                let _ = tokio::time::timeout(std::time::Duration::from_secs(3), s.read_to_end(&mut v)).await;
                terminal = "any";
                connector = Some("gone");
            } else if kind.starts_with("ok") {
                // read the reply, then send the rest
                let n = if via_socks { 2 + 4 + 1 + host.len() + 2 + 1 } else { 39 };
                let mut reply = vec![0u8; n];
                let _ = tokio::time::timeout(std::time::Duration::from_secs(3), s.read_exact(&mut reply)).await;
                let _ = s.write_all(&up[early..]).await;
                if hold {
                    x.expects.push(Expect { listener: if via_socks { "socks" } else { "http" }, src_port, target, connector: Some("up"), terminal: "Terminated", up: up_n, down: 0, kind: "held" });
                    return Some(s);
                }
                let _ = s.shutdown().await;
                let mut v = vec![];
                let _ = tokio::time::timeout(std::time::Duration::from_secs(3), s.read_to_end(&mut v)).await;
                down = v.len();
                terminal = "Terminated";
                connector = Some("up");
            } else {
                let _ = s.shutdown().await;
                let mut v = vec![];
                let _ = tokio::time::timeout(std::time::Duration::from_secs(3), s.read_to_end(&mut v)).await;
                terminal = "ErrorOccured";
                connector = if kind == "connfail" { Some("bad") } else { None };
            }
        }
    }
    drop(s);
    if let Some(id) = wait_new_id(&x.w, &before).await {
        wait_dropped(&x.w, id).await;
    }
    x.expects.push(Expect { listener: if via_socks { "socks" } else { "http" }, src_port, target, connector, terminal, up: up_n, down, kind });
    None
}

async fn wait_new_id(w: &World, before: &std::collections::HashSet<u64>) -> Option<u64> {
    for _ in 0..2000 {
        {
            let a = w.state.contexts.alive.lock().await;
            if let Some(id) = a.keys().find(|k| !before.contains(k)) {
                return Some(*id);
            }
        }
        tokio::time::sleep(std::time::Duration::from_millis(1)).await;
    }
    None
}

fn ids_s(v: &[u64]) -> String {
    format!("[{}]", v.iter().map(|x| x.to_string()).collect::<Vec<_>>().join(","))
}

async fn observe(out: &mut Out, x: &mut W16, history: usize) -> String {
    // wait for the GC tick to take everything that was dropped
    for _ in 0..400 {
        if x.w.state.contexts.gc_list.lock().unwrap().is_empty() {
            break;
        }
        tokio::time::sleep(std::time::Duration::from_millis(10)).await;
    }
    tokio::time::sleep(std::time::Duration::from_millis(50)).await;
    if let Some(l) = &x.w.state.contexts.access_log {
        let _ = l.reopen().await; // what POST /logrotate does: flushes the file
    }
    tokio::time::sleep(std::time::Duration::from_millis(100)).await;
    let live: Vec<u64> = {
        let a = x.w.state.contexts.alive.lock().await;
        let mut v: Vec<u64> = a.iter().filter(|(_, w)| w.upgrade().is_some()).map(|(k, _)| *k).collect();
        v.sort();
        v
    };
    let hist: Vec<Arc<crate::context::ContextProps>> = x.w.state.contexts.terminated.lock().await.iter().cloned().collect();
    let hist_ids: Vec<u64> = hist.iter().map(|p| p.id).collect();
    let text = std::fs::read_to_string(&x.log_path).unwrap_or_default();
    let mut log_ids = vec![];
    let mut recs: Vec<serde_json::Value> = vec![];
    for l in text.lines() {
        match serde_json::from_str::<serde_json::Value>(l) {
            Ok(v) => {
                log_ids.push(v.get("id").and_then(|i| i.as_u64()).unwrap_or(u64::MAX));
                recs.push(v);
            }
            Err(_) => out.oracle_fail("log-line-unparsable", &format!("{:?}", &l[..l.len().min(80)])),
        }
    }
    // ---- oracle on the records (log holds every finished connection; ids are positions in x.expects)
    let mut seen = std::collections::HashSet::new();
    for v in recs.iter() {
        let id = v["id"].as_u64().unwrap_or(u64::MAX);
        if !seen.insert(id) {
            out.oracle_fail("logged-twice", &format!("id {}", id));
        }
        let e = match x.expects.get(id as usize) {
            Some(e) => e.clone(),
            None => {
                out.oracle_fail("unknown-id-logged", &format!("id {}", id));
                continue;
            }
        };
        let states: Vec<String> = v["state"].as_array().map(|a| a.iter().map(|s| s["state"].as_str().unwrap_or("?").to_string()).collect()).unwrap_or_default();
        let terminals = states.iter().filter(|s| *s == "Terminated" || *s == "ErrorOccured").count();
        let ctx = format!("id {} ({} via {}): states {:?}", id, e.kind, e.listener, states);
        if v["listener"].as_str() != Some(e.listener) {
            out.oracle_fail("record-listener", &format!("{}: listener {:?}", ctx, v["listener"]));
        }
        if !v["source"].as_str().map(|s| s.ends_with(&format!(":{}", e.src_port))).unwrap_or(false) {
            out.oracle_fail("record-source", &format!("{}: source {:?}, client port {}", ctx, v["source"], e.src_port));
        }
        // the lifecycle: no upstream phase is recorded for a connection that never got an upstream, and every state at most once
        if e.connector.is_none() && states.iter().any(|s| s == "ServerConnecting" || s == "Connected") {
            out.oracle_fail("lifecycle", &format!("{}: no upstream was chosen, yet an upstream phase is recorded", ctx));
        }
        {
            let mut once = std::collections::HashSet::new();
            if states.iter().any(|s| !once.insert(s.clone())) {
                out.oracle_fail("lifecycle", &format!("{}: a state is recorded twice", ctx));
            }
        }
        if let Some(t) = &e.target {
            if v["target"].as_str() != Some(t.as_str()) {
                out.oracle_fail("record-target", &format!("{}: target {:?}, requested {}", ctx, v["target"], t));
            }
        }
        if v["connector"].as_str() != e.connector {
            out.oracle_fail("record-connector", &format!("{}: connector {:?}, used {:?}", ctx, v["connector"], e.connector));
        }
        if states.first().map(|s| s.as_str()) != Some("ClientConnected") {
            out.oracle_fail("lifecycle", &format!("{}: does not start with ClientConnected", ctx));
        }
        if terminals != 1 || !matches!(states.last().map(|s| s.as_str()), Some("Terminated") | Some("ErrorOccured")) {
            out.oracle_fail("no-single-terminal-state", &ctx);
        } else if e.terminal != "none" && e.terminal != "any" && states.last().map(|s| s.as_str()) != Some(e.terminal) {
            out.oracle_fail("wrong-terminal-state", &format!("{}: expected {}", ctx, e.terminal));
        }
        if (states.last().map(|s| s.as_str()) == Some("ErrorOccured")) != v["error"].is_string() {
            out.oracle_fail("error-text", &format!("{}: error field {:?}", ctx, v["error"]));
        }
        if e.kind == "upvanish" {
            // nothing was delivered to the vanished upstream, so nothing may be counted as relayed to it
            let up = v["client_stat"]["read_bytes"].as_u64().unwrap_or(u64::MAX);
            if up != 0 {
                out.oracle_fail("byte-counters", &format!("{}: {} bytes counted as relayed to an upstream that received none", ctx, up));
            }
        }
        if e.terminal == "Terminated" {
            let up = v["client_stat"]["read_bytes"].as_u64().unwrap_or(u64::MAX);
            let down = v["server_stat"]["read_bytes"].as_u64().unwrap_or(u64::MAX);
            if up != e.up as u64 || down != e.down as u64 {
                out.oracle_fail("byte-counters", &format!("{}: counters up={} down={}, relayed up={} down={}", ctx, up, down, e.up, e.down));
            }
        }
    }
    // the history is the newest `history` finished connections, newest first (the log holds all of them, in order)
    let want: Vec<u64> = log_ids.iter().rev().take(history).cloned().collect();
    if hist_ids != want {
        out.oracle_fail("history-not-newest-first", &format!("history {} but the last {} logged connections, newest first, are {}", ids_s(&hist_ids), history, ids_s(&want)));
    }
    if hist_ids.len() > history {
        out.oracle_fail("history-unbounded", &format!("{} entries, bound {}", hist_ids.len(), history));
    }
    format!("live={} hist={} log={}", ids_s(&live), ids_s(&hist_ids), ids_s(&log_ids))
}

pub async fn run(out: &mut Out) {
    let mut rng = Rng(out.seed() ^ 0xC16);
    let thorough = out.tier_thorough();
    let _ = std::fs::create_dir_all("/verif/out/C16");
    let hs: &[usize] = if thorough { &[0, 1, 3, 100, 2, 7] } else { &[0, 1, 3, 100] };
    for (wi, &h) in hs.iter().enumerate() {
        let mut x = new_world(h, &format!("{}-{}", out.seed(), wi)).await;
        out.case(&format!("N {}", h), "ok");
        let mut held: Option<TcpStream> = None;
        let rounds = if thorough { 4 } else { 2 };
        for round in 0..rounds {
            // a burst that is larger than small history sizes, inside one GC interval when possible
            // the first burst goes through every kind of connection once
            let n = if round == 0 { 8 } else { rng.range(2, if thorough { 12 } else { 7 }) };
            for k in 0..n {
                one_connection(&mut x, &mut rng, k + round, false).await;
            }
            out.case(&format!("K {}", n), "ok");
            out.stat_add("connections", n as u64);
            if round == 0 {
                held = one_connection(&mut x, &mut rng, 0, true).await;
                out.case("O", "ok");
            }
            let obs = observe(out, &mut x, h).await;
            out.case("G", &obs);
            if round == 0 {
                if let Some(mut s) = held.take() {
                    let before: std::collections::HashSet<u64> = Default::default();
                    let _ = before;
                    let _ = s.shutdown().await;
                    let mut v = vec![];
                    let _ = tokio::time::timeout(std::time::Duration::from_secs(3), s.read_to_end(&mut v)).await;
                    drop(s);
                    // the held connection is the last id handed out so far
                    let id = x.expects.len() as u64 - 1;
                    wait_dropped(&x.w, id).await;
                    out.case("X", "ok");
                }
            }
        }
        let obs = observe(out, &mut x, h).await;
        out.case("G", &obs);
        if h == 100 || h == 3 {
            // more connections than any internal queue holds, ending within one collector interval (started right after a
            // tick): 160 short (denied) connections
            for _ in 0..2 {
                let n = 160;
                for _ in 0..n {
                    one_connection(&mut x, &mut rng, 1, false).await;
                }
                out.case(&format!("K {}", n), "ok");
                out.stat_add("connections", n as u64);
                out.stat("burst_within_one_tick");
                let obs = observe(out, &mut x, h).await;
                out.case("G", &obs);
            }
        }
        let _ = std::fs::remove_file(&x.log_path);
    }
}
