// C05: no remote input can crash the proxy — malformed-first generation against every decoder that
// touches peer bytes, outcome class (ok / err / panic) compared with the model; oracle: never a panic.
use super::codec::*;
use super::util::*;
use crate::context::TargetAddress;

async fn feed(out: &mut Out, kind: usize, bytes: &[u8], rng: &mut Rng) {
    let segs = if rng.chance(1, 3) { random_cuts(rng, bytes) } else if bytes.is_empty() { vec![] } else { vec![bytes.to_vec()] };
    let (case, imp) = match kind {
        0 => {
            let r = op_sreq(rng.chance(1, 2), &segs).await;
            (r.0, r.1)
        }
        1 => {
            let r = op_sresp(&segs).await;
            (r.0, r.1)
        }
        2 => {
            let r = op_hreq(&segs, "tbl=-").await;
            (r.0, r.1)
        }
        3 => {
            let r = op_hresp(&segs).await;
            (r.0, r.1)
        }
        4 => {
            let r = op_fbuf(bytes);
            (r.0, r.1)
        }
        5 => op_fhead(bytes),
        6 => {
            let r = op_fstream(&segs).await;
            (r.0, r.1)
        }
        7 => {
            let r = op_udec(bytes);
            (r.0, r.1)
        }
        8 => {
            // hostile upstream answering our CONNECT (tcp / udp: Session-Id parsing)
            let t = TargetAddress::DomainPort("example.com".into(), 443);
            let r = op_h11c(*rng.pick(&['t', 'u', 'b']), &t, &segs).await;
            (r.0, r.1)
        }
        9 => {
            let r = op_hhs(&segs, "tbl=-").await;
            (r.0, r.1)
        }
        10 => {
            // hostile SOCKS upstream answering the negotiation of our connector
            let t = TargetAddress::DomainPort("example.com".into(), 443);
            let auth = if rng.chance(1, 2) { None } else { Some(("u".to_string(), "p".to_string())) };
            let r = op_wsreq(*rng.pick(&[4u8, 5]), 1, &t, &auth, &segs).await;
            (r.0, r.1)
        }
        _ => {
            let r = op_addrparse(bytes);
            (r.0, r.1)
        }
    };
    out.case(&case, &imp);
    out.stat(&format!("kind{}_{}", kind, imp.split(' ').next().unwrap_or("")));
    if imp.starts_with("panic") || imp.ends_with("panic") {
        out.oracle_fail("decoder-panic", &format!("panic in decoder kind {} on {}", kind, &case[..case.len().min(160)]));
    }
}

fn valid_message(rng: &mut Rng, kind: usize) -> Vec<u8> {
    let t = gen_plain_target(rng);
    match kind {
        0 => match rng.below(3) {
            0 => socks5_req_bytes(&[0, 2], None, 5, 1, &t),
            1 => socks5_req_bytes(&[2], Some((b"user", b"pass")), 5, 1, &t),
            _ => socks4_req_bytes(1, &TargetAddress::DomainPort("host.example".into(), 80), b"id"),
        },
        1 => socks_resp_bytes(*rng.pick(&[4u8, 5]), 0, &t),
        2 | 9 => {
            let hs = gen_headers(rng);
            http_head_bytes(&format!("CONNECT {} HTTP/1.1", t), &hs)
        }
        3 | 8 => {
            let mut hs = gen_headers(rng);
            if rng.chance(1, 2) {
                hs.push(("Session-Id".into(), rng.pick(&["7", "x", "-1", "4294967295", "4294967296", "", " 1", "+3"]).to_string()));
            }
            http_head_bytes(&format!("HTTP/1.1 {} OK", rng.pick(&["200", "200", "503", "99999", "abc"])), &hs)
        }
        4 | 5 | 6 => {
            let l = rng.below(20);
            let body = rng.bytes(l);
            let a = match rng.below(4) {
                0 => None,
                1 => { let hl = rng.range(1, 5); Some(TargetAddress::DomainPort(gen_host(rng, hl, 0), 53)) }
                _ => Some(t),
            };
            rpfm_bytes(rng.next() as u32, &a, &body)
        }
        7 => {
            let mut v = vec![0, 0, 0];
            v.extend_from_slice(&addr_socks5(&t));
            let l = rng.below(8);
            v.extend_from_slice(&rng.bytes(l));
            v
        }
        10 => match rng.below(3) {
            0 => vec![5, 0, 5, 0, 0, 1, 1, 2, 3, 4, 0, 80],
            1 => vec![5, 2, 1, 0, 5, 0, 0, 1, 1, 2, 3, 4, 0, 80],
            _ => vec![0, 90, 0, 80, 1, 2, 3, 4],
        },
        _ => t.to_string().into_bytes(),
    }
}

pub async fn run(out: &mut Out) {
    // "or stop it from serving other connections": clients stalled at every handshake stage of every listener
    super::stall::stall_matrix(out, "C05").await;
    let mut rng = Rng(out.seed() ^ 0xC05);
    let thorough = out.tier_thorough();
    let nk = 12;
    let rounds = if thorough { 120 } else { 14 };
    for _ in 0..rounds {
        for kind in 0..nk {
            let msg = valid_message(&mut rng, kind);
            feed(out, kind, &msg, &mut rng).await;
            // every value of every byte position among the first 24 (structure bytes live there)
            let npos = msg.len().min(if thorough { 24 } else { 14 });
            for pos in 0..npos {
                let vals: Vec<u8> = if thorough || pos < 6 { (0..=255u8).collect() } else { vec![0, 1, 2, 3, 4, 5, 6, 127, 128, 254, 255] };
                for v in vals {
                    if v == msg[pos] {
                        continue;
                    }
                    let mut m = msg.clone();
                    m[pos] = v;
                    feed(out, kind, &m, &mut rng).await;
                }
            }
            // truncation at every offset
            for cut in 0..msg.len() {
                feed(out, kind, &msg[..cut], &mut rng).await;
            }
            // garbage, insertions, deletions
            for _ in 0..6 {
                let mut m = msg.clone();
                match rng.below(4) {
                    0 => {
                        let l = rng.below(40);
                        m = rng.bytes(l);
                    }
                    1 => {
                        if !m.is_empty() {
                            let at = rng.below(m.len());
                            m.remove(at);
                        }
                    }
                    2 => {
                        let at = rng.below(m.len() + 1);
                        m.insert(at, rng.next() as u8);
                    }
                    _ => {
                        let l = rng.below(6);
                        m.extend_from_slice(&rng.bytes(l));
                    }
                }
                feed(out, kind, &m, &mut rng).await;
            }
        }
    }
    // header lines: every shape of key / separator / value around the `: ` delimiter, at every header position of request and
    // response heads (through the plain readers, h11c_connect and h11c_handshake)
    {
        let keys: [&[u8]; 6] = [b"", b"X", b"Host", b"Session-Id", b"Proxy-Protocol", b" K"];
        let seps: [&[u8]; 8] = [b":", b": ", b":  ", b" : ", b":\t", b"", b" ", b"::"];
        let vals: [&[u8]; 7] = [b"", b" ", b"v", b"7", b"udp", b"\xc3\xa9", b"a: b"];
        let ends: [&[u8]; 3] = [b"\r\n", b"\n", b" \r\n"];
        for k in keys.iter() {
            for sp in seps.iter() {
                for v in vals.iter() {
                    for e in ends.iter() {
                        let mut line = k.to_vec();
                        line.extend_from_slice(sp);
                        line.extend_from_slice(v);
                        line.extend_from_slice(e);
                        for (kind, first) in [(2usize, &b"CONNECT example.com:80 HTTP/1.1\r\n"[..]), (3, &b"HTTP/1.1 200 OK\r\n"[..]), (8, &b"HTTP/1.1 200 OK\r\n"[..]), (9, &b"CONNECT example.com:80 HTTP/1.1\r\n"[..])] {
                            for before in [false, true] {
                                let mut m = first.to_vec();
                                if before {
                                    m.extend_from_slice(b"Host: x\r\n");
                                }
                                m.extend_from_slice(&line);
                                m.extend_from_slice(b"\r\n");
                                feed(out, kind, &m, &mut rng).await;
                                out.stat("header_line_grid");
                            }
                        }
                    }
                }
            }
        }
    }
    // long strings in every length-delimited or terminated field, around the 255 / 256 / 257 boundary and far beyond
    {
        for n in [0usize, 1, 254, 255, 256, 257, 300, 600, 4096] {
            for nul in [true, false] {
                let tail: &[u8] = if nul { &[0] } else { &[] };
                // SOCKS4 user id
                let mut m = vec![4u8, 1, 0, 80, 1, 2, 3, 4];
                m.extend(std::iter::repeat(b'u').take(n));
                m.extend_from_slice(tail);
                feed(out, 0, &m, &mut rng).await;
                // SOCKS4a host name (ip 0.0.0.1), with a short and with a long user id in front
                for uid in [1usize, n] {
                    let mut m = vec![4u8, 1, 0, 80, 0, 0, 0, 1];
                    m.extend(std::iter::repeat(b'u').take(uid));
                    m.push(0);
                    m.extend(std::iter::repeat(b'h').take(n));
                    m.extend_from_slice(tail);
                    feed(out, 0, &m, &mut rng).await;
                }
                out.stat("long_string_grid");
            }
            // SOCKS5 domain / user / password with the largest length bytes and short data behind them
            for have in [0usize, 1, n.min(255)] {
                let l = n.min(255) as u8;
                let mut m = vec![5u8, 1, 0, 5, 1, 0, 3, l];
                m.extend(std::iter::repeat(b'd').take(have));
                m.extend_from_slice(&[0, 80]);
                feed(out, 0, &m, &mut rng).await;
                let mut m = vec![5u8, 1, 2, 1, l];
                m.extend(std::iter::repeat(b'u').take(have));
                m.push(l);
                m.extend(std::iter::repeat(b'p').take(have));
                m.extend_from_slice(&[5, 1, 0, 1, 1, 2, 3, 4, 0, 80]);
                feed(out, 0, &m, &mut rng).await;
                // the connector side: an upstream's SOCKS5 reply with a domain-typed bound address
                let mut m = vec![5u8, 0, 0, 3, l];
                m.extend(std::iter::repeat(b'b').take(have));
                m.extend_from_slice(&[0, 80]);
                feed(out, 1, &m, &mut rng).await;
                feed(out, 10, &m, &mut rng).await;
            }
            // HTTP: long request-target, long header name / value, long status text
            let long = "x".repeat(n);
            feed(out, 2, format!("CONNECT {}:80 HTTP/1.1\r\nHost: x\r\n\r\n", long).as_bytes(), &mut rng).await;
            feed(out, 9, format!("CONNECT {}:80 HTTP/1.1\r\n{}: {}\r\n\r\n", long, long, long).as_bytes(), &mut rng).await;
            feed(out, 3, format!("HTTP/1.1 200 {}\r\n{}: {}\r\n\r\n", long, long, long).as_bytes(), &mut rng).await;
            feed(out, 8, format!("HTTP/1.1 200 OK\r\nSession-Id: {}\r\n\r\n", "9".repeat(n)).as_bytes(), &mut rng).await;
        }
    }
    // RPFM address attributes: every (tag, len) with short and long values
    for tag in 0..=5u8 {
        for len in 0..=255u8 {
            if !thorough && len > 24 && len % 16 != 7 {
                continue;
            }
            for avail in [0usize, 1, 2, 5, 6, 7, 17, 18, 19, 40] {
                let mut attr = vec![tag, len];
                attr.extend_from_slice(&rng.bytes(avail));
                let mut v = b"RPFM".to_vec();
                v.extend_from_slice(&[0, 0, 0, 1]);
                v.extend_from_slice(&(attr.len() as u16).to_be_bytes());
                v.extend_from_slice(&[0, 2, ]);
                v.extend_from_slice(&attr);
                v.extend_from_slice(b"xy");
                feed(out, 4, &v, &mut rng).await;
                feed(out, 6, &v, &mut rng).await;
                out.stat("attr_grid");
            }
        }
    }
    // QUIC datagrams into Fragments<Frame>: hostile headers and undecodable completed sets
    let good = rpfm_bytes(9, &Some(v4(0x01020304, 53)), b"hello world");
    let nrf = if thorough { 3000 } else { 400 };
    for i in 0..nrf {
        let mut dgrams: Vec<Vec<u8>> = vec![];
        let n = rng.range(1, 6);
        for _ in 0..n {
            let id = *rng.pick(&[1u16, 2, 3]);
            let payload: Vec<u8> = match rng.below(4) {
                0 => good.clone(),
                1 => good[..rng.below(good.len())].to_vec(),
                2 => {
                    let l = rng.below(20);
                    rng.bytes(l)
                }
                _ => good[rng.below(good.len())..].to_vec(),
            };
            let (total, seq) = match rng.below(6) {
                0 => (1u8, 0u8),
                1 => (2, rng.below(2) as u8),
                2 => (3, rng.below(4) as u8),
                3 => (rng.next() as u8, rng.next() as u8),
                4 => (0, 0),
                _ => (2, 1),
            };
            let mut d = id.to_be_bytes().to_vec();
            d.push(total);
            d.push(seq);
            d.extend_from_slice(&payload);
            if rng.chance(1, 10) {
                d.truncate(rng.below(4));
            }
            dgrams.push(d);
        }
        if i % 7 == 0 {
            // C11a shape: an undecodable 2-fragment set completes, then a good frame reuses the id
            dgrams = vec![
                vec![0, 5, 2, 0, 1, 2, 3],
                vec![0, 5, 2, 1, 4, 5],
                [&[0u8, 5, 2, 0][..], &good[..10]].concat(),
                [&[0u8, 5, 2, 1][..], &good[10..]].concat(),
            ];
        }
        let (case, imp) = op_rfr(&dgrams);
        out.case(&case, &imp);
        out.stat("rfr");
        if imp.contains("panic") {
            out.oracle_fail("decoder-panic", "Fragments<Frame>::reassemble panicked");
        }
        if i % 7 == 0 && !imp.ends_with("b=68656c6c6f20776f726c64]") {
            out.oracle_fail("frame-lost-after-undecodable", &format!("good frame reusing the id of an undecodable completed set was not delivered: {}", imp));
        }
    }
}
