// Shared machinery for the routing-level harnesses (C02, C15, C16, C17, C06): a hand-built GlobalState with
// RECORDING connectors, and `run_request`, which drives the real `process_request` with in-memory duplex streams.
use super::c08::{props_of, req_line, Req};
use super::util::*;
use crate::connectors::Connector;
use crate::context::{make_buffered_stream, Context, ContextCallback, ContextRef, ContextState, Feature};
use async_trait::async_trait;
use easy_error::{err_msg, Error};
use std::sync::atomic::{AtomicBool, Ordering};
use std::sync::{Arc, Mutex as StdMutex};
use tokio::io::{AsyncReadExt, AsyncWriteExt};

#[derive(Default)]
pub struct RecLog {
    pub connects: Vec<String>,          // names of connectors whose connect() was called, in order
    pub upstream_bytes: Vec<(String, Vec<u8>)>, // what each fake upstream received
    pub events: Vec<String>,            // callback events seen by the client side
}

pub struct RecConnector {
    pub name: String,
    pub feats: Vec<Feature>,
    pub fail: AtomicBool,
    pub log: Arc<StdMutex<RecLog>>,
    pub tasks: Arc<StdMutex<Vec<tokio::task::JoinHandle<()>>>>,
    pub reply: Vec<u8>, // bytes the fake upstream sends back before closing
    pub fail_msg: StdMutex<String>, // error text when `fail` is set
    pub local_v6: AtomicBool,      // report an IPv6 outgoing socket (as a real connector does with set_local_addr)
    pub vanish: AtomicBool,        // the upstream goes away right after the connection is established, reading nothing
}

#[async_trait]
impl Connector for RecConnector {
    async fn connect(self: Arc<Self>, _state: Arc<crate::GlobalState>, ctx: ContextRef) -> Result<(), Error> {
        self.log.lock().unwrap().connects.push(self.name.clone());
        if self.fail.load(Ordering::SeqCst) {
            return Err(err_msg(self.fail_msg.lock().unwrap().clone()));
        }
        let (a, mut b) = tokio::io::duplex(1 << 20);
        let (local, remote): (std::net::SocketAddr, std::net::SocketAddr) = if self.local_v6.load(Ordering::SeqCst) {
            ("[::1]:40001".parse().unwrap(), "[::1]:3128".parse().unwrap())
        } else {
            ("127.0.0.1:40001".parse().unwrap(), "127.0.0.1:3128".parse().unwrap())
        };
        ctx.write().await.set_server_stream(make_buffered_stream(a)).set_local_addr(local).set_server_addr(remote);
        let log = self.log.clone();
        let name = self.name.clone();
        let reply = self.reply.clone();
        let vanish = self.vanish.load(Ordering::SeqCst);
        let h = tokio::spawn(async move {
            if vanish {
                drop(b);
                log.lock().unwrap().upstream_bytes.push((name, vec![]));
                return;
            }
            let _ = b.write_all(&reply).await;
            let mut got = vec![];
            let _ = b.read_to_end(&mut got).await;
            log.lock().unwrap().upstream_bytes.push((name, got));
            let _ = b.shutdown().await;
        });
        self.tasks.lock().unwrap().push(h);
        Ok(())
    }
    fn name(&self) -> &str {
        &self.name
    }
    fn features(&self) -> &[Feature] {
        &self.feats
    }
}

pub struct RecCallback(pub Arc<StdMutex<RecLog>>);
#[async_trait]
impl ContextCallback for RecCallback {
    async fn on_connect(&self, _ctx: &mut Context) {
        self.0.lock().unwrap().events.push("on_connect".into());
    }
    async fn on_error(&self, _ctx: &mut Context, _e: Error) {
        self.0.lock().unwrap().events.push("on_error".into());
    }
    async fn on_finish(&self, _ctx: &mut Context) {
        self.0.lock().unwrap().events.push("on_finish".into());
    }
}

pub fn feature_of(s: &str) -> Feature {
    match s {
        "TcpForward" => Feature::TcpForward,
        "TcpBind" => Feature::TcpBind,
        "UdpForward" => Feature::UdpForward,
        _ => Feature::UdpBind,
    }
}

pub struct World {
    pub state: Arc<crate::GlobalState>,
    pub log: Arc<StdMutex<RecLog>>,
    pub conns: Vec<Arc<RecConnector>>,
    pub tasks: Arc<StdMutex<Vec<tokio::task::JoinHandle<()>>>>,
}

/// a GlobalState with recording connectors `(name, features)`; buffered relay (in-memory streams)
pub fn world(conns: &[(String, Vec<Feature>)], history_size: usize) -> World {
    let log = Arc::new(StdMutex::new(RecLog::default()));
    let tasks = Arc::new(StdMutex::new(vec![]));
    let mut st = crate::GlobalState::default();
    {
        let c = Arc::get_mut(&mut st.contexts).unwrap();
        c.history_size = history_size;
    }
    let mut recs = vec![];
    for (name, feats) in conns {
        let r = Arc::new(RecConnector { name: name.clone(), feats: feats.clone(), fail: AtomicBool::new(false), log: log.clone(), tasks: tasks.clone(), reply: vec![], fail_msg: StdMutex::new("recording connector: upstream refused".into()), local_v6: AtomicBool::new(false), vanish: AtomicBool::new(false) });
        st.connectors.insert(name.clone(), r.clone());
        recs.push(r);
    }
    World { state: Arc::new(st), log, conns: recs, tasks }
}

pub fn conns_line(conns: &[(String, Vec<Feature>)]) -> String {
    if conns.is_empty() {
        return "-".into();
    }
    conns.iter().map(|(n, f)| format!("{}:{}", hex(n.as_bytes()), f.iter().map(|x| x.to_string()).collect::<Vec<_>>().join("+"))).collect::<Vec<_>>().join(";")
}

/// rules as (target, optional filter text)
pub fn rules_line(rules: &[(String, Option<String>)]) -> String {
    if rules.is_empty() {
        return "-".into();
    }
    rules.iter().map(|(t, f)| format!("{}={}", hex(t.as_bytes()), f.as_ref().map(|s| hex(s.as_bytes())).unwrap_or_else(|| "N".into()))).collect::<Vec<_>>().join(";")
}

/// the real loader path: YAML values -> rules::from_config -> GlobalState::set_rules
pub async fn set_rules(w: &World, rules: &[(String, Option<String>)]) -> Result<(), String> {
    let vals: Vec<serde_yaml::Value> = rules
        .iter()
        .map(|(t, f)| {
            let mut m = serde_yaml::Mapping::new();
            m.insert("target".into(), t.clone().into());
            if let Some(f) = f {
                m.insert("filter".into(), f.clone().into());
            }
            serde_yaml::Value::Mapping(m)
        })
        .collect();
    let rs = crate::rules::from_config(&vals).map_err(|e| e.to_string())?;
    w.state.set_rules(rs).await.map_err(|e| e.to_string())
}

pub struct Outcome {
    pub connects: Vec<String>,
    pub upstream: Vec<(String, Vec<u8>)>,
    pub events: Vec<String>,
    pub states: Vec<String>,
    pub error: Option<String>,
    pub connector: Option<String>,
    pub id: u64,
    pub client_got: Vec<u8>,
}

/// one request through the real `process_request`: the client stream already holds `payload` and is half-closed
pub async fn run_request(w: &World, r: &Req, payload: &[u8]) -> Outcome {
    {
        let mut l = w.log.lock().unwrap();
        l.connects.clear();
        l.upstream_bytes.clear();
        l.events.clear();
    }
    let ctx = w.state.contexts.create_context(r.listener.clone(), r.source).await;
    let (cl, mut peer) = tokio::io::duplex(1 << 20);
    {
        let mut c = ctx.write().await;
        c.set_target(r.target.clone()).set_feature(r.feature).set_client_stream(make_buffered_stream(cl)).set_callback(RecCallback(w.log.clone()));
    }
    let _ = peer.write_all(payload).await;
    let _ = peer.shutdown().await;
    let id = ctx.read().await.props().id;
    crate::process_request(ctx.clone(), w.state.clone()).await;
    let hs: Vec<_> = w.tasks.lock().unwrap().drain(..).collect();
    // the relay has dropped its streams by now (Ok or Err), so every fake upstream sees EOF
    let props = ctx.read().await.props().clone();
    drop(ctx);
    for h in hs {
        let _ = tokio::time::timeout(std::time::Duration::from_secs(5), h).await;
    }
    let mut client_got = vec![];
    let _ = tokio::time::timeout(std::time::Duration::from_secs(5), peer.read_to_end(&mut client_got)).await;
    let l = w.log.lock().unwrap();
    Outcome {
        connects: l.connects.clone(),
        upstream: l.upstream_bytes.clone(),
        events: l.events.clone(),
        // ContextStateLog's fields are private: take the state name from its Debug form
        states: props
            .state
            .iter()
            .map(|s| {
                let d = format!("{:?}", s);
                d.split("state: ").nth(1).and_then(|r| r.split(',').next()).unwrap_or("?").to_string()
            })
            .collect(),
        error: props.error.clone(),
        connector: props.connector.clone(),
        id,
        client_got,
    }
}

/// canonical summary compared with the model: decision class, upstream bytes, callback events
pub fn outcome_line(o: &Outcome) -> String {
    let decision = if let Some(c) = o.connects.first() {
        format!("connect:{}", hex(c.as_bytes()))
    } else {
        let e = o.error.as_deref().unwrap_or("");
        if e.contains("access denied") {
            "refuse:denied".to_string()
        } else if e.contains("unsupported connector feature") {
            "refuse:unsupported".to_string()
        } else {
            format!("refuse:other({})", e.chars().take(40).collect::<String>())
        }
    };
    let up = if o.upstream.is_empty() { "-".to_string() } else { o.upstream.iter().map(|(n, b)| format!("{}<{}", hex(n.as_bytes()), hex(b))).collect::<Vec<_>>().join(",") };
    format!("{} nconnect={} up={} ev={}", decision, o.connects.len(), up, if o.events.is_empty() { "-".into() } else { o.events.join("+") })
}

// ------------------------------------------------------------------ real listeners on loopback
pub fn free_port() -> u16 {
    let l = std::net::TcpListener::bind("127.0.0.1:0").unwrap();
    l.local_addr().unwrap().port()
}

/// start a real listener (from its YAML, `bind` is added here) feeding the real dispatcher loop of `main`
pub async fn start_listener(w: &World, yaml_without_bind: &str) -> u16 {
    use crate::listeners::Listener;
    for _ in 0..20 {
        let port = free_port();
        let yaml = format!("{}\nbind: 127.0.0.1:{}", yaml_without_bind, port);
        let mut l = crate::listeners::from_value(&serde_yaml::from_str(&yaml).unwrap()).expect("listener config");
        l.init().await.expect("listener init");
        let l: Arc<dyn Listener> = l.into();
        let (tx, mut rx) = tokio::sync::mpsc::channel(100);
        if l.listen(w.state.clone(), tx).await.is_err() {
            continue;
        }
        let st = w.state.clone();
        tokio::spawn(async move {
            while let Some(ctx) = rx.recv().await {
                tokio::spawn(crate::process_request(ctx, st.clone()));
            }
        });
        return port;
    }
    panic!("no free port");
}

/// raw client: connect, send each chunk (reading `expect_reply[i]` bytes after chunk i), half-close, read to EOF
pub async fn raw_client(port: u16, chunks: &[(Vec<u8>, usize)], half_close: bool, wait_ms: u64) -> (Vec<Vec<u8>>, Vec<u8>, bool) {
    use tokio::net::TcpStream;
    let mut s = match TcpStream::connect(("127.0.0.1", port)).await {
        Ok(s) => s,
        Err(_) => return (vec![], vec![], false),
    };
    let mut interim = vec![];
    for (c, n) in chunks {
        let _ = s.write_all(c).await;
        let mut buf = vec![0u8; *n];
        if *n > 0 {
            match tokio::time::timeout(std::time::Duration::from_millis(wait_ms), s.read_exact(&mut buf)).await {
                Ok(Ok(_)) => interim.push(buf),
                _ => {
                    interim.push(vec![]);
                    break;
                }
            }
        }
    }
    if half_close {
        let _ = s.shutdown().await;
    }
    let mut rest = vec![];
    let eof = matches!(tokio::time::timeout(std::time::Duration::from_millis(wait_ms), s.read_to_end(&mut rest)).await, Ok(Ok(_)));
    (interim, rest, eof)
}
