// C11 (and the fragment part of C05): drive the real `Fragments` / `MakeFragments` code.
//
// case lines (a session starts with `new`):
//   new <timeout_ms>            fresh Fragments::new(timeout), frame id counter 0      -> ok
//   setid <id>                  set the sender's frame id counter                       -> ok
//   M <mtu> <hex>               make_fragments(mtu, &mut id, buf).collect()             -> frags <h>,<h>,.. | toolarge | panic
//   R <now> <hex>               reassemble(datagram) at logical time <now>              -> none | frame <hex> | panic
//   T <now>                     timer() at logical time <now>                           -> ok
//   S <ms>                      (real sleep; the model ignores it)                      -> ok
use super::util::*;
use crate::common::fragment::{Fragmentable, Fragments};
use bytes::{Buf, Bytes};
use std::collections::{HashMap, HashSet};
use std::time::Duration;

#[derive(Debug, PartialEq, Eq, Clone)]
struct TB {
    buf: Bytes,
}
impl Fragmentable for TB {
    type Buffer = Bytes;
    fn as_buffer(&self) -> Bytes {
        self.buf.clone()
    }
    fn from_buffer(buf: Bytes) -> Option<Self> {
        Some(TB { buf })
    }
}

struct Sess {
    f: Fragments<TB>,
    id: u16,
    now: u64,
    timeout: u64,
    // oracle: independent bookkeeping of which fragments of which frame have been fed
    eligible: bool,
    seen: HashMap<u16, HashSet<u8>>,
    orig: HashMap<u16, (u8, Vec<u8>)>, // id -> (total, original buffer)
    // every buffer handed to make_fragments in this session (a delivered frame must be one of them)
    made: HashSet<Vec<u8>>,
    // integrity oracle on (off in the sessions that build frames by hand)
    integrity: bool,
    // ids whose slot was first taken by an inconsistent stray: nothing is demanded of the genuine frame with that id
    tainted: HashSet<u16>,
}

fn new_sess(out: &mut Out, timeout: u64) -> Sess {
    out.case(&format!("new {}", timeout), "ok");
    out.stat("sessions");
    Sess {
        f: Fragments::new(Duration::from_millis(timeout)),
        id: 0,
        now: 0,
        timeout,
        eligible: true,
        seen: HashMap::new(),
        orig: HashMap::new(),
        made: HashSet::new(),
        integrity: true,
        tainted: HashSet::new(),
    }
}

fn op_setid(out: &mut Out, s: &mut Sess, id: u16) {
    s.id = id;
    out.case(&format!("setid {}", id), "ok");
}

/// returns the fragments (None if panic)
fn op_make(out: &mut Out, s: &mut Sess, mtu: usize, buf: &[u8]) -> Option<Vec<Vec<u8>>> {
    let tb = TB {
        buf: Bytes::copy_from_slice(buf),
    };
    let mut id = s.id;
    let r = no_panic(|| {
        let it = Fragments::<TB>::make_fragments(mtu, &mut id, tb);
        let tl = it.too_large();
        let v: Vec<Vec<u8>> = it.map(|b| b.to_vec()).collect();
        (tl, v)
    });
    let used_id = s.id;
    let line = format!("M {} {}", mtu, hex(buf));
    match r {
        None => {
            out.case(&line, "panic");
            out.stat("make_panic");
            // id increment happens before MakeFragments::new
            s.id = s.id.wrapping_add(1);
            None
        }
        Some((tl, v)) => {
            s.id = id;
            if tl {
                out.case(&line, "toolarge");
                out.stat("make_toolarge");
                if !v.is_empty() {
                    out.oracle_fail("make-toolarge-nonempty", "too_large but fragments were produced");
                }
                Some(vec![])
            } else {
                let hs: Vec<String> = v.iter().map(|x| hex(x)).collect();
                out.case(&line, &format!("frags {}", hs.join(",")));
                out.stat(&format!("make_nfrag_{}", bucket(v.len())));
                // oracle on the sender: payloads concatenate to the buffer, sizes <= mtu, headers count 0..n
                let mut cat = vec![];
                for (i, f) in v.iter().enumerate() {
                    if f.len() > mtu || f.len() < 5 {
                        out.oracle_fail("make-size", &format!("fragment {} has size {} (mtu {})", i, f.len(), mtu));
                    }
                    if f.len() >= 4 {
                        let id = u16::from_be_bytes([f[0], f[1]]);
                        if id != used_id || f[2] as usize != v.len() || f[3] as usize != i {
                            out.oracle_fail("make-header", &format!("fragment {} header {:?} (id {} n {})", i, &f[..4], used_id, v.len()));
                        }
                        cat.extend_from_slice(&f[4..]);
                    }
                }
                if cat != buf {
                    out.oracle_fail("make-concat", "fragment payloads do not concatenate to the frame");
                }
                if !v.is_empty() {
                    s.orig.insert(used_id, (v.len() as u8, buf.to_vec()));
                    s.made.insert(buf.to_vec());
                    // a new frame under a reused id: the oracle's bookkeeping starts over (the previous frame with this
                    // id has been completed or has expired by then in every session that reuses ids)
                    s.seen.remove(&used_id);
                }
                Some(v)
            }
        }
    }
}

fn bucket(n: usize) -> &'static str {
    match n {
        0 => "0",
        1 => "1",
        2..=6 => "2-6",
        7..=127 => "7-127",
        _ => "128+",
    }
}

/// feed one datagram; `wellformed` = it is a fragment produced by op_make in this session
fn op_reasm(out: &mut Out, s: &mut Sess, d: &[u8], wellformed: bool) {
    op_reasm_k(out, s, d, if wellformed { GENUINE } else { MALFORMED })
}

const MALFORMED: u8 = 0;
const GENUINE: u8 = 1;
/// a fragment header that is valid by itself but carries another `total` than the genuine frame with the same id
const STRAY: u8 = 2;

fn op_reasm_k(out: &mut Out, s: &mut Sess, d: &[u8], kind: u8) {
    let wellformed = kind == GENUINE;
    let b = Bytes::copy_from_slice(d);
    let f = &mut s.f;
    let r = no_panic(|| f.reassemble(b));
    let line = format!("R {} {}", s.now, hex(d));
    let got: Option<Vec<u8>>;
    match r {
        None => {
            out.case(&line, "panic");
            out.stat("reasm_panic");
            out.oracle_fail("reasm-panic", &format!("reassemble panicked on {}", hex(&d[..d.len().min(8)])));
            // the Fragments value may be in an inconsistent state now: start over
            s.eligible = false;
            return;
        }
        Some(None) => {
            out.case(&line, "none");
            out.stat("reasm_none");
            got = None;
        }
        Some(Some(tb)) => {
            out.case(&line, &format!("frame {}", hex(&tb.buf)));
            out.stat("reasm_frame");
            got = Some(tb.buf.to_vec());
        }
    }
    // integrity, in every session: whatever comes out is a frame that was put in (or a single-fragment datagram as is)
    if s.integrity {
        if let Some(g) = &got {
            let single = d.len() >= 4 && d[2] == 1 && d[3] == 0 && g[..] == d[4..];
            if !single && !s.made.contains(g) {
                out.oracle_fail("wrong-frame-delivered", &format!("a frame of {} bytes was delivered that is none of the frames put in: {}", g.len(), hex(&g[..g.len().min(24)])));
            }
        }
    }
    if !s.eligible {
        return;
    }
    if kind == STRAY {
        let id = u16::from_be_bytes([d[0], d[1]]);
        let in_progress = s.seen.get(&id).map(|x| !x.is_empty()).unwrap_or(false);
        if !in_progress {
            // the stray takes the id's slot first: nothing is demanded of the genuine frame with this id
            s.tainted.insert(id);
        }
        if got.is_some() {
            out.oracle_fail("malformed-produced-frame", "a fragment inconsistent with the frame in progress produced a frame");
        }
        return;
    }
    // independent oracle: exactly-once at first completion, nothing for malformed input
    if !wellformed {
        if d.len() >= 4 {
            let (total, seq) = (d[2], d[3]);
            if total == 1 && seq == 0 {
                // a complete single-fragment datagram is a frame by itself
                if got.as_deref() != Some(&d[4..]) {
                    out.oracle_fail("single-not-delivered", "single-fragment datagram not delivered as is");
                }
                return;
            }
        }
        if got.is_some() {
            out.oracle_fail("malformed-produced-frame", "malformed datagram produced a frame");
        }
        return;
    }
    let id = u16::from_be_bytes([d[0], d[1]]);
    if s.tainted.contains(&id) {
        return;
    }
    let (total, seq) = (d[2], d[3]);
    let (otot, obuf) = s.orig.get(&id).cloned().unwrap();
    debug_assert_eq!(otot, total);
    let set = s.seen.entry(id).or_default();
    let newly = set.insert(seq);
    let complete = set.len() == total as usize;
    if complete {
        set.clear();
    }
    if newly && complete {
        if got.as_deref() != Some(&obuf[..]) {
            out.oracle_fail("complete-not-delivered", &format!("frame id {} complete but got {:?}", id, got.map(|g| g.len())));
        }
    } else if got.is_some() {
        out.oracle_fail("spurious-frame", &format!("frame id {} emitted although incomplete/duplicate", id));
    }
}

fn op_timer(out: &mut Out, s: &mut Sess) {
    let f = &mut s.f;
    let r = no_panic(|| f.timer());
    out.case(&format!("T {}", s.now), if r.is_some() { "ok" } else { "panic" });
    if r.is_none() {
        out.oracle_fail("timer-panic", "timer panicked");
    }
}

fn op_sleep(out: &mut Out, s: &mut Sess, ms: u64) {
    std::thread::sleep(Duration::from_millis(ms));
    s.now += ms;
    out.case(&format!("S {}", ms), "ok");
}

const HUGE: u64 = 3_600_000;

fn permutations(n: usize) -> Vec<Vec<usize>> {
    fn go(cur: &mut Vec<usize>, used: &mut Vec<bool>, n: usize, acc: &mut Vec<Vec<usize>>) {
        if cur.len() == n {
            acc.push(cur.clone());
            return;
        }
        for i in 0..n {
            if !used[i] {
                used[i] = true;
                cur.push(i);
                go(cur, used, n, acc);
                cur.pop();
                used[i] = false;
            }
        }
    }
    let mut acc = vec![];
    go(&mut vec![], &mut vec![false; n], n, &mut acc);
    acc
}

pub async fn run(out: &mut Out) {
    let mut rng = Rng(out.seed() ^ 0xC11);
    let thorough = out.tier_thorough();

    // ---- A. exhaustive: every permutation of n fragments with one duplicate at every position
    let maxn = if thorough { 6 } else { 5 };
    for n in 2..=maxn {
        let size = 3usize; // mtu 7
        let len = size * (n - 1) + 1 + rng.below(size);
        let buf = rng.bytes(len);
        for p in permutations(n) {
            for dup in 0..n {
                for pos in 0..=n {
                    let mut s = new_sess(out, HUGE);
                    op_setid(out, &mut s, (rng.next() & 0xffff) as u16);
                    let fr = op_make(out, &mut s, size + 4, &buf).unwrap();
                    let mut order: Vec<usize> = p.clone();
                    order.insert(pos, dup);
                    for i in order {
                        op_reasm(out, &mut s, &fr[i], true);
                    }
                    out.stat("exhaustive_perm_sessions");
                }
            }
        }
    }

    // ---- B. exhaustive header grid: every (total, seq) as first datagram and after a valid first fragment
    for total in 0..=255u8 {
        for seq in 0..=255u8 {
            if !thorough {
                let t = total as i32;
                let q = seq as i32;
                let near = q <= 4 || (q - t).abs() <= 1 || (125..=129).contains(&q) || q >= 254;
                if !near {
                    continue;
                }
            }
            let mut s = new_sess(out, HUGE);
            let d = [0x12, 0x34, total, seq, 0xaa, 0xbb];
            op_reasm(out, &mut s, &d, false);
            // after an entry for this id exists (3 fragments, seq 1 present)
            let mut s = new_sess(out, HUGE);
            s.eligible = false; // mixes ids deliberately: model comparison only
            s.integrity = false; // frames built by hand
            op_reasm(out, &mut s, &[0x12, 0x34, 3, 1, 1, 2], false);
            op_reasm(out, &mut s, &d, false);
            op_reasm(out, &mut s, &[0x12, 0x34, 3, 0, 9], false);
            op_reasm(out, &mut s, &[0x12, 0x34, 3, 2, 7], false);
            out.stat("header_grid");
        }
    }
    // short datagrams 0..3 bytes
    for l in 0..4 {
        let mut s = new_sess(out, HUGE);
        let d = rng.bytes(l);
        op_reasm(out, &mut s, &d, false);
        out.stat("short_datagram");
    }

    // ---- C. random sessions: several frames, random mtu/len, permuted + duplicated + interleaved + malformed
    let nsess = if thorough { 6000 } else { 600 };
    let mtus = [5usize, 6, 8, 64, 1200, 1452, 65535];
    for _ in 0..nsess {
        let regime = rng.below(10);
        let timeout = if regime == 0 { 0 } else { HUGE };
        let mut s = new_sess(out, timeout);
        op_setid(out, &mut s, *rng.pick(&[0u16, 1, 255, 256, 65534, 65535, 4660]));
        let nframes = rng.range(1, 3);
        let mut all: Vec<(Vec<u8>, u8)> = vec![];
        for _ in 0..nframes {
            let mtu = *rng.pick(&mtus);
            let size = mtu - 4;
            let nf = match rng.below(6) {
                0 => 1,
                1 => 127,
                2 => rng.range(120, 140),
                _ => rng.range(1, 9),
            };
            // keep buffers reasonable
            let nf = if size > 2000 { nf.min(3) } else if size > 50 { nf.min(12) } else { nf };
            let len = match rng.below(5) {
                0 => size * nf,
                1 => (size * nf).saturating_sub(size - 1).max(1),
                2 => 0,
                _ => size * (nf - 1) + rng.range(1, size),
            };
            let buf = rng.bytes(len);
            if let Some(fr) = op_make(out, &mut s, mtu, &buf) {
                let mut idx: Vec<usize> = (0..fr.len()).collect();
                rng.shuffle(&mut idx);
                // duplicates
                let ndup = rng.below(3);
                for _ in 0..ndup {
                    if !fr.is_empty() {
                        let k = rng.below(fr.len());
                        let at = rng.below(idx.len() + 1);
                        idx.insert(at, k);
                    }
                }
                // sometimes leave a frame incomplete
                if rng.chance(1, 6) && !idx.is_empty() {
                    let victim = idx[0];
                    idx.retain(|&x| x != victim);
                }
                for i in idx {
                    all.push((fr[i].clone(), GENUINE));
                }
            }
        }
        // interleave frames: random riffle that keeps per-frame order irrelevant (any order is allowed)
        rng.shuffle(&mut all);
        // malformed injections
        let nbad = rng.below(3);
        for _ in 0..nbad {
            let at = rng.below(all.len() + 1);
            let mut kind = MALFORMED;
            // (at most one stray per session: two strays could form a complete frame of their own)
            let pick = if all.iter().any(|x| x.1 == STRAY) { rng.below(4) } else { rng.below(6) };
            let bad = match pick {
                0 => { let l = rng.below(4); rng.bytes(l) }
                1 => vec![0xfe, 0xfe, 0, rng.next() as u8, 1],
                2 => vec![0xfe, 0xfe, 200, rng.next() as u8, 1, 2],
                3 => vec![0xfe, 0xfd, 5, 5 + (rng.next() % 200) as u8, 3],
                _ => {
                    // inconsistent total under an id in use: another total (2..=127), any valid seq, its own payload
                    let genuine: Vec<&(Vec<u8>, u8)> = all.iter().filter(|x| x.1 == GENUINE && x.0.len() >= 4).collect();
                    if genuine.is_empty() {
                        vec![1, 2, 3]
                    } else {
                        let d = &genuine[rng.below(genuine.len())].0;
                        let mut t = *rng.pick(&[2u8, 3, 4, 5, 127, d[2].wrapping_add(1), d[2].wrapping_sub(1)]);
                        if t == d[2] || t < 2 || t > 127 {
                            t = if d[2] == 2 { 3 } else { 2 };
                        }
                        let seq = if rng.chance(1, 2) { d[3].min(t - 1) } else { rng.below(t as usize) as u8 };
                        let mut x = vec![d[0], d[1], t, seq];
                        let l = rng.range(1, 8);
                        x.extend(rng.bytes(l));
                        kind = STRAY;
                        x
                    }
                }
            };
            all.insert(at, (bad, kind));
        }
        if timeout == 0 {
            s.eligible = false;
        }
        for (k, (d, wf)) in all.iter().enumerate() {
            s.now += 1;
            op_reasm_k(out, &mut s, d, *wf);
            if timeout == 0 && rng.chance(1, 4) {
                s.now += 1;
                // let the real clock move past the deadlines taken so far
                std::thread::sleep(Duration::from_micros(50));
                op_timer(out, &mut s);
            } else if timeout != 0 && rng.chance(1, 10) {
                op_timer(out, &mut s);
            }
            let _ = k;
        }
        out.stat(if timeout == 0 { "random_sessions_timeout0" } else { "random_sessions" });
    }

    // ---- D. frame id wrap: 70 000 consecutive frames from one writer, each reassembled
    {
        let mut s = new_sess(out, HUGE);
        let n = if thorough { 70_000 } else { 65_600 };
        for k in 0..n {
            let buf = [(k & 0xff) as u8, (k >> 8) as u8, 7, 8, 9];
            if let Some(fr) = op_make(out, &mut s, 7, &buf) {
                // deliver in reverse order
                for f in fr.iter().rev() {
                    op_reasm(out, &mut s, f, true);
                }
            }
        }
        out.stat("id_wrap_run");
    }

    // ---- D'. the sender alone over a grid of sizes: every small MTU x every length around the 127- and 255/256-fragment
    // limits (an oversize frame is refused, never truncated), and the largest frames at the MTUs a transport reports
    {
        let mut s = new_sess(out, HUGE);
        for mtu in 5usize..=9 {
            let size = mtu - 4;
            let mut lens: Vec<usize> = (0..=(if thorough { 1400 } else { 700 })).collect();
            for k in [127usize, 128, 255, 256, 257, 383, 384, 511, 512, 513] {
                for d in [0usize, 1] {
                    lens.push(k * size + d);
                    lens.push((k * size).saturating_sub(1));
                }
            }
            lens.extend([65535usize, 65536, 65547]);
            lens.sort();
            lens.dedup();
            for len in lens {
                let buf: Vec<u8> = (0..len).map(|i| (i * 7 + mtu) as u8).collect();
                let r = op_make(out, &mut s, mtu, &buf);
                out.stat("make_size_grid");
                // independent of the model: refused iff more than 127 fragments would be needed
                let need = (len + size - 1) / size; // an empty buffer yields no fragment (a serialized frame is never empty: 12-byte header)
                match r {
                    Some(v) if need > 127 && !v.is_empty() => out.oracle_fail("oversize-not-refused", &format!("mtu {} len {}: {} fragments needed, {} produced", mtu, len, need, v.len())),
                    Some(v) if need <= 127 && v.len() != need => out.oracle_fail("make-count", &format!("mtu {} len {}: {} fragments needed, {} produced", mtu, len, need, v.len())),
                    _ => {}
                }
            }
        }
        for mtu in [64usize, 521, 1200, 1452, 65535] {
            for len in [127 * (mtu - 4) - 1, 127 * (mtu - 4), 127 * (mtu - 4) + 1, 256 * (mtu - 4) + 1] {
                if len > 70000 {
                    continue;
                }
                let buf: Vec<u8> = (0..len).map(|i| (i * 13) as u8).collect();
                let _ = op_make(out, &mut s, mtu, &buf);
                out.stat("make_size_grid");
            }
        }
    }

    // ---- E. never-completed frames are discarded by the timer, and a later frame that reuses the id is not disturbed
    // (real clock: timeout 200 ms; fragments of frame A at 0 and ~100 ms, timer at ~400 ms, then frame B under A's id)
    for (na, nb, gap) in [(3usize, 2usize, 100u64), (4, 3, 150), (2, 5, 0), (3, 3, 100)] {
        if !thorough && na == 4 {
            continue;
        }
        let mut s = new_sess(out, 200);
        let id = 40000 + na as u16;
        op_setid(out, &mut s, id);
        let a = rng.bytes(3 * (na - 1) + 2);
        let fa = op_make(out, &mut s, 7, &a).unwrap();
        op_reasm(out, &mut s, &fa[0], true);
        if gap > 0 {
            op_sleep(out, &mut s, gap);
            op_reasm(out, &mut s, &fa[1], true);
        }
        op_sleep(out, &mut s, 320);
        op_timer(out, &mut s);
        // frame B reuses the id with another fragment count (same count when na == nb: its first fragment must not
        // complete A's leftovers either)
        op_setid(out, &mut s, id);
        let b = rng.bytes(3 * (nb - 1) + 1);
        let fb = op_make(out, &mut s, 7, &b).unwrap();
        for f in fb.iter().rev() {
            op_reasm(out, &mut s, f, true);
        }
        out.stat("expired_then_id_reuse");
    }

    // ---- F. directed: a complete fragment set that is duplicated as a whole is delivered twice
    {
        let mut s = new_sess(out, HUGE);
        s.eligible = false;
        let fr = op_make(out, &mut s, 7, &[1, 2, 3, 4, 5]).unwrap();
        op_reasm(out, &mut s, &fr[0], true);
        op_reasm(out, &mut s, &fr[1], true);
        op_reasm(out, &mut s, &fr[0], true);
        let f = &mut s.f;
        let r = no_panic(|| f.reassemble(Bytes::copy_from_slice(&fr[1])));
        let delivered = matches!(r, Some(Some(_)));
        out.case(
            &format!("R {} {}", s.now, hex(&fr[1])),
            match &r {
                None => "panic".to_string(),
                Some(None) => "none".to_string(),
                Some(Some(tb)) => format!("frame {}", hex(&tb.buf)),
            }
            .as_str(),
        );
        if delivered {
            out.oracle_fail(
                "dup-complete-set-redelivered",
                "every fragment of a 2-fragment frame duplicated (f0 f1 f0 f1): the frame is delivered twice",
            );
        }
    }

    // ---- G. Fragments<Frame> (fallible decoder): an undecodable completed set must not block a later frame
    // reusing the id; random datagram sequences with the real RPFM frame type
    {
        use super::codec::{op_rfr, rpfm_bytes, v4};
        let good = rpfm_bytes(9, &Some(v4(0x01020304, 53)), b"hello world");
        let n = if thorough { 2000 } else { 300 };
        for i in 0..n {
            let cut = 1 + rng.below(good.len() - 1);
            let id = (rng.next() & 0xffff) as u16;
            let idb = id.to_be_bytes();
            let mut dgrams = vec![];
            if i % 2 == 0 {
                // garbage set completes first
                dgrams.push([&idb[..], &[2, 0], &rng.bytes(3)[..]].concat());
                dgrams.push([&idb[..], &[2, 1], &rng.bytes(2)[..]].concat());
            }
            let mut g = vec![[&idb[..], &[2, 0], &good[..cut]].concat(), [&idb[..], &[2, 1], &good[cut..]].concat()];
            if rng.chance(1, 2) {
                g.reverse();
            }
            dgrams.extend(g);
            let (case, imp) = op_rfr(&dgrams);
            out.case(&case, &imp);
            out.stat("rfr_frame_sessions");
            if !imp.ends_with("b=68656c6c6f20776f726c64]") {
                out.oracle_fail("frame-lost-after-undecodable", &format!("well-formed frame not delivered: {}", imp));
            }
        }
    }

    // ---- E. real-time timer scenarios (timeout 300 ms, clock steps of 200 ms)
    {
        let reps = if thorough { 6 } else { 2 };
        for r in 0..reps {
            let mut s = new_sess(out, 300);
            s.eligible = false;
            op_setid(out, &mut s, 77);
            let a = op_make(out, &mut s, 7, &[1, 2, 3, 4, 5]).unwrap(); // id 77
            op_setid(out, &mut s, 77);
            let b = op_make(out, &mut s, 7, &[6, 7, 8, 9, 10, 11]).unwrap(); // id 77 again
            let c = op_make(out, &mut s, 7, &[21, 22, 23, 24]).unwrap(); // id 78
            // complete A: leaves a stale timer entry for id 77 (deadline 300)
            op_reasm(out, &mut s, &a[0], true);
            op_reasm(out, &mut s, &a[1], true);
            op_reasm(out, &mut s, &c[0], true); // id 78 pending, deadline 300
            op_sleep(out, &mut s, 200);
            op_reasm(out, &mut s, &b[0], true); // id 77 reused, deadline 500
            op_sleep(out, &mut s, 200);
            op_timer(out, &mut s); // now 400: stale (77,300) and (78,300) pop; B must survive, C is dropped
            op_reasm(out, &mut s, &b[1], true); // completes B
            op_reasm(out, &mut s, &c[1], true); // C was dropped: starts a new queue, no frame
            if r % 2 == 1 {
                op_sleep(out, &mut s, 400);
                op_timer(out, &mut s);
                op_reasm(out, &mut s, &c[0], true); // new queue again
            }
            out.stat("realtime_timer_scenarios");
        }
    }
}
