// C10: UDP paths end to end in process: real reverse-UDP and SOCKS5 listeners, real direct and http connectors (UDP carried
// inline over an HTTP hop to a second proxy instance), UDP echo origins run by the harness.
//   R <nclients> <history: client:len,...>          reverse-UDP listener -> direct
//   S <path> <history: dest:len,...>                SOCKS5 UDP ASSOCIATE -> direct | http-inline hop
//   E <kind>                                         a receive error (closed port) must not materialise as a datagram
// output: per client / destination the lengths+hashes echoed back, in order;  `none-extra` for E
use super::route::*;
use super::util::*;
use crate::context::Feature;
use std::net::SocketAddr;
use std::sync::Arc;
use tokio::io::{AsyncReadExt, AsyncWriteExt};
use tokio::net::{TcpStream, UdpSocket};

fn fnv(b: &[u8]) -> u64 {
    let mut h: u64 = 0xcbf29ce484222325;
    for x in b {
        h ^= *x as u64;
        h = h.wrapping_mul(0x100000001b3);
    }
    h
}

/// an echo origin that records every datagram it receives (source, payload) and echoes it back
struct Origin {
    port: u16,
    seen: Arc<std::sync::Mutex<Vec<(SocketAddr, Vec<u8>)>>>,
}

async fn origin() -> Origin {
    let s = UdpSocket::bind("127.0.0.1:0").await.unwrap();
    let port = s.local_addr().unwrap().port();
    let seen = Arc::new(std::sync::Mutex::new(vec![]));
    let seen2 = seen.clone();
    tokio::spawn(async move {
        let mut b = vec![0u8; 70000];
        loop {
            if let Ok((n, from)) = s.recv_from(&mut b).await {
                seen2.lock().unwrap().push((from, b[..n].to_vec()));
                let _ = s.send_to(&b[..n], from).await;
            }
        }
    });
    Origin { port, seen }
}

async fn real_connector(yaml: &str) -> Arc<dyn crate::connectors::Connector> {
    let mut c = crate::connectors::from_value(&serde_yaml::from_str(yaml).unwrap()).unwrap();
    c.init().await.unwrap();
    c.into()
}

async fn recv_all(s: &UdpSocket, n: usize, wait_ms: u64) -> Vec<Vec<u8>> {
    let mut got = vec![];
    let mut b = vec![0u8; 70000];
    while got.len() < n {
        match tokio::time::timeout(std::time::Duration::from_millis(wait_ms), s.recv(&mut b)).await {
            Ok(Ok(k)) => got.push(b[..k].to_vec()),
            _ => break,
        }
    }
    // anything extra that nobody sent?
    while let Ok(Ok(k)) = tokio::time::timeout(std::time::Duration::from_millis(60), s.recv(&mut b)).await {
        got.push(b[..k].to_vec());
    }
    got
}

fn sig(v: &[Vec<u8>]) -> String {
    if v.is_empty() {
        "-".into()
    } else {
        v.iter().map(|p| format!("{}:{:x}", p.len(), fnv(p) & 0xffff)).collect::<Vec<_>>().join(",")
    }
}

fn payload(rng: &mut Rng, len: usize, tag: u8) -> Vec<u8> {
    let mut p = rng.bytes(len);
    if !p.is_empty() {
        p[0] = tag;
    }
    p
}

pub async fn run(out: &mut Out) {
    let mut rng = Rng(out.seed() ^ 0xC10);
    let thorough = out.tier_thorough();
    let o = origin().await;
    let o2 = origin().await;
    // ---- world B: http listener -> direct (the second hop)
    let mut wb = world(&[], 10);
    {
        let st = Arc::get_mut(&mut wb.state).unwrap();
        st.connectors.insert("direct".into(), real_connector("name: direct\ntype: direct").await);
        st.timeouts.udp = 30;
    }
    set_rules(&wb, &[("direct".into(), None)]).await.unwrap();
    let b_http = start_listener(&wb, "name: http\ntype: http").await;
    let pki = super::relay::PKI;
    let b_quic = super::relay::start_listener_udp(&wb, &format!("name: quic\ntype: quic\ntls:\n  cert: {}/server.crt\n  key: {}/server.key", pki, pki)).await;
    // ---- world A: reverse-UDP + two socks listeners; direct and http connectors
    let mut wa = world(&[], 10);
    {
        let st = Arc::get_mut(&mut wa.state).unwrap();
        st.connectors.insert("direct".into(), real_connector("name: direct\ntype: direct").await);
        st.connectors.insert("hop".into(), real_connector(&format!("name: hop\ntype: http\nserver: 127.0.0.1\nport: {}", b_http)).await);
        // UDP over a QUIC hop to the second instance: RPFM frames as QUIC datagrams (fragmented to the path MTU), or inline on the stream
        st.connectors.insert("qhop".into(), real_connector(&format!("name: qhop\ntype: quic\nserver: localhost\nport: {}\nbind: \"127.0.0.1:0\"\ntls:\n  ca: {}/ca.crt", b_quic, pki)).await);
        st.connectors.insert("qhopi".into(), real_connector(&format!("name: qhopi\ntype: quic\nserver: localhost\nport: {}\nbind: \"127.0.0.1:0\"\ninlineUdp: true\ntls:\n  ca: {}/ca.crt", b_quic, pki)).await);
        st.timeouts.udp = 30;
    }
    set_rules(
        &wa,
        &[
            ("hop".into(), Some("request.listener == \"socks2\"".into())),
            ("qhop".into(), Some("request.listener == \"socks3\"".into())),
            ("qhopi".into(), Some("request.listener == \"socks4\"".into())),
            ("direct".into(), None),
        ],
    )
    .await
    .unwrap();
    let rport = start_listener(&wa, &format!("name: rudp\ntype: reverse\ntarget: 127.0.0.1:{}\nprotocol: udp", o.port)).await;
    let socks1 = start_listener(&wa, "name: socks\ntype: socks").await;
    let socks2 = start_listener(&wa, "name: socks2\ntype: socks").await;
    let socks3 = start_listener(&wa, "name: socks3\ntype: socks").await;
    let socks4 = start_listener(&wa, "name: socks4\ntype: socks").await;
    tokio::time::sleep(std::time::Duration::from_millis(50)).await;

    // ---- reverse-UDP: several clients interleaved; the first datagram of every session included
    let sizes: &[usize] = if thorough { &[0, 1, 2, 100, 1200, 1201, 8000, 30000, 60000] } else { &[0, 1, 100, 1200, 8000, 60000] };
    for round in 0..(if thorough { 30 } else { 8 }) {
        let nclients = rng.range(1, 5);
        let mut clients = vec![];
        for _ in 0..nclients {
            clients.push(UdpSocket::bind("127.0.0.1:0").await.unwrap());
        }
        let n = rng.range(2, 10);
        let mut hist: Vec<(usize, Vec<u8>)> = vec![];
        for k in 0..n {
            let c = rng.below(nclients);
            let len = if round == 0 && k < sizes.len() { sizes[k] } else { *rng.pick(sizes) };
            hist.push((c, payload(&mut rng, len, c as u8 + 1)));
        }
        for (c, p) in hist.iter() {
            let _ = clients[*c].send_to(p, ("127.0.0.1", rport)).await;
            tokio::time::sleep(std::time::Duration::from_millis(if p.len() > 20000 { 8 } else { 3 })).await;
        }
        let mut outs = vec![];
        for (i, c) in clients.iter().enumerate() {
            let sent: Vec<Vec<u8>> = hist.iter().filter(|h| h.0 == i).map(|h| h.1.clone()).collect();
            let got = recv_all(c, sent.len(), 1500).await;
            if got != sent {
                out.oracle_fail("reverse-udp-datagrams", &format!("client {} sent {} got back {}", i, sig(&sent), sig(&got)));
            }
            outs.push(sig(&got));
        }
        out.case(&format!("R {} {}", nclients, hist.iter().map(|(c, p)| format!("{}:{}:{:x}", c, p.len(), fnv(p) & 0xffff)).collect::<Vec<_>>().join(",")), &outs.join(" | "));
        out.stat("reverse_udp_history");
    }

    // ---- SOCKS5 UDP ASSOCIATE, direct and over an inline HTTP hop
    for (path, sport) in [("direct", socks1), ("http-inline", socks2), ("quic-datagrams", socks3), ("quic-inline", socks4)] {
        for _round in 0..(if thorough { 10 } else { 3 }) {
            let mut tcp = TcpStream::connect(("127.0.0.1", sport)).await.unwrap();
            let _ = tcp.write_all(&[5, 1, 0, 5, 3, 0, 1, 0, 0, 0, 0, 0, 0]).await;
            let mut rep = [0u8; 12];
            if tokio::time::timeout(std::time::Duration::from_secs(3), tcp.read_exact(&mut rep)).await.map(|r| r.is_err()).unwrap_or(true) {
                out.case(&format!("S {} -", path), "no-association");
                out.oracle_fail("udp-associate-failed", path);
                continue;
            }
            let bport = u16::from_be_bytes([rep[10], rep[11]]);
            let us = UdpSocket::bind("127.0.0.1:0").await.unwrap();
            let n = rng.range(2, 7);
            let mut sent = vec![];
            let mut dests = vec![];
            let marks = [o.seen.lock().unwrap().len(), o2.seen.lock().unwrap().len()];
            for _ in 0..n {
                let len = *rng.pick(if path == "direct" { sizes } else { &[0usize, 1, 100, 1200, 8000, 30000][..] });
                // the payload names its destination, so that a datagram delivered to the wrong origin is recognisable
                let k = rng.below(2);
                let by_name = rng.chance(1, 2);
                let mut p = payload(&mut rng, len.min(60000), 9);
                if !p.is_empty() {
                    p[0] = k as u8;
                }
                let oport = if k == 0 { o.port } else { o2.port };
                // SOCKS5 UDP header: RSV RSV FRAG, then ATYP=1 127.0.0.1 or ATYP=3 "localhost", port
                let mut d = if by_name {
                    let mut d = vec![0, 0, 0, 3, 9];
                    d.extend(b"localhost");
                    d
                } else {
                    vec![0, 0, 0, 1, 127, 0, 0, 1]
                };
                d.extend(oport.to_be_bytes());
                d.extend(&p);
                let _ = us.send_to(&d, ("127.0.0.1", bport)).await;
                sent.push(p);
                dests.push(k);
                tokio::time::sleep(std::time::Duration::from_millis(5)).await;
            }
            let got = recv_all(&us, n, 2000).await;
            // every reply must carry the header naming the replying address and the identical payload; replies of different
            // origins may overtake each other (UDP), replies of one origin are compared in order
            let mut by_origin: [Vec<Vec<u8>>; 2] = [vec![], vec![]];
            let mut labelled = true;
            for g in got.iter() {
                if g.len() >= 10 && g[3] == 1 && g[4..8] == [127, 0, 0, 1] {
                    let port = u16::from_be_bytes([g[8], g[9]]);
                    if port == o.port {
                        by_origin[0].push(g[10..].to_vec());
                    } else if port == o2.port {
                        by_origin[1].push(g[10..].to_vec());
                    } else {
                        labelled = false;
                    }
                } else {
                    labelled = false;
                }
            }
            let want_of = |k: usize| -> Vec<Vec<u8>> { sent.iter().zip(dests.iter()).filter(|(_, d)| **d == k).map(|(p, _)| p.clone()).collect() };
            let echoed = by_origin[0] == want_of(0) && by_origin[1] == want_of(1);
            // each origin received exactly the datagrams addressed to it, in order
            let mut routed = true;
            for (k, org) in [&o, &o2].iter().enumerate() {
                let seen: Vec<Vec<u8>> = org.seen.lock().unwrap()[marks[k]..].iter().map(|x| x.1.clone()).collect();
                let want: Vec<Vec<u8>> = sent.iter().zip(dests.iter()).filter(|(_, d)| **d == k).map(|(p, _)| p.clone()).collect();
                if seen != want {
                    routed = false;
                    out.oracle_fail("delivered-to-wrong-destination", &format!("{}: origin {} (127.0.0.1:{}) was addressed {} and received {}", path, k, org.port, sig(&want), sig(&seen)));
                }
            }
            let hist: Vec<String> = sent.iter().zip(dests.iter()).map(|(p, k)| format!("{}:{}:{:x}", k, p.len(), fnv(p) & 0xffff)).collect();
            let sg = |v: &Vec<Vec<u8>>| if v.is_empty() { "-".to_string() } else { v.iter().map(|p| format!("{}:{:x}", p.len(), fnv(p) & 0xffff)).collect::<Vec<_>>().join(",") };
            out.case(&format!("S {} {}", path, hist.join(",")), &format!("{} | {} labelled={} routed={}", sg(&by_origin[0]), sg(&by_origin[1]), labelled as u8, routed as u8));
            out.stat(&format!("socks_udp_{}", path.replace('-', "_")));
            if !echoed {
                out.oracle_fail("socks-udp-datagrams", &format!("{}: sent {} got back {} from origin 0 and {} from origin 1", path, hist.join(","), sg(&by_origin[0]), sg(&by_origin[1])));
            }
            if !labelled {
                out.oracle_fail("reply-not-labelled", &format!("{}: a reply does not name the replying address (127.0.0.1:{} / {})", path, o.port, o2.port));
            }
            drop(tcp);
        }
    }

    // ---- the QUIC datagram channel fragments a frame to the path's datagram size, which this harness does not know: a sweep
    // of consecutive payload lengths crosses every multiple of (size - 4) in the range the transport can report
    {
        let (lo, hi) = if thorough { (1000usize, 3000usize) } else { (1040, 1480) };
        let mut tcp = TcpStream::connect(("127.0.0.1", socks3)).await.unwrap();
        let _ = tcp.write_all(&[5, 1, 0, 5, 3, 0, 1, 0, 0, 0, 0, 0, 0]).await;
        let mut rep = [0u8; 12];
        if tokio::time::timeout(std::time::Duration::from_secs(3), tcp.read_exact(&mut rep)).await.map(|r| r.is_err()).unwrap_or(true) {
            out.case("Q sweep", "no-association");
            out.oracle_fail("udp-associate-failed", "quic-datagrams sweep");
        } else {
            let bport = u16::from_be_bytes([rep[10], rep[11]]);
            let us = UdpSocket::bind("127.0.0.1:0").await.unwrap();
            let mut missing = vec![];
            let mut wrong = 0;
            // batches of 12 datagrams of distinct lengths: a reply is matched to its request by its length
            let lens: Vec<usize> = (lo..=hi).collect();
            for batch in lens.chunks(12) {
                let mut want: std::collections::HashMap<usize, Vec<u8>> = Default::default();
                for &len in batch {
                    let mut p = payload(&mut rng, len, 7);
                    p[0] = 0;
                    let mut d = vec![0, 0, 0, 1, 127, 0, 0, 1];
                    d.extend(o.port.to_be_bytes());
                    d.extend(&p);
                    let _ = us.send_to(&d, ("127.0.0.1", bport)).await;
                    want.insert(len, p);
                    out.stat("quic_datagram_sweep");
                }
                for g in recv_all(&us, batch.len(), 500).await {
                    if g.len() >= 10 {
                        match want.remove(&(g.len() - 10)) {
                            Some(p) if p[..] == g[10..] => {}
                            _ => wrong += 1,
                        }
                    } else {
                        wrong += 1;
                    }
                }
                missing.extend(want.keys().copied());
            }
            missing.sort();
            out.case(&format!("Q sweep {} {}", lo, hi), &format!("missing={} wrong={}", missing.len(), wrong));
            if !missing.is_empty() || wrong > 0 {
                out.oracle_fail("socks-udp-datagrams", &format!("quic-datagrams: payload lengths {:?} were not echoed back ({} echoed with a different payload)", &missing[..missing.len().min(12)], wrong));
            }
        }
    }

    // ---- receive errors must not become datagrams
    // (1) the client of a reverse-UDP session goes away; the origin's echo of its last datagram bounces (ICMP): the origin
    //     must not receive anything nobody sent
    {
        let before = o.seen.lock().unwrap().len();
        let c = UdpSocket::bind("127.0.0.1:0").await.unwrap();
        let _ = c.send_to(b"first", ("127.0.0.1", rport)).await;
        tokio::time::sleep(std::time::Duration::from_millis(100)).await;
        let _ = c.send_to(b"last", ("127.0.0.1", rport)).await;
        drop(c); // the echo of "last" now hits a closed port
        tokio::time::sleep(std::time::Duration::from_millis(400)).await;
        let seen: Vec<Vec<u8>> = o.seen.lock().unwrap()[before..].iter().map(|x| x.1.clone()).collect();
        let extra: Vec<&Vec<u8>> = seen.iter().filter(|p| p.as_slice() != b"first" && p.as_slice() != b"last").collect();
        out.case("E client-gone", if extra.is_empty() { "none-extra" } else { "phantom" });
        out.stat("recv_error_cases");
        if !extra.is_empty() {
            out.oracle_fail("phantom-datagram", &format!("the origin received {} datagram(s) nobody sent after the client's port closed: lengths {:?}", extra.len(), extra.iter().map(|p| p.len()).collect::<Vec<_>>()));
        }
    }
    // (3) the listener-side session reader itself (setup_udp_session of common/udp.rs): the peer's port is closed, a write
    //     provokes the ICMP error, the next read must be an error and not a frame
    {
        let peer = UdpSocket::bind("127.0.0.1:0").await.unwrap();
        let closed = peer.local_addr().unwrap();
        let local: SocketAddr = "127.0.0.1:0".parse().unwrap();
        let (_tx, rx) = tokio::sync::mpsc::channel(4);
        let r = crate::common::udp::setup_udp_session(crate::context::TargetAddress::SocketAddr(closed), local, closed, rx, false);
        let imp = match r {
            Err(_) => "setup-failed".to_string(),
            Ok((mut reader, mut writer)) => {
                // one successful round trip first (so that the socket has been readable), then the peer goes away
                let mut f = crate::common::frames::Frame::new();
                f.body = bytes::Bytes::from_static(b"x");
                let _ = writer.write(f).await;
                let mut b = [0u8; 16];
                if let Ok(Ok((n, from))) = tokio::time::timeout(std::time::Duration::from_millis(500), peer.recv_from(&mut b)).await {
                    let _ = peer.send_to(&b[..n], from).await;
                }
                let _ = tokio::time::timeout(std::time::Duration::from_millis(500), reader.read()).await;
                drop(peer);
                let mut f = crate::common::frames::Frame::new();
                f.body = bytes::Bytes::from_static(b"y");
                let _ = writer.write(f).await;
                tokio::time::sleep(std::time::Duration::from_millis(50)).await;
                match tokio::time::timeout(std::time::Duration::from_millis(500), reader.read()).await {
                    Ok(Ok(Some(fr))) => format!("phantom len={}", fr.body.len()),
                    Ok(Ok(None)) => "eof".to_string(),
                    Ok(Err(e)) => { out.stat(&format!("session_reader_err_{:?}", e.kind())); "none-extra".to_string() }
                    Err(_) => { out.stat("session_reader_timeout"); "none-extra".to_string() } // no error delivered at all: nothing materialised either
                }
            }
        };
        out.case("E session-reader", &imp);
        out.stat("recv_error_cases");
        if imp != "none-extra" {
            out.oracle_fail("phantom-datagram", &format!("UdpFrameReader::read after a receive error (peer port closed) returned: {}", imp));
        }
    }
    // (4) the same on the connector side (DirectFrames of the direct connector): round trip, destination closes, next read
    {
        let peer = UdpSocket::bind("127.0.0.1:0").await.unwrap();
        let paddr = peer.local_addr().unwrap();
        let ctx = wa.state.contexts.create_context("x".into(), "127.0.0.1:1".parse().unwrap()).await;
        ctx.write().await.set_target(crate::context::TargetAddress::SocketAddr(paddr)).set_feature(Feature::UdpForward);
        let direct = wa.state.connectors.get("direct").unwrap().clone();
        let imp = if direct.connect(wa.state.clone(), ctx.clone()).await.is_err() {
            "connect-failed".to_string()
        } else {
            let (_t, rx) = tokio::sync::mpsc::channel(1);
            let dummy = crate::common::udp::setup_udp_session(crate::context::TargetAddress::SocketAddr(paddr), "127.0.0.1:0".parse().unwrap(), paddr, rx, false).unwrap();
            ctx.write().await.set_client_frames(dummy);
            let (_client, (mut reader, mut writer)) = ctx.write().await.take_frames().unwrap();
            let mk = |b: &'static [u8]| {
                let mut f = crate::common::frames::Frame::new();
                f.body = bytes::Bytes::from_static(b);
                f.addr = Some(crate::context::TargetAddress::SocketAddr(paddr));
                f
            };
            let _ = writer.write(mk(b"x")).await;
            let mut b = [0u8; 16];
            if let Ok(Ok((n, from))) = tokio::time::timeout(std::time::Duration::from_millis(500), peer.recv_from(&mut b)).await {
                let _ = peer.send_to(&b[..n], from).await;
            }
            let first = tokio::time::timeout(std::time::Duration::from_millis(500), reader.read()).await;
            let labelled = matches!(&first, Ok(Ok(Some(f))) if f.addr == Some(crate::context::TargetAddress::SocketAddr(paddr)) && &f.body[..] == b"x");
            if !labelled {
                out.oracle_fail("reply-not-labelled", "direct connector: the reply frame does not carry the replying address / payload");
            }
            drop(peer);
            let _ = writer.write(mk(b"y")).await;
            tokio::time::sleep(std::time::Duration::from_millis(50)).await;
            match tokio::time::timeout(std::time::Duration::from_millis(500), reader.read()).await {
                Ok(Ok(Some(fr))) => format!("phantom len={}", fr.body.len()),
                Ok(Ok(None)) => "eof".to_string(),
                _ => "none-extra".to_string(),
            }
        };
        out.case("E connector-reader", &imp);
        out.stat("recv_error_cases");
        if imp != "none-extra" {
            out.oracle_fail("phantom-datagram", &format!("DirectFrames::read after a receive error (destination port closed) returned: {}", imp));
        }
    }
    // (2) the origin's port is closed: the client must not receive anything
    {
        let o2 = UdpSocket::bind("127.0.0.1:0").await.unwrap();
        let closed = o2.local_addr().unwrap().port();
        let wport = {
            let w = &wa;
            start_listener(w, &format!("name: rudp2\ntype: reverse\ntarget: 127.0.0.1:{}\nprotocol: udp", closed)).await
        };
        tokio::time::sleep(std::time::Duration::from_millis(30)).await;
        let c = UdpSocket::bind("127.0.0.1:0").await.unwrap();
        // one successful round trip, then the destination closes its port
        let _ = c.send_to(b"ping1", ("127.0.0.1", wport)).await;
        let mut b = [0u8; 64];
        if let Ok(Ok((n, from))) = tokio::time::timeout(std::time::Duration::from_millis(800), o2.recv_from(&mut b)).await {
            let _ = o2.send_to(&b[..n], from).await;
        }
        let first = recv_all(&c, 1, 800).await;
        if first != vec![b"ping1".to_vec()] {
            out.oracle_fail("reverse-udp-datagrams", &format!("round trip before the error scenario: got {}", sig(&first)));
        }
        drop(o2);
        let _ = c.send_to(b"ping2", ("127.0.0.1", wport)).await;
        tokio::time::sleep(std::time::Duration::from_millis(100)).await;
        let _ = c.send_to(b"ping3", ("127.0.0.1", wport)).await;
        let got = recv_all(&c, 1, 600).await;
        out.case("E origin-closed", if got.is_empty() { "none-extra" } else { "phantom" });
        out.stat("recv_error_cases");
        if !got.is_empty() {
            out.oracle_fail("phantom-datagram", &format!("the client received {} datagram(s) although the destination port is closed: lengths {:?}", got.len(), got.iter().map(|p| p.len()).collect::<Vec<_>>()));
        }
    }
}
