// C19: recovery after an upstream outage.
//   R <kind> <phase>      stateless connectors (direct / http / socks) against upstreams the harness stops and restarts
//                         phases: up | down | back  -> ok | failFast | hang
//   Q <step>              the QUIC connector (real QuicConnector in process) against the un-hooked binary as upstream proxy
//                         (quic listener -> direct), killed with SIGKILL and restarted on the same port
//   X <what>              a tunnel open across the outage, and a tunnel to another upstream
use super::route::*;
use super::util::*;
use crate::connectors::Connector;
use crate::context::{make_buffered_stream, Feature, TargetAddress};
use std::process::Stdio;
use std::sync::Arc;
use tokio::io::{AsyncReadExt, AsyncWriteExt};
use tokio::net::{TcpListener, TcpStream};

const PKI: &str = "/verif/harness/pki";

/// a stoppable fake upstream: kind = origin (echo) | http (CONNECT proxy that then echoes) | socks (SOCKS5 proxy that then echoes)
struct Up {
    port: u16,
    task: tokio::task::JoinHandle<()>,
    kill: Arc<tokio::sync::Notify>,
}

async fn start_up(kind: &'static str, port: u16) -> Option<Up> {
    let l = {
        let mut l = None;
        for _ in 0..100 {
            match TcpListener::bind(("127.0.0.1", port)).await {
                Ok(x) => {
                    l = Some(x);
                    break;
                }
                Err(_) => tokio::time::sleep(std::time::Duration::from_millis(20)).await,
            }
        }
        l?
    };
    let port = l.local_addr().ok()?.port();
    let kill = Arc::new(tokio::sync::Notify::new());
    let k2 = kill.clone();
    let task = tokio::spawn(async move {
        loop {
            let (mut s, _) = match l.accept().await {
                Ok(x) => x,
                Err(_) => return,
            };
            let k3 = k2.clone();
            tokio::spawn(async move {
                let session = async {
                    match kind {
                        "http" => {
                            let mut head = vec![];
                            let mut b = [0u8; 1];
                            while !head.ends_with(b"\r\n\r\n") {
                                match s.read(&mut b).await {
                                    Ok(1) => head.push(b[0]),
                                    _ => return,
                                }
                            }
                            let _ = s.write_all(b"HTTP/1.1 200 OK\r\n\r\n").await;
                        }
                        "socks" => {
                            let mut b = [0u8; 3];
                            if s.read_exact(&mut b).await.is_err() {
                                return;
                            }
                            let _ = s.write_all(&[5, 0]).await;
                            let mut h = [0u8; 4];
                            if s.read_exact(&mut h).await.is_err() {
                                return;
                            }
                            let n = match h[3] {
                                1 => 6,
                                4 => 18,
                                _ => {
                                    let mut l = [0u8; 1];
                                    let _ = s.read_exact(&mut l).await;
                                    l[0] as usize + 2
                                }
                            };
                            let mut rest = vec![0u8; n];
                            let _ = s.read_exact(&mut rest).await;
                            let _ = s.write_all(&[5, 0, 0, 1, 0, 0, 0, 0, 0, 0]).await;
                        }
                        _ => {}
                    }
                    let mut b = [0u8; 4096];
                    loop {
                        match s.read(&mut b).await {
                            Ok(0) | Err(_) => break,
                            Ok(n) => {
                                if s.write_all(&b[..n]).await.is_err() {
                                    break;
                                }
                            }
                        }
                    }
                };
                tokio::select! {
                    _ = session => {}
                    _ = k3.notified() => {}
                }
                // an outage: the connection is reset, not closed in an orderly way
                let _ = s.set_linger(Some(std::time::Duration::from_secs(0)));
            });
        }
    });
    Some(Up { port, task, kill })
}

impl Up {
    fn stop(self) {
        self.kill.notify_waiters();
        self.task.abort();
    }
}

/// one request through connector `c` to `target`: ok (tunnel echoes) | failFast | hang
async fn attempt(w: &World, c: &Arc<dyn Connector>, target: TargetAddress, bound_ms: u64) -> (&'static str, u64) {
    let t0 = std::time::Instant::now();
    let ctx = w.state.contexts.create_context("x".into(), "127.0.0.1:1".parse().unwrap()).await;
    ctx.write().await.set_target(target).set_feature(Feature::TcpForward);
    let r = tokio::time::timeout(std::time::Duration::from_millis(bound_ms), c.clone().connect(w.state.clone(), ctx.clone())).await;
    let res = match r {
        Err(_) => "hang",
        Ok(Err(_)) => "failFast",
        Ok(Ok(())) => {
            // the tunnel must really work: a byte goes to the origin and comes back
            let mut g = ctx.write().await;
            let mut ok = false;
            if let Some((mut dummy, mut srv)) = {
                let (a, _b) = tokio::io::duplex(16);
                g.set_client_stream(make_buffered_stream(a));
                g.take_streams()
            } {
                let _ = &mut dummy;
                let _ = srv.write_all(b"ping").await;
                let _ = srv.flush().await;
                let mut b = [0u8; 4];
                ok = matches!(tokio::time::timeout(std::time::Duration::from_secs(3), srv.read_exact(&mut b)).await, Ok(Ok(_))) && &b == b"ping";
            }
            if ok {
                "ok"
            } else {
                "failFast"
            }
        }
    };
    (res, t0.elapsed().as_millis() as u64)
}

async fn real_connector(yaml: &str) -> Arc<dyn Connector> {
    let mut c = crate::connectors::from_value(&serde_yaml::from_str(yaml).unwrap()).unwrap();
    c.init().await.unwrap();
    c.into()
}

pub async fn run(out: &mut Out) {
    let thorough = out.tier_thorough();
    let _ = std::fs::create_dir_all("/verif/out/C19");
    let w = world(&[], 10);
    // ---- stateless connectors
    for kind in ["direct", "http", "socks"] {
        let upkind: &'static str = match kind {
            "direct" => "origin",
            "http" => "http",
            _ => "socks",
        };
        let up = start_up(upkind, 0).await.unwrap();
        let port = up.port;
        let c = match kind {
            "direct" => real_connector("name: d\ntype: direct").await,
            "http" => real_connector(&format!("name: h\ntype: http\nserver: 127.0.0.1\nport: {}", port)).await,
            _ => real_connector(&format!("name: s\ntype: socks\nserver: 127.0.0.1\nport: {}", port)).await,
        };
        let target = if kind == "direct" { TargetAddress::SocketAddr(format!("127.0.0.1:{}", port).parse().unwrap()) } else { TargetAddress::DomainPort("origin.example".into(), 80) };
        let rounds = if thorough { 3 } else { 2 };
        let mut up = Some(up);
        for round in 0..rounds {
            let (r, ms) = attempt(&w, &c, target.clone(), 5000).await;
            out.case(&format!("R {} up{}", kind, round), r);
            if r != "ok" {
                out.oracle_fail("healthy-upstream-fails", &format!("{} connector, upstream up: {} after {} ms", kind, r, ms));
            }
            up.take().unwrap().stop();
            tokio::time::sleep(std::time::Duration::from_millis(50)).await;
            for k in 0..2 {
                let (r, ms) = attempt(&w, &c, target.clone(), 5000).await;
                out.case(&format!("R {} down{}-{}", kind, round, k), r);
                if r == "ok" {
                    out.oracle_fail("success-without-upstream", &format!("{} connector reported success while its upstream was down", kind));
                }
                if r == "hang" {
                    out.oracle_fail("attempt-hangs", &format!("{} connector: attempt during the outage still pending after {} ms", kind, ms));
                }
            }
            up = start_up(upkind, port).await;
            if up.is_none() {
                out.oracle_fail("setup", "could not restart the fake upstream on its port");
                break;
            }
            let (r, ms) = attempt(&w, &c, target.clone(), 5000).await;
            out.case(&format!("R {} back{}", kind, round), r);
            out.stat("stateless_outage_rounds");
            if r != "ok" {
                out.oracle_fail("no-recovery", &format!("{} connector: first request after the upstream came back: {} after {} ms", kind, r, ms));
            }
        }
        // a tunnel open across the outage fails cleanly, a tunnel through another upstream is unaffected
        if let Some(u) = up.take() {
            let other = start_up("origin", 0).await.unwrap();
            let d = real_connector("name: d2\ntype: direct").await;
            let mk = |c: Arc<dyn Connector>, target: TargetAddress| {
                let st = w.state.clone();
                async move {
                    let ctx = st.contexts.create_context("x".into(), "127.0.0.1:1".parse().unwrap()).await;
                    ctx.write().await.set_target(target).set_feature(Feature::TcpForward).set_connector("x".into());
                    let (cl, peer) = tokio::io::duplex(1 << 16);
                    ctx.write().await.set_client_stream(make_buffered_stream(cl));
                    if c.connect(st.clone(), ctx.clone()).await.is_err() {
                        return None;
                    }
                    let ctx2 = ctx.clone();
                    let h = tokio::spawn(async move { crate::copy::copy_bidi(ctx2, &crate::config::IoParams { buffer_size: 4096, use_splice: false }).await.is_ok() });
                    Some((peer, h))
                }
            };
            let t1 = mk(c.clone(), target.clone()).await;
            let t2 = mk(d.clone(), TargetAddress::SocketAddr(format!("127.0.0.1:{}", other.port).parse().unwrap())).await;
            let mut res = "setup-failed".to_string();
            if let (Some((mut p1, h1)), Some((mut p2, h2))) = (t1, t2) {
                let mut b = [0u8; 4];
                let _ = p1.write_all(b"aaaa").await;
                let e1 = tokio::time::timeout(std::time::Duration::from_secs(2), p1.read_exact(&mut b)).await.is_ok();
                let _ = p2.write_all(b"bbbb").await;
                let e2 = tokio::time::timeout(std::time::Duration::from_secs(2), p2.read_exact(&mut b)).await.is_ok();
                u.stop(); // outage of the first upstream: its connections are reset
                let closed1 = matches!(tokio::time::timeout(std::time::Duration::from_secs(3), h1).await, Ok(Ok(false)));
                let mut v = vec![];
                let peer_closed = tokio::time::timeout(std::time::Duration::from_secs(2), p1.read_to_end(&mut v)).await.is_ok();
                let _ = p2.write_all(b"cccc").await;
                let still2 = tokio::time::timeout(std::time::Duration::from_secs(2), p2.read_exact(&mut b)).await.is_ok() && &b == b"cccc";
                drop(p2);
                let _ = h2.await;
                res = format!("before={}{} open-tunnel-error={} client-closed={} other-tunnel-alive={}", e1 as u8, e2 as u8, closed1 as u8, peer_closed as u8, still2 as u8);
                if !(e1 && e2 && closed1 && peer_closed && still2) {
                    out.oracle_fail("outage-handling", &format!("{} connector: {}", kind, res));
                }
            }
            out.case(&format!("X {} tunnel-across-outage", kind), &res);
            other.stop();
        }
    }
    // ---- a round-robin load balancer over two http upstreams: members fail and come back one after the other, then together
    {
        let mut wl = world(&[], 10);
        let mut ups: Vec<Option<Up>> = vec![start_up("http", 0).await, start_up("http", 0).await];
        let ports: Vec<u16> = ups.iter().map(|u| u.as_ref().unwrap().port).collect();
        {
            let st = Arc::get_mut(&mut wl.state).unwrap();
            for (i, p) in ports.iter().enumerate() {
                st.connectors.insert(format!("h{}", i), real_connector(&format!("name: h{}\ntype: http\nserver: 127.0.0.1\nport: {}", i, p)).await);
            }
        }
        let lb = real_connector("name: lb\ntype: loadbalance\nconnectors: [h0, h1]").await;
        Arc::get_mut(&mut wl.state).unwrap().connectors.insert("lb".into(), lb.clone());
        let _ = lb.clone().verify(wl.state.clone()).await;
        let target = TargetAddress::DomainPort("origin.example".into(), 80);
        // (members up after this step, requests)
        let script: Vec<([bool; 2], usize)> = vec![([true, true], 4), ([false, true], 3), ([true, true], 4), ([true, false], 3), ([true, true], 6), ([false, false], 2), ([true, true], 4)];
        for (want_up, k) in script {
            for i in 0..2 {
                if want_up[i] && ups[i].is_none() {
                    ups[i] = start_up("http", ports[i]).await;
                } else if !want_up[i] {
                    if let Some(u) = ups[i].take() {
                        u.stop();
                    }
                }
            }
            tokio::time::sleep(std::time::Duration::from_millis(60)).await;
            let mut outcomes = vec![];
            for _ in 0..k {
                let (r, _) = attempt(&wl, &lb, target.clone(), 5000).await;
                outcomes.push(r);
            }
            out.case(&format!("L {}{} {}", want_up[0] as u8, want_up[1] as u8, k), &outcomes.join(","));
            out.stat("lb_outage_steps");
            if outcomes.contains(&"hang") {
                out.oracle_fail("attempt-hangs", &format!("load balancer over [h0,h1], members up = {:?}: {:?}", want_up, outcomes));
            }
            if want_up == [true, true] && outcomes.iter().skip(2).any(|r| *r != "ok") {
                out.oracle_fail("no-recovery", &format!("load balancer over [h0,h1]: both upstreams are up again, requests still fail: {:?}", outcomes));
            }
            if want_up == [false, false] && outcomes.contains(&"ok") {
                out.oracle_fail("success-without-upstream", &format!("load balancer, every member down: {:?}", outcomes));
            }
        }
        for u in ups.into_iter().flatten() {
            u.stop();
        }
    }
    // ---- the QUIC connector against a real second proxy process
    if let Some(bin) = out.param("plainbin").map(|s| s.to_string()) {
        let origin = start_up("origin", 0).await.unwrap();
        let qport = std::net::UdpSocket::bind("127.0.0.1:0").unwrap().local_addr().unwrap().port();
        let cfg = format!(
            "apiVersion: v1alpha\nkind: ProxyDefinition\nlisteners:\n  - name: q\n    type: quic\n    bind: 127.0.0.1:{}\n    tls:\n      cert: {}/server.crt\n      key: {}/server.key\nconnectors:\n  - name: direct\nrules:\n  - target: direct\n",
            qport, PKI, PKI
        );
        let path = format!("/verif/out/C19/back-{}.yaml", std::process::id());
        std::fs::write(&path, cfg).unwrap();
        let spawn_back = || tokio::process::Command::new(&bin).arg("-c").arg(&path).env_remove("REDPROXY_VERIF_DRIVER").env("RUST_LOG", "error").stdout(Stdio::null()).stderr(Stdio::null()).kill_on_drop(true).spawn();
        let mut back = spawn_back().unwrap();
        tokio::time::sleep(std::time::Duration::from_millis(600)).await;
        let q = real_connector(&format!("name: upstream-q\ntype: quic\nserver: localhost\nport: {}\nbind: \"127.0.0.1:0\"\ntls:\n  ca: {}/ca.crt", qport, PKI)).await;
        let target = TargetAddress::SocketAddr(format!("127.0.0.1:{}", origin.port).parse().unwrap());
        let bound = 13000;
        let (r, ms) = attempt(&w, &q, target.clone(), bound).await;
        out.case("Q initial", r);
        if r != "ok" {
            out.oracle_fail("healthy-upstream-fails", &format!("quic connector, upstream up: {} after {} ms", r, ms));
        }
        let (r, _) = attempt(&w, &q, target.clone(), bound).await;
        out.case("Q reuse", r);
        for outage in 0..(if thorough { 2 } else { 1 }) {
            let _ = back.kill().await; // SIGKILL: no close frame reaches the connector
            tokio::time::sleep(std::time::Duration::from_millis(200)).await;
            if thorough {
                let (r, ms) = attempt(&w, &q, target.clone(), bound).await;
                out.case(&format!("Q during-outage{}", outage), if r == "ok" { "ok" } else if r == "hang" { "hang" } else { "fails" });
                if r == "ok" || r == "hang" {
                    out.oracle_fail(if r == "ok" { "success-without-upstream" } else { "attempt-hangs" }, &format!("quic connector during the outage: {} after {} ms", r, ms));
                }
            }
            back = spawn_back().unwrap();
            tokio::time::sleep(std::time::Duration::from_millis(600)).await;
            let t0 = std::time::Instant::now();
            let mut outcomes = vec![];
            for _ in 0..3 {
                let (r, _) = attempt(&w, &q, target.clone(), bound).await;
                outcomes.push(r);
                if r == "ok" {
                    break;
                }
            }
            let total = t0.elapsed().as_millis();
            let n = outcomes.len();
            let recovered = outcomes.last() == Some(&"ok");
            out.case(&format!("Q after-restart{}", outage), &format!("recovered={} attempts<=2:{} hang={}", recovered as u8, (n <= 2) as u8, outcomes.contains(&"hang") as u8));
            out.stat("quic_outages");
            if !recovered || n > 2 || outcomes.contains(&"hang") {
                out.oracle_fail("no-recovery", &format!("quic connector after its upstream was killed and restarted: attempts {:?} in {} ms", outcomes, total));
            }
        }
        let _ = back.kill().await;
        origin.stop();
    }
    // ---- the QUIC connector against an in-process QUIC upstream that shuts down in an orderly way (CONNECTION_CLOSE
    //      reaches the connector: the endpoint KNOWS the shared connection is gone) and comes back on the same port
    {
        let qport = std::net::UdpSocket::bind("127.0.0.1:0").unwrap().local_addr().unwrap().port();
        let mut ep = quic_upstream(qport).await;
        let q = real_connector(&format!("name: upstream-q2\ntype: quic\nserver: localhost\nport: {}\nbind: \"127.0.0.1:0\"\ntls:\n  ca: {}/ca.crt", qport, PKI)).await;
        let target = TargetAddress::DomainPort("origin.example".into(), 80);
        let (r, ms) = attempt(&w, &q, target.clone(), 13000).await;
        out.case("Q initial", r);
        if r != "ok" {
            out.oracle_fail("healthy-upstream-fails", &format!("quic connector against the in-process upstream: {} after {} ms", r, ms));
        }
        // a request to a silent origin times out at the connector; a tunnel to a healthy origin over the same connector
        // (the same shared QUIC connection) must not notice
        {
            let ctx = w.state.contexts.create_context("x".into(), "127.0.0.1:1".parse().unwrap()).await;
            ctx.write().await.set_target(target.clone()).set_feature(Feature::TcpForward);
            let opened = tokio::time::timeout(std::time::Duration::from_secs(13), q.clone().connect(w.state.clone(), ctx.clone())).await;
            let mut healthy = None;
            if let Ok(Ok(())) = opened {
                let mut g = ctx.write().await;
                let (a, _b) = tokio::io::duplex(16);
                g.set_client_stream(make_buffered_stream(a));
                healthy = g.take_streams().map(|x| (x.1, _b));
            }
            let ping = |tag: &'static [u8; 4]| tag;
            let mut alive_before = false;
            if let Some((srv, _)) = healthy.as_mut() {
                let _ = srv.write_all(ping(b"pin1")).await;
                let _ = srv.flush().await;
                let mut b = [0u8; 4];
                alive_before = matches!(tokio::time::timeout(std::time::Duration::from_secs(3), srv.read_exact(&mut b)).await, Ok(Ok(_))) && &b == b"pin1";
            }
            let (slow, ms) = attempt(&w, &q, TargetAddress::DomainPort("silent.example".into(), 80), 13000).await;
            let mut alive_after = false;
            if let Some((srv, _)) = healthy.as_mut() {
                let _ = srv.write_all(ping(b"pin2")).await;
                let _ = srv.flush().await;
                let mut b = [0u8; 4];
                alive_after = matches!(tokio::time::timeout(std::time::Duration::from_secs(3), srv.read_exact(&mut b)).await, Ok(Ok(_))) && &b == b"pin2";
            }
            let (next, _) = attempt(&w, &q, target.clone(), 13000).await;
            out.case("Q silent-origin", &format!("slow-request={} healthy-tunnel={}{} next={}", slow, alive_before as u8, alive_after as u8, next));
            out.stat("quic_silent_origin");
            if slow == "hang" || slow == "ok" {
                out.oracle_fail(if slow == "hang" { "attempt-hangs" } else { "success-without-upstream" }, &format!("quic connector, origin silent behind a live upstream: {} after {} ms", slow, ms));
            }
            if alive_before && !alive_after {
                out.oracle_fail("other-tunnel-disturbed", "quic connector: a tunnel to a healthy origin was torn down when a request to a silent origin timed out on the same upstream");
            }
            if !alive_before || next != "ok" {
                out.oracle_fail("no-recovery", &format!("quic connector around a timed-out request: healthy tunnel opened = {}, next request = {}", alive_before, next));
            }
        }
        for round in 0..2 {
            if let Some(e) = ep.take() {
                e.close(0u32.into(), b"maintenance");
                e.wait_idle().await;
                drop(e);
            }
            tokio::time::sleep(std::time::Duration::from_millis(200)).await;
            ep = quic_upstream(qport).await;
            let mut outcomes = vec![];
            for _ in 0..3 {
                let (r, _) = attempt(&w, &q, target.clone(), 13000).await;
                outcomes.push(r);
                if r == "ok" {
                    break;
                }
            }
            let recovered = outcomes.last() == Some(&"ok");
            out.case(&format!("Q after-orderly-close{}", round), &format!("recovered={} attempts<=2:{} hang={}", recovered as u8, (outcomes.len() <= 2) as u8, outcomes.contains(&"hang") as u8));
            out.stat("quic_outages");
            if !recovered || outcomes.len() > 2 || outcomes.contains(&"hang") {
                out.oracle_fail("no-recovery", &format!("quic connector after its upstream closed the connection and came back: attempts {:?}", outcomes));
            }
        }
    }
}

/// an in-process QUIC upstream (ALPN h11c): answers CONNECT with 200 and echoes
async fn quic_upstream(port: u16) -> Option<quinn::Endpoint> {
    use tokio_rustls::rustls;
    let certs: Vec<rustls::Certificate> = {
        let mut r = std::io::BufReader::new(std::fs::File::open(format!("{}/server.crt", PKI)).ok()?);
        rustls_pemfile::certs(&mut r).ok()?.into_iter().map(rustls::Certificate).collect()
    };
    let key = {
        let mut r = std::io::BufReader::new(std::fs::File::open(format!("{}/server.key", PKI)).ok()?);
        rustls::PrivateKey(rustls_pemfile::pkcs8_private_keys(&mut r).ok()?.remove(0))
    };
    let mut crypto = rustls::ServerConfig::builder().with_safe_defaults().with_no_client_auth().with_single_cert(certs, key).ok()?;
    crypto.alpn_protocols = vec![b"h11c".to_vec()];
    let mut cfg = quinn::ServerConfig::with_crypto(Arc::new(crypto));
    {
        // like the project's own QUIC listener: the default idle timeout (10 s) would close an idle shared connection by itself
        let mut t = quinn::TransportConfig::default();
        t.max_idle_timeout(Some(std::time::Duration::from_secs(3600).try_into().unwrap()));
        t.keep_alive_interval(Some(std::time::Duration::from_secs(30)));
        cfg.transport = Arc::new(t);
    }
    let mut ep = None;
    for _ in 0..50 {
        match quinn::Endpoint::server(cfg.clone(), format!("127.0.0.1:{}", port).parse().unwrap()) {
            Ok(e) => {
                ep = Some(e);
                break;
            }
            Err(_) => tokio::time::sleep(std::time::Duration::from_millis(20)).await,
        }
    }
    let ep = ep?;
    let ep2 = ep.clone();
    tokio::spawn(async move {
        while let Some(connecting) = ep2.accept().await {
            tokio::spawn(async move {
                if let Ok(conn) = connecting.await {
                    while let Ok((mut tx, mut rx)) = conn.accept_bi().await {
                        tokio::spawn(async move {
                            let mut head = vec![];
                            let mut b = [0u8; 1];
                            while !head.ends_with(b"\r\n\r\n") {
                                match rx.read(&mut b).await {
                                    Ok(Some(1)) => head.push(b[0]),
                                    _ => return,
                                }
                            }
                            if head.starts_with(b"CONNECT silent.example") {
                                // an origin that swallows the connection attempt: this upstream never answers the CONNECT
                                tokio::time::sleep(std::time::Duration::from_secs(3600)).await;
                                return;
                            }
                            let _ = tx.write_all(b"HTTP/1.1 200 OK\r\n\r\n").await;
                            let mut buf = [0u8; 4096];
                            while let Ok(Some(n)) = rx.read(&mut buf).await {
                                if tx.write_all(&buf[..n]).await.is_err() {
                                    break;
                                }
                            }
                        });
                    }
                }
            });
        }
    });
    Some(ep)
}
