// C03: destination integrity through every re-encoding: for every destination and every outgoing
// format the real writer either refuses or the real reader of that format recovers the same destination.
use super::codec::*;
use super::util::*;
use crate::context::TargetAddress;
use std::net::{IpAddr, SocketAddr};

fn same_dest_text(t: &TargetAddress, got: &TargetAddress) -> bool {
    if t == got {
        return true;
    }
    // the documented text-form case: a domain that IS an IP literal comes back as that address
    if let (TargetAddress::DomainPort(h, p), TargetAddress::SocketAddr(a)) = (t, got) {
        let inner = h.strip_prefix('[').and_then(|x| x.strip_suffix(']'));
        let ip: Option<IpAddr> = match inner {
            Some(i) => i.parse::<std::net::Ipv6Addr>().ok().map(IpAddr::V6),
            None => h.parse::<std::net::Ipv4Addr>().ok().map(IpAddr::V4),
        };
        return ip == Some(a.ip()) && *p == a.port();
    }
    false
}

fn fail_changed(out: &mut Out, fmt: &str, t: &TargetAddress, got: &str) {
    out.oracle_fail("dest-changed", &format!("K={} t={} got={}", fmt, addr_s(t), got));
}

/// every outgoing format for one destination
async fn all_formats(out: &mut Out, rng: &mut Rng, t: &TargetAddress) {
    // --- SOCKS5 (connector side writes, listener side reads)
    let auth = if rng.chance(1, 3) { Some(("user".to_string(), "pw".to_string())) } else { None };
    let replies: Vec<Vec<u8>> = if auth.is_some() && rng.chance(1, 2) { vec![vec![5, 2], vec![1, 0]] } else { vec![vec![5, 0]] };
    let used_userpass = replies.len() == 2;
    let (c, i, wire) = op_wsreq(5, 1, t, &auth, &replies).await;
    out.case(&c, &i);
    out.stat(&format!("socks5_write_{}", &i[..2]));
    if let Some(w) = wire {
        let (c, i, parsed) = op_sreq(used_userpass, &[w]).await;
        out.case(&c, &i);
        match parsed {
            Some(r) if &r.target == t => {}
            Some(r) => fail_changed(out, "socks5", t, &addr_s(&r.target)),
            None => fail_changed(out, "socks5", t, "unreadable"),
        }
    }
    // --- SOCKS4 / 4a
    let (c, i, wire) = op_wsreq(4, 1, t, &auth, &[]).await;
    out.case(&c, &i);
    out.stat(&format!("socks4_write_{}", &i[..2]));
    if let Some(w) = wire {
        let (c, i, parsed) = op_sreq(false, &[w]).await;
        out.case(&c, &i);
        match parsed {
            Some(r) if &r.target == t => {}
            Some(r) => fail_changed(out, "socks4", t, &addr_s(&r.target)),
            None => fail_changed(out, "socks4", t, "unreadable"),
        }
    }
    // --- HTTP CONNECT (h11c_connect writes, h11c_handshake reads)
    let fc = *rng.pick(&['t', 't', 'u']);
    let reply = b"HTTP/1.1 200 OK\r\nSession-Id: 5\r\n\r\n".to_vec();
    let (c, i, wire) = op_h11c(fc, t, &[reply]).await;
    out.case(&c, &i);
    out.stat(&format!("http_write_{}", &i[..2]));
    if let Some(w) = wire {
        let (c, i, res) = op_hhs(&[w], "tbl=-").await;
        out.case(&c, &i);
        match res {
            Some(r) if r.enqueued && same_dest_text(t, &r.target) => {}
            Some(r) if r.enqueued => fail_changed(out, "http", t, &addr_s(&r.target)),
            _ => fail_changed(out, "http", t, "unreadable"),
        }
    }
    // --- RPFM frame (stream and QUIC datagram payload)
    let body = rng.bytes(3);
    let (c, i, wire) = op_fser(7, &Some(t.clone()), &body).await;
    out.case(&c, &i);
    out.stat(&format!("rpfm_write_{}", &i[..2]));
    if let Some(w) = wire {
        let (c, i, f) = op_fbuf(&w);
        out.case(&c, &i);
        match f {
            Some(f) if f.addr.as_ref() == Some(t) && f.body[..] == body[..] => {}
            Some(f) => fail_changed(out, "rpfm", t, &addr_opt_s(&f.addr)),
            None => fail_changed(out, "rpfm", t, "unreadable"),
        }
        let segs = random_cuts(rng, &w);
        let (c, i, fs) = op_fstream(&segs).await;
        out.case(&c, &i);
        if !(fs.len() == 1 && fs[0].addr.as_ref() == Some(t)) {
            fail_changed(out, "rpfm-stream", t, &i);
        }
    }
    // --- SOCKS5 UDP header
    let (c, i, wire) = op_uenc(&Some(t.clone()), &body);
    out.case(&c, &i);
    out.stat(&format!("udp_write_{}", &i[..2]));
    if let Some(w) = wire {
        let (c, i, f) = op_udec(&w);
        out.case(&c, &i);
        match f {
            Some(f) if f.addr.as_ref() == Some(t) && f.body[..] == body[..] => {}
            Some(f) => fail_changed(out, "socks-udp", t, &addr_opt_s(&f.addr)),
            None => fail_changed(out, "socks-udp", t, "unreadable"),
        }
    }
    // --- text form alone
    let (c, i, text) = op_addrshow(t);
    out.case(&c, &i);
    let (c, i, back) = op_addrparse(&text);
    out.case(&c, &i);
    if let TargetAddress::DomainPort(h, _) = t {
        // the CONNECT path refuses what the text form cannot carry; the bare text form is only checked when it can
        if h.bytes().any(|b| b <= 0x20 || b == 0x7f) || h.is_empty() {
            return;
        }
    }
    match back {
        Some(b) if same_dest_text(t, &b) => {}
        Some(b) => fail_changed(out, "text", t, &addr_s(&b)),
        None => fail_changed(out, "text", t, "unreadable"),
    }
}

pub async fn run(out: &mut Out) {
    let mut rng = Rng(out.seed() ^ 0xC03);
    let thorough = out.tier_thorough();
    // --- A. generated destinations through every format
    let n = if thorough { 6000 } else { 700 };
    for _ in 0..n {
        let t = gen_target(&mut rng);
        out.stat(match &t {
            TargetAddress::DomainPort(h, _) if h.len() > 253 => "dest_domain_long",
            TargetAddress::DomainPort(h, _) if h.is_empty() => "dest_domain_empty",
            TargetAddress::DomainPort(_, _) => "dest_domain",
            TargetAddress::SocketAddr(SocketAddr::V4(_)) => "dest_v4",
            _ => "dest_v6",
        });
        all_formats(out, &mut rng, &t).await;
    }
    // --- B. boundary lengths x byte classes, exhaustively
    let lens: Vec<usize> = if thorough { (0..=300).collect() } else { vec![0, 1, 2, 3, 4, 5, 7, 8, 63, 64, 127, 128, 252, 253, 254, 255, 256, 257, 300] };
    for len in lens {
        for class in 0..6 {
            let h = gen_host(&mut rng, len, class);
            let t = TargetAddress::DomainPort(h, gen_port(&mut rng));
            all_formats(out, &mut rng, &t).await;
            out.stat("length_class_grid");
        }
    }
    // --- C. two-hop composition: what an inbound codec decodes (arbitrary client bytes incl. non-UTF-8, NUL,
    //        delimiters) goes out again through every format
    let m = if thorough { 4000 } else { 500 };
    for _ in 0..m {
        let hl = match rng.below(6) {
            0 => 0,
            1 => 255,
            2 => 254,
            _ => rng.range(1, 30),
        };
        let mut host = rng.bytes(hl);
        if rng.chance(2, 3) {
            for b in host.iter_mut() {
                *b = match rng.below(12) {
                    0 => b' ',
                    1 => b':',
                    2 => b'\r',
                    3 => b'\n',
                    4 => 0xc3,
                    5 => 0xa9,
                    6 => b'[',
                    _ => b'a' + (*b % 26),
                };
            }
        }
        let port = gen_port(&mut rng);
        let inbound = rng.below(3);
        let parsed: Option<TargetAddress> = match inbound {
            0 => {
                // SOCKS5 client: raw host bytes, length byte as given
                let mut v = vec![5, 1, 0, 5, 1, 0, 3, host.len() as u8];
                v.extend_from_slice(&host);
                v.extend_from_slice(&port.to_be_bytes());
                let (c, i, p) = op_sreq(false, &[v]).await;
                out.case(&c, &i);
                p.map(|r| r.target)
            }
            1 => {
                // SOCKS4a client: NUL-free raw host bytes of any length
                let h: Vec<u8> = host.iter().map(|b| if *b == 0 { b'0' } else { *b }).collect();
                let mut v = vec![4, 1];
                v.extend_from_slice(&port.to_be_bytes());
                v.extend_from_slice(&[0, 0, 0, 9, b'i', 0]);
                v.extend_from_slice(&h);
                v.push(0);
                let (c, i, p) = op_sreq(false, &[v]).await;
                out.case(&c, &i);
                p.map(|r| r.target)
            }
            _ => {
                // HTTP client: raw bytes in the request line
                let mut v = b"CONNECT ".to_vec();
                v.extend_from_slice(&host);
                v.extend_from_slice(format!(":{} HTTP/1.1\r\n\r\n", port).as_bytes());
                let (c, i, r) = op_hhs(&[v], "tbl=-").await;
                out.case(&c, &i);
                r.filter(|r| r.enqueued).map(|r| r.target)
            }
        };
        out.stat(&format!("inbound{}_{}", inbound, if parsed.is_some() { "accepted" } else { "refused" }));
        if let Some(t) = parsed {
            // the decoded destination must be what the client sent (bytes, port)
            if let TargetAddress::DomainPort(h, p) = &t {
                if inbound < 2 && (h.as_bytes() != &host[..] && inbound == 0 || *p != port) {
                    out.oracle_fail("inbound-changed", &format!("client sent host {} port {}, decoded {}", hex(&host), port, addr_s(&t)));
                }
            }
            all_formats(out, &mut rng, &t).await;
        }
    }
}
