// C09: the milu parser accepts the documented grammar with the documented precedence/associativity.
// case line:  P <hex of the UTF-8 program text>      impl/model output: ok <tree as Display prints it> | err | panic
use super::util::*;

#[derive(Clone, Debug)]
enum T {
    Int(u32),
    Bool(bool),
    Id(&'static str),
    Str(&'static str),
    Arr(Vec<T>),
    Tup(Vec<T>),
    Un(usize, Box<T>),
    Bin(usize, Box<T>, Box<T>),
    Index(Box<T>, Box<T>),
    Access(Box<T>, &'static str),
    AccessN(Box<T>, u32),
    Call(Box<T>, Vec<T>),
    If(Box<T>, Box<T>, Box<T>),
    Tern(Box<T>, Box<T>, Box<T>),
    Let(Vec<(&'static str, T)>, Box<T>),
}

// the documented table (milu/readme.md): spelling, precedence x10, builtin the spelling denotes
const BIN: &[(&str, u32, &str)] = &[
    ("*", 60, "Multiply"), ("/", 60, "Divide"), ("%", 60, "Mod"),
    ("+", 50, "Plus"), ("-", 50, "Minus"),
    ("<<", 41, "ShiftLeft"), (">>", 41, "ShiftRight"), (">>>", 41, "ShiftRightUnsigned"),
    ("<", 40, "Lesser"), ("<=", 40, "LesserOrEqual"), (">", 40, "Greater"), (">=", 40, "GreaterOrEqual"),
    ("==", 30, "Equal"), ("!=", 30, "NotEqual"), ("=~", 30, "Like"), ("!~", 30, "NotLike"), ("_:", 30, "IsMemberOf"),
    ("&", 25, "BitAnd"), ("^", 24, "BitXor"), ("|", 23, "BitOr"),
    ("&&", 20, "And"), ("and", 20, "And"), ("^^", 15, "Xor"), ("xor", 15, "Xor"), ("||", 10, "Or"), ("or", 10, "Or"),
];
const UN: &[(&str, &str)] = &[("!", "Not"), ("~", "BitNot"), ("-", "Negative")];
const IDS: &[&str] = &["a", "b", "c", "x1", "_y", "foo"];

fn prec(t: &T) -> u32 {
    match t {
        T::Bin(o, _, _) => BIN[*o].1,
        T::Un(_, _) => 70,
        T::If(_, _, _) | T::Tern(_, _, _) | T::Let(_, _) => 0,
        _ => 99,
    }
}

/// what `impl Display for Value` prints for the tree
fn expect(t: &T) -> String {
    let list = |xs: &Vec<T>| xs.iter().map(expect).collect::<Vec<_>>().join(",");
    match t {
        T::Int(n) => n.to_string(),
        T::Bool(b) => b.to_string(),
        T::Id(s) => format!("<{}>", s),
        T::Str(s) => format!("\"{}\"", s),
        T::Arr(xs) => format!("[{}]", list(xs)),
        T::Tup(xs) => format!("({})", list(xs)),
        T::Un(o, a) => format!("{}({})", UN[*o].1, expect(a)),
        T::Bin(o, a, b) => format!("{}({},{})", BIN[*o].2, expect(a), expect(b)),
        T::Index(a, i) => format!("Index({},{})", expect(a), expect(i)),
        T::Access(a, f) => format!("Access({},<{}>)", expect(a), f),
        T::AccessN(a, n) => format!("Access({},{})", expect(a), n),
        T::Call(f, args) => format!("{}({})", expect(f), list(args)),
        T::If(c, y, n) | T::Tern(c, y, n) => format!("If({},{},{})", expect(c), expect(y), expect(n)),
        T::Let(vs, e) => format!(
            "Scope([{}],{})",
            vs.iter().map(|(k, v)| format!("(<{}>,{})", k, expect(v))).collect::<Vec<_>>().join(","),
            expect(e)
        ),
    }
}

/// tokens of the text with only the parentheses the table makes necessary (`full` = parenthesise every operand)
fn toks(t: &T, full: bool, out: &mut Vec<String>) {
    let paren = |x: &T, need: bool, out: &mut Vec<String>| {
        let atomic = matches!(x, T::Int(_) | T::Bool(_) | T::Id(_) | T::Str(_) | T::Arr(_) | T::Tup(_));
        if need || (full && !atomic) {
            out.push("(".into());
            toks(x, full, out);
            out.push(")".into());
        } else {
            toks(x, full, out);
        }
    };
    let list = |xs: &Vec<T>, out: &mut Vec<String>| {
        for (i, x) in xs.iter().enumerate() {
            if i > 0 {
                out.push(",".into());
            }
            toks(x, full, out);
        }
    };
    match t {
        T::Int(n) => out.push(n.to_string()),
        T::Bool(b) => out.push(b.to_string()),
        T::Id(s) => out.push(s.to_string()),
        T::Str(s) => out.push(format!("\"{}\"", s)),
        T::Arr(xs) => {
            out.push("[".into());
            list(xs, out);
            out.push("]".into());
        }
        T::Tup(xs) => {
            out.push("(".into());
            list(xs, out);
            if xs.len() == 1 {
                out.push(",".into());
            }
            out.push(")".into());
        }
        T::Un(o, a) => {
            out.push(UN[*o].0.into());
            paren(a, prec(a) < 70, out);
        }
        T::Bin(o, a, b) => {
            let p = BIN[*o].1;
            paren(a, prec(a) < p, out);
            out.push(BIN[*o].0.into());
            paren(b, prec(b) <= p, out);
        }
        T::Index(a, i) => {
            paren(a, prec(a) < 99, out);
            out.push("[".into());
            toks(i, full, out);
            out.push("]".into());
        }
        T::Access(a, f) => {
            paren(a, prec(a) < 99 || matches!(**a, T::Int(_)), out);
            out.push(".".into());
            out.push(f.to_string());
        }
        T::AccessN(a, n) => {
            paren(a, prec(a) < 99 || matches!(**a, T::Int(_)), out);
            out.push(".".into());
            out.push(n.to_string());
        }
        T::Call(f, args) => {
            paren(f, prec(f) < 99, out);
            out.push("(".into());
            list(args, out);
            out.push(")".into());
        }
        T::If(c, y, n) => {
            out.push("if".into());
            toks(c, full, out);
            out.push("then".into());
            toks(y, full, out);
            out.push("else".into());
            toks(n, full, out);
        }
        T::Tern(c, y, n) => {
            paren(c, prec(c) == 0, out);
            out.push("?".into());
            toks(y, full, out);
            out.push(":".into());
            toks(n, full, out);
        }
        T::Let(vs, e) => {
            out.push("let".into());
            for (i, (k, v)) in vs.iter().enumerate() {
                if i > 0 {
                    out.push(";".into());
                }
                out.push(k.to_string());
                out.push("=".into());
                toks(v, full, out);
            }
            out.push("in".into());
            toks(e, full, out);
        }
    }
}

fn wordy(s: &str) -> bool {
    s.chars().all(|c| c.is_ascii_alphanumeric() || c == '_')
}

/// join tokens; `filler(i)` gives the text between token i and i+1 (and before the first for i = usize::MAX)
fn join(ts: &[String], mut filler: impl FnMut(bool) -> String) -> String {
    let mut s = String::new();
    for (i, t) in ts.iter().enumerate() {
        if i > 0 {
            // two word-like tokens, or a token pair that would fuse into another token, must stay separated
            let a = &ts[i - 1];
            let must = (wordy(a) && wordy(t)) || fuses(a, t);
            s.push_str(&filler(must));
        }
        s.push_str(t);
    }
    s
}

fn fuses(a: &str, b: &str) -> bool {
    let bracket = |s: &str| matches!(s, "(" | ")" | "[" | "]" | "," | ";");
    if bracket(a) || bracket(b) || a.starts_with('"') || b.starts_with('"') {
        return false;
    }
    let sym = |s: &str| !wordy(s);
    // two operator tokens could fuse into another operator or a comment opener; `a` `_:` would fuse into `a_`
    (sym(a) && sym(b)) || (wordy(a) && b.starts_with('_'))
}

fn canonical(ts: &[String]) -> String {
    let mut s = String::new();
    for (i, t) in ts.iter().enumerate() {
        if i > 0 {
            let a = ts[i - 1].as_str();
            let tight = a == "(" || a == "[" || a == "." || t == ")" || t == "]" || t == "," || t == "." || t == ";"
                || (t == "(" && (wordy(a) || a == ")" || a == "]")) && false;
            if !tight {
                s.push(' ');
            }
        }
        s.push_str(t);
    }
    s
}

fn run_parse(out: &mut Out, text: &str) -> String {
    let r = no_panic(|| milu::parser::parse(text).map(|v| v.to_string()));
    let imp = match r {
        None => "panic".to_string(),
        Some(Ok(s)) => format!("ok {}", s),
        Some(Err(_)) => "err".to_string(),
    };
    out.case(&format!("P {}", hex(text.as_bytes())), &imp);
    imp
}

/// the tree must come back from its minimal, fully parenthesised and blank-filled texts
fn check_tree(out: &mut Out, rng: &mut Rng, t: &T, fills: usize) {
    let want = format!("ok {}", expect(t));
    let mut tk = vec![];
    toks(t, false, &mut tk);
    let min = canonical(&tk);
    let got = run_parse(out, &min);
    if got != want {
        out.oracle_fail("documented-form-misparsed", &format!("`{}` parses to `{}`, documented reading `{}`", min, got, want));
    }
    let mut tf = vec![];
    toks(t, true, &mut tf);
    let fullt = canonical(&tf);
    if fullt != min {
        let gotf = run_parse(out, &fullt);
        if gotf != want {
            out.oracle_fail("parenthesised-form-misparsed", &format!("`{}` parses to `{}`, expected `{}`", fullt, gotf, want));
        }
    }
    const FILL: &[&str] = &[" ", "\t", "\r\n", "\n", "# c\n", "#\n", "/**/", "/* x */", "  ", " #c\r\n ", "# c\r", "#\r", "\r"];
    for _ in 0..fills {
        let lead = if rng.chance(1, 3) { FILL[rng.below(FILL.len())].to_string() } else { String::new() };
        let body = join(&tk, |must| {
            if must || rng.chance(2, 3) {
                FILL[rng.below(FILL.len())].to_string()
            } else {
                String::new()
            }
        });
        let text = format!("{}{}", lead, body);
        let g = run_parse(out, &text);
        out.stat("filled_texts");
        if g != want {
            out.oracle_fail("blank-sensitive", &format!("`{}` parses to `{}`, but `{}` to `{}`", text.escape_debug(), g, min, want));
        }
    }
}

fn atom(rng: &mut Rng) -> T {
    match rng.below(8) {
        0 => T::Int(rng.below(100) as u32),
        1 => T::Bool(rng.chance(1, 2)),
        2 => T::Str(*rng.pick(&["s", "a b", ""])),
        _ => T::Id(*rng.pick(IDS)),
    }
}

fn gen_tree(rng: &mut Rng, depth: usize) -> T {
    if depth == 0 {
        return atom(rng);
    }
    let sub = |rng: &mut Rng| Box::new(gen_tree(rng, depth - 1));
    match rng.below(20) {
        0..=8 => T::Bin(rng.below(BIN.len()), sub(rng), sub(rng)),
        9..=10 => T::Un(rng.below(UN.len()), sub(rng)),
        11 => T::Index(sub(rng), sub(rng)),
        12 => T::Access(sub(rng), *rng.pick(&["f", "host"])),
        13 => T::AccessN(sub(rng), rng.below(3) as u32),
        14 => {
            let n = rng.below(3);
            T::Call(Box::new(T::Id(*rng.pick(IDS))), (0..n).map(|_| gen_tree(rng, depth - 1)).collect())
        }
        15 => T::If(sub(rng), sub(rng), sub(rng)),
        16 => T::Tern(sub(rng), sub(rng), sub(rng)),
        17 => {
            let n = rng.range(1, 2);
            T::Let((0..n).map(|i| (IDS[i], gen_tree(rng, depth - 1))).collect(), sub(rng))
        }
        18 => {
            let n = rng.below(3);
            T::Arr((0..n).map(|_| gen_tree(rng, depth - 1)).collect())
        }
        _ => {
            let n = *rng.pick(&[0usize, 2, 3]);
            T::Tup((0..n).map(|_| gen_tree(rng, depth - 1)).collect())
        }
    }
}

pub async fn run(out: &mut Out) {
    let mut rng = Rng(out.seed() ^ 0xC09);
    let thorough = out.tier_thorough();
    let id = |s: &'static str| Box::new(T::Id(s));
    // ---- every operator alone
    for o in 0..BIN.len() {
        check_tree(out, &mut rng, &T::Bin(o, id("a"), id("b")), 6);
        out.stat("single_binary");
    }
    for u in 0..UN.len() {
        check_tree(out, &mut rng, &T::Un(u, id("a")), 6);
        out.stat("single_unary");
    }
    check_tree(out, &mut rng, &T::Index(id("a"), Box::new(T::Int(1))), 6);
    check_tree(out, &mut rng, &T::Access(id("a"), "f"), 6);
    check_tree(out, &mut rng, &T::AccessN(id("a"), 0), 6);
    check_tree(out, &mut rng, &T::Call(id("foo"), vec![T::Id("a"), T::Int(2)]), 6);
    check_tree(out, &mut rng, &T::If(id("a"), id("b"), id("c")), 6);
    check_tree(out, &mut rng, &T::Tern(id("a"), id("b"), id("c")), 6);
    check_tree(out, &mut rng, &T::Let(vec![("a", T::Int(1))], id("a")), 6);
    // ---- the level-0 forms (if / ?: / let) nested in every arm of every level-0 form, and chains three deep (the
    // else-if ladder in both spellings): associativity of `?:` and of `if .. else`
    {
        let mk = |k: usize, a: Box<T>, b: Box<T>, c: Box<T>| -> T {
            match k {
                0 => T::If(a, b, c),
                1 => T::Tern(a, b, c),
                _ => T::Let(vec![("x", *a), ("y", *b)], c),
            }
        };
        for outer in 0..3 {
            for inner in 0..3 {
                for pos in 0..3 {
                    let leaf = |n: &'static str| id(n);
                    let inn = Box::new(mk(inner, leaf("c"), leaf("d"), leaf("e")));
                    let t = match pos {
                        0 => mk(outer, inn, leaf("a"), leaf("b")),
                        1 => mk(outer, leaf("a"), inn, leaf("b")),
                        _ => mk(outer, leaf("a"), leaf("b"), inn),
                    };
                    check_tree(out, &mut rng, &t, 3);
                    out.stat("level0_nesting");
                    // three deep in the last arm, with a binary operator in the conditions
                    let deep = mk(outer, Box::new(T::Bin(0, id("a"), id("b"))), leaf("c"), Box::new(mk(inner, Box::new(T::Bin(1, id("d"), id("e"))), leaf("f"), Box::new(mk(outer, leaf("g"), leaf("h"), leaf("i"))))));
                    check_tree(out, &mut rng, &deep, 1);
                }
            }
        }
    }
    // ---- every ordered pair of binary operators in both shapes; unary/postfix against every binary
    for o1 in 0..BIN.len() {
        for o2 in 0..BIN.len() {
            let l = T::Bin(o2, Box::new(T::Bin(o1, id("a"), id("b"))), id("c"));
            let r = T::Bin(o1, id("a"), Box::new(T::Bin(o2, id("b"), id("c"))));
            check_tree(out, &mut rng, &l, 1);
            check_tree(out, &mut rng, &r, 1);
            out.stat("binary_pairs");
        }
        for u in 0..UN.len() {
            check_tree(out, &mut rng, &T::Bin(o1, Box::new(T::Un(u, id("a"))), Box::new(T::Un(u, id("b")))), 1);
            check_tree(out, &mut rng, &T::Un(u, Box::new(T::Bin(o1, id("a"), id("b")))), 1);
            for u2 in 0..UN.len() {
                check_tree(out, &mut rng, &T::Bin(o1, Box::new(T::Un(u, Box::new(T::Un(u2, id("a"))))), id("b")), 0);
            }
        }
        check_tree(out, &mut rng, &T::Bin(o1, Box::new(T::Index(id("a"), id("b"))), Box::new(T::Access(id("c"), "f"))), 1);
        check_tree(out, &mut rng, &T::Index(Box::new(T::Bin(o1, id("a"), id("b"))), id("c")), 1);
        check_tree(out, &mut rng, &T::Tern(Box::new(T::Bin(o1, id("a"), id("b"))), id("c"), Box::new(T::Bin(o1, id("a"), id("b")))), 1);
    }
    for u in 0..UN.len() {
        for u2 in 0..UN.len() {
            check_tree(out, &mut rng, &T::Un(u, Box::new(T::Un(u2, id("a")))), 2);
            for u3 in 0..UN.len() {
                check_tree(out, &mut rng, &T::Un(u, Box::new(T::Un(u2, Box::new(T::Un(u3, id("a")))))), 1);
            }
        }
        check_tree(out, &mut rng, &T::Un(u, Box::new(T::Index(id("a"), id("b")))), 1);
        check_tree(out, &mut rng, &T::Index(Box::new(T::Un(u, id("a"))), id("b")), 1);
    }
    // ---- every ordered triple of binary operators (left-leaning and right-leaning)
    let stride = if thorough { 1 } else { 3 };
    let mut k = 0usize;
    for o1 in 0..BIN.len() {
        for o2 in 0..BIN.len() {
            for o3 in 0..BIN.len() {
                k += 1;
                if k % stride != (out.seed() as usize) % stride {
                    continue;
                }
                let t = T::Bin(o3, Box::new(T::Bin(o2, Box::new(T::Bin(o1, id("a"), id("b"))), id("c"))), id("x1"));
                check_tree(out, &mut rng, &t, 0);
                let t = T::Bin(o1, id("a"), Box::new(T::Bin(o2, id("b"), Box::new(T::Bin(o3, id("c"), id("x1"))))));
                check_tree(out, &mut rng, &t, 0);
                out.stat("binary_triples");
            }
        }
    }
    // ---- random deeper trees
    let n = if thorough { 4000 } else { 500 };
    for i in 0..n {
        let t = gen_tree(&mut rng, 1 + i % (if thorough { 5 } else { 4 }));
        check_tree(out, &mut rng, &t, 2);
        out.stat("random_trees");
    }
    // ---- malformed / boundary texts: the model must agree on accept vs reject too
    for text in ["", " ", "1 +", "(1", "1)", "a b", "[1 2]", "1 # c", "#\n1", "/* x */ 1", "/* x 1", "trueish", "1_000", "0x1f", "0b101", "0o17",
                 "0xFFFFFFFFFFFFFFFFF", "9223372036854775807", "9223372036854775808", "a . b", "a .0", "f()", "f(1,)", "[1,]", "(1,)", "()",
                 "if a then b", "a ? b", "let in a", "let a = 1; in a", "let a = 1; b = 2 in a", "1 ;;", "1 ;; ", "a >= b", "a <= b", "a >>> b",
                 "a ^^ b", "a xor b", "a XOR b", "a AND b", "a Or b", "ifa then b else c", "- - a", "--a", "!~a", "a !~ b", "a=~b", "a_:b",
                 "\"a\\nb\"", "\"a\\\"b\"", "\"unterminated", "a\u{a0}+ b"] {
        run_parse(out, text);
        out.stat("directed_texts");
    }
}
