// C14: the management API and other connections while some clients are stalled or slow.  In process: real http / socks
// listeners, the real direct connector, the real MetricsServer (axum) on loopback; the harness plays the stalled clients.
//   Z <scenario>   -> api=<status/live/history/rules/metrics/post-rules: 1 = answered within 2 s> fresh=<http,socks: served within 2 s>
use super::route::*;
use super::util::*;
use crate::context::Feature;
use std::sync::Arc;
use tokio::io::{AsyncReadExt, AsyncWriteExt};
use tokio::net::{TcpListener, TcpStream, UdpSocket};

async fn http_req(port: u16, method: &str, path: &str, body: &str) -> Option<(u16, String)> {
    let fut = async {
        let mut s = TcpStream::connect(("127.0.0.1", port)).await.ok()?;
        let req = format!("{} {} HTTP/1.1\r\nHost: x\r\nConnection: close\r\nContent-Type: application/json\r\nContent-Length: {}\r\n\r\n{}", method, path, body.len(), body);
        s.write_all(req.as_bytes()).await.ok()?;
        let mut v = vec![];
        s.read_to_end(&mut v).await.ok()?;
        let t = String::from_utf8_lossy(&v).to_string();
        let code: u16 = t.split(' ').nth(1)?.parse().ok()?;
        Some((code, t.split("\r\n\r\n").nth(1).unwrap_or("").to_string()))
    };
    tokio::time::timeout(std::time::Duration::from_secs(2), fut).await.ok().flatten()
}

/// a fresh proxied connection: CONNECT / SOCKS5 to the echo origin, "ping" must come back within 2 s
async fn fresh(port: u16, socks: bool, origin: u16) -> bool {
    let fut = async {
        let mut s = TcpStream::connect(("127.0.0.1", port)).await.ok()?;
        if socks {
            let mut r = vec![5u8, 1, 0, 5, 1, 0, 1, 127, 0, 0, 1];
            r.extend(origin.to_be_bytes());
            r.extend(b"ping");
            s.write_all(&r).await.ok()?;
            let mut v = vec![0u8; 16];
            s.read_exact(&mut v).await.ok()?;
            Some(v.ends_with(b"ping"))
        } else {
            s.write_all(format!("CONNECT 127.0.0.1:{} HTTP/1.1\r\nHost: x\r\n\r\nping", origin).as_bytes()).await.ok()?;
            let mut v = vec![0u8; 43];
            s.read_exact(&mut v).await.ok()?;
            Some(v.ends_with(b"ping"))
        }
    };
    tokio::time::timeout(std::time::Duration::from_secs(2), fut).await.ok().flatten().unwrap_or(false)
}

/// SOCKS5 with user / password: CONNECT to the echo origin, "ping" must come back within 2 s
async fn fresh_socks_auth(port: u16, user: &str, pass: &str, origin: u16, wait_ms: u64) -> bool {
    let fut = async {
        let mut s = TcpStream::connect(("127.0.0.1", port)).await.ok()?;
        let mut r = vec![5u8, 1, 2, 1, user.len() as u8];
        r.extend(user.as_bytes());
        r.push(pass.len() as u8);
        r.extend(pass.as_bytes());
        r.extend([5u8, 1, 0, 1, 127, 0, 0, 1]);
        r.extend(origin.to_be_bytes());
        r.extend(b"ping");
        s.write_all(&r).await.ok()?;
        // method reply (2) + auth reply (2) + connect reply (10) + echo (4)
        let mut v = vec![0u8; 18];
        s.read_exact(&mut v).await.ok()?;
        Some(v.ends_with(b"ping"))
    };
    tokio::time::timeout(std::time::Duration::from_millis(wait_ms), fut).await.ok().flatten().unwrap_or(false)
}

pub async fn run(out: &mut Out) {
    let thorough = out.tier_thorough();
    // echo origin, and an origin that accepts and never reads
    let ol = TcpListener::bind("127.0.0.1:0").await.unwrap();
    let origin = ol.local_addr().unwrap().port();
    tokio::spawn(async move {
        loop {
            if let Ok((mut s, _)) = ol.accept().await {
                tokio::spawn(async move {
                    let mut b = [0u8; 4096];
                    while let Ok(n) = s.read(&mut b).await {
                        if n == 0 || s.write_all(&b[..n]).await.is_err() {
                            break;
                        }
                    }
                });
            }
        }
    });
    let sl = TcpListener::bind("127.0.0.1:0").await.unwrap();
    let sink = sl.local_addr().unwrap().port();
    tokio::spawn(async move {
        let mut keep = vec![];
        loop {
            if let Ok((s, _)) = sl.accept().await {
                keep.push(s); // never read
            }
        }
    });
    // a DNS server that never answers
    let dns = UdpSocket::bind("127.0.0.1:0").await.unwrap();
    let dns_port = dns.local_addr().unwrap().port();
    tokio::spawn(async move {
        let mut b = [0u8; 512];
        loop {
            let _ = dns.recv_from(&mut b).await;
        }
    });
    let mut w = world(&[], 20);
    {
        let st = Arc::get_mut(&mut w.state).unwrap();
        for (name, yaml) in [
            ("direct", "name: direct\ntype: direct".to_string()),
            ("slowdns", format!("name: slowdns\ntype: direct\ndns:\n  servers: \"127.0.0.1:{}\"", dns_port)),
        ] {
            let mut c = crate::connectors::from_value(&serde_yaml::from_str(&yaml).unwrap()).unwrap();
            c.init().await.unwrap();
            st.connectors.insert(name.into(), c.into());
        }
    }
    let rules = vec![("slowdns".to_string(), Some("request.target.type == \"domain\"".to_string())), ("direct".to_string(), None)];
    set_rules(&w, &rules).await.unwrap();
    w.state.contexts.clone().gc_thread();
    let http = start_listener(&w, "name: http\ntype: http").await;
    let socks = start_listener(&w, "name: socks\ntype: socks").await;
    // a SOCKS listener whose credentials are checked by an external helper that is slow for user names starting with "slow"
    let socksauth = start_listener(
        &w,
        "name: socksauth\ntype: socks\nauth:\n  required: true\n  cmd: [\"/bin/sh\", \"-c\", \"case $0 in slow*) sleep 6;; esac; [ $1 = pw ]\", \"#USER#\", \"#PASS#\"]\n  cache:\n    timeout: 300",
    )
    .await;
    let api = free_port();
    let m: crate::metrics::MetricsServer = serde_yaml::from_str(&format!("bind: 127.0.0.1:{}\nui: null", api)).unwrap();
    Arc::new(m).listen(w.state.clone()).await.unwrap();
    tokio::time::sleep(std::time::Duration::from_millis(100)).await;
    let rules_json = r#"[{"target":"slowdns","filter":"request.target.type == \"domain\""},{"target":"direct"}]"#;

    let mut scenarios: Vec<(&str, u16, Vec<u8>)> = vec![
        ("none", 0, vec![]),
        ("http-stall-0", http, vec![]),
        ("http-stall-mid-method", http, b"CONN".to_vec()),
        ("http-stall-mid-target", http, b"CONNECT 127.0.0.1:".to_vec()),
        ("http-stall-after-request-line", http, b"CONNECT 127.0.0.1:80 HTTP/1.1\r\n".to_vec()),
        ("http-stall-mid-header", http, b"CONNECT 127.0.0.1:80 HTTP/1.1\r\nHost: x".to_vec()),
        ("socks-stall-0", socks, vec![]),
        ("socks-stall-mid-hello", socks, vec![5, 2, 0]),
        ("socks-stall-after-hello", socks, vec![5, 1, 0]),
        ("socks-stall-mid-request", socks, vec![5, 1, 0, 5, 1, 0, 3, 9, b'e', b'x']),
        ("socks4-stall-mid-userid", socks, vec![4, 1, 0, 80, 1, 2, 3, 4, b'u']),
    ];
    if thorough {
        for k in 1..38usize {
            let full = b"CONNECT 127.0.0.1:80 HTTP/1.1\r\nHost: x\r\n\r";
            if k < full.len() {
                scenarios.push(("http-stall-at-offset", http, full[..k].to_vec()));
            }
        }
    }
    let mut held: Vec<TcpStream> = vec![];
    for (name, port, prefix) in scenarios {
        // several stalled clients of that kind at once
        if port != 0 {
            for _ in 0..3 {
                if let Ok(mut s) = TcpStream::connect(("127.0.0.1", port)).await {
                    let _ = s.write_all(&prefix).await;
                    held.push(s);
                }
            }
            tokio::time::sleep(std::time::Duration::from_millis(80)).await;
        }
        probe(out, &format!("{}{}", name, if name == "http-stall-at-offset" { format!("-{}", prefix.len()) } else { String::new() }), api, http, socks, origin, rules_json).await;
    }
    // a tunnel blocked on a slow peer: the origin never reads, the client has written until it blocked
    {
        let mut s = TcpStream::connect(("127.0.0.1", http)).await.unwrap();
        let _ = s.write_all(format!("CONNECT 127.0.0.1:{} HTTP/1.1\r\nHost: x\r\n\r\n", sink).as_bytes()).await;
        let mut r = vec![0u8; 39];
        let _ = tokio::time::timeout(std::time::Duration::from_secs(2), s.read_exact(&mut r)).await;
        let chunk = vec![7u8; 1 << 20];
        for _ in 0..12 {
            if tokio::time::timeout(std::time::Duration::from_millis(200), s.write_all(&chunk)).await.is_err() {
                break;
            }
        }
        held.push(s);
        probe(out, "tunnel-blocked-on-slow-peer", api, http, socks, origin, rules_json).await;
    }
    // an upstream connection attempt that does not complete (DNS never answers)
    {
        let mut s = TcpStream::connect(("127.0.0.1", http)).await.unwrap();
        let _ = s.write_all(b"CONNECT upstream.example.com:80 HTTP/1.1\r\nHost: x\r\n\r\n").await;
        held.push(s);
        tokio::time::sleep(std::time::Duration::from_millis(150)).await;
        probe(out, "upstream-connect-pending", api, http, socks, origin, rules_json).await;
    }
    // an idle established tunnel stays open while the rules are posted (the reload needs the rule list's write lock)
    {
        let mut s = TcpStream::connect(("127.0.0.1", http)).await.unwrap();
        let _ = s.write_all(format!("CONNECT 127.0.0.1:{} HTTP/1.1\r\nHost: x\r\n\r\n", origin).as_bytes()).await;
        let mut r = vec![0u8; 39];
        let _ = tokio::time::timeout(std::time::Duration::from_secs(2), s.read_exact(&mut r)).await;
        held.push(s);
        probe(out, "open-tunnel-then-reload", api, http, socks, origin, rules_json).await;
    }
    // a client whose credential check is slow (external helper): other clients of the same listener - one whose verdict
    // is cached, one with fresh credentials - are served meanwhile
    {
        let warm = fresh_socks_auth(socksauth, "alice", "pw", origin, 4000).await;
        let slow = tokio::spawn(async move { fresh_socks_auth(socksauth, "slowpoke", "pw", origin, 12000).await });
        tokio::time::sleep(std::time::Duration::from_millis(400)).await;
        let cached = fresh_socks_auth(socksauth, "alice", "pw", origin, 2000).await;
        let other = fresh_socks_auth(socksauth, "bob", "pw", origin, 2000).await;
        if !warm || !cached || !other {
            out.oracle_fail(
                "data-plane-blocked",
                &format!("scenario auth-helper-slow: while one client's credential check is pending, a client with a cached verdict served={} and a client with fresh credentials served={} within 2 s (first contact served={})", cached, other, warm),
            );
        }
        probe(out, "auth-helper-slow", api, http, socks, origin, rules_json).await;
        slow.abort();
    }
    // a slow reader of the history (it holds the history list's lock, as GET /api/history does while it serialises) while the
    // collector wants to move an ended connection into the history, and GET /api/status arrives in between
    {
        let g = w.state.contexts.terminated.lock().await;
        // one connection ends: the collector's next tick (<= 1 s) queues on the history list
        if let Ok(mut s) = TcpStream::connect(("127.0.0.1", http)).await {
            let _ = s.write_all(format!("CONNECT 127.0.0.1:{} HTTP/1.1\r\nHost: x\r\n\r\nbye", origin).as_bytes()).await;
            let mut r = vec![0u8; 42];
            let _ = tokio::time::timeout(std::time::Duration::from_secs(2), s.read_exact(&mut r)).await;
            drop(s);
        }
        tokio::time::sleep(std::time::Duration::from_millis(1300)).await;
        // a patient client (no timeout of its own: a handler is cancelled when its client goes away)
        let status = tokio::spawn(async move {
            if let Ok(mut s) = TcpStream::connect(("127.0.0.1", api)).await {
                let _ = s.write_all(b"GET /api/status HTTP/1.1\r\nHost: x\r\nConnection: close\r\n\r\n").await;
                let mut v = vec![];
                let _ = tokio::time::timeout(std::time::Duration::from_secs(30), s.read_to_end(&mut v)).await;
            }
        });
        tokio::time::sleep(std::time::Duration::from_millis(150)).await;
        drop(g);
        tokio::time::sleep(std::time::Duration::from_millis(100)).await;
        probe(out, "history-read-slow-during-gc-then-status", api, http, socks, origin, rules_json).await;
        status.abort();
    }
    drop(held);
    log_sink_stalled(out, origin, rules_json).await;
    // TLS / QUIC / reverse-UDP listeners: clients stalled at every handshake stage, the API and a fresh client per listener
    super::stall::stall_matrix_api(out, "C14", true).await;
}

/// the access log goes to a sink that stops taking data (a FIFO whose reader never reads): the collector may stall on it,
/// the API and new connections may not
async fn log_sink_stalled(out: &mut Out, origin: u16, rules_json: &str) {
    let _ = std::fs::create_dir_all("/verif/out/C14");
    let fifo = format!("/verif/out/C14/log-{}.fifo", std::process::id());
    let _ = std::fs::remove_file(&fifo);
    if !std::process::Command::new("mkfifo").arg(&fifo).status().map(|s| s.success()).unwrap_or(false) {
        out.oracle_fail("setup", "mkfifo failed");
        return;
    }
    // a reader that opens the FIFO and never reads
    use std::os::unix::fs::OpenOptionsExt;
    let reader = std::fs::OpenOptions::new().read(true).custom_flags(0o4000 /* O_NONBLOCK */).open(&fifo);
    let mut w = world(&[], 20);
    {
        let st = Arc::get_mut(&mut w.state).unwrap();
        let mut c = crate::connectors::from_value(&serde_yaml::from_str("name: direct\ntype: direct").unwrap()).unwrap();
        c.init().await.unwrap();
        st.connectors.insert("direct".into(), c.into());
        let mut log: crate::access_log::AccessLog = serde_yaml::from_str(&format!("path: {}\nformat: json", fifo)).unwrap();
        if log.init().await.is_err() {
            out.oracle_fail("setup", "access log on a FIFO could not be opened");
            return;
        }
        Arc::get_mut(&mut st.contexts).unwrap().access_log = Some(log);
    }
    set_rules(&w, &[("deny".to_string(), Some("request.target.port == 1".to_string())), ("direct".to_string(), None)]).await.unwrap();
    w.state.contexts.clone().gc_thread();
    let http = start_listener(&w, "name: http\ntype: http").await;
    let socks = start_listener(&w, "name: socks\ntype: socks").await;
    let api = free_port();
    let m: crate::metrics::MetricsServer = serde_yaml::from_str(&format!("bind: 127.0.0.1:{}\nui: null", api)).unwrap();
    Arc::new(m).listen(w.state.clone()).await.unwrap();
    tokio::time::sleep(std::time::Duration::from_millis(100)).await;
    // enough ended connections to fill the pipe, the writer's buffer and the log queue
    for _ in 0..500 {
        if let Ok(mut s) = TcpStream::connect(("127.0.0.1", http)).await {
            let _ = s.write_all(b"CONNECT refused.example:1 HTTP/1.1\r\nHost: x\r\n\r\n").await;
            let mut v = vec![];
            let _ = tokio::time::timeout(std::time::Duration::from_secs(2), s.read_to_end(&mut v)).await;
        }
    }
    tokio::time::sleep(std::time::Duration::from_millis(2500)).await;
    let _ = rules_json;
    probe(out, "access-log-sink-stalled", api, http, socks, origin, r#"[{"target":"deny","filter":"request.target.port == 1"},{"target":"direct"}]"#).await;
    drop(reader);
    let _ = std::fs::remove_file(&fifo);
}

async fn probe(out: &mut Out, scenario: &str, api: u16, http: u16, socks: u16, origin: u16, rules_json: &str) {
    let mut bits = String::new();
    let mut bad = vec![];
    for (m, p, b) in [("GET", "/api/status", ""), ("GET", "/api/live", ""), ("GET", "/api/history", ""), ("GET", "/api/rules", ""), ("GET", "/api/metrics", ""), ("POST", "/api/rules", rules_json)] {
        let ok = matches!(http_req(api, m, p, b).await, Some((200, _)));
        bits.push(if ok { '1' } else { '0' });
        if !ok {
            bad.push(format!("{} {}", m, p));
        }
    }
    // after the reload has been queued / done, new connections must still be routed
    let f1 = fresh(http, false, origin).await;
    let f2 = fresh(socks, true, origin).await;
    out.case(&format!("Z {}", scenario), &format!("api={} fresh={}{}", bits, f1 as u8, f2 as u8));
    out.stat("scenarios");
    if !bad.is_empty() {
        out.oracle_fail("api-blocked", &format!("scenario {}: no answer within 2 s from: {}", scenario, bad.join(", ")));
    }
    if !f1 || !f2 {
        out.oracle_fail("data-plane-blocked", &format!("scenario {}: a fresh connection was not served within 2 s (http listener: {}, socks listener: {})", scenario, f1, f2));
    }
}
