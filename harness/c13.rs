// C13: idle timeout.  The UN-HOOKED binary built from the current tree is started with generated configurations; the
// harness plays client and origin.
//   W <idle|-> <udp|->         configured timeouts (absent = default) -> tcp=<idle_timeout of a live TCP tunnel> udp=<of a UDP session>
//   I <T> <splice> <events>    one tunnel under `timeouts.idle: T`; events = c<ms> / s<ms> (a byte sent by client / origin at that
//                              offset after the tunnel was established); -> closed k=<seconds, rounded> | open
//   H <T> <splice>             the half-close scenario: client uploads for longer than T, half-closes, origin answers later
use super::util::*;
use std::process::Stdio;
use std::sync::Arc;
use tokio::io::{AsyncReadExt, AsyncWriteExt};
use tokio::net::{TcpListener, TcpStream, UdpSocket};

struct Proc {
    child: tokio::process::Child,
    http: u16,
    api: u16,
    reverse: u16,
}

fn port() -> u16 {
    std::net::TcpListener::bind("127.0.0.1:0").unwrap().local_addr().unwrap().port()
}

async fn start(bin: &str, idle: Option<u64>, udp: Option<u64>, splice: bool, origin_udp: u16, tag: &str) -> Option<Proc> {
    let (http, api, reverse) = (port(), port(), port());
    let mut t = String::new();
    if idle.is_some() || udp.is_some() {
        t.push_str("timeouts:\n");
        if let Some(i) = idle {
            t.push_str(&format!("  idle: {}\n", i));
        }
        if let Some(u) = udp {
            t.push_str(&format!("  udp: {}\n", u));
        }
    }
    let cfg = format!(
        "apiVersion: v1alpha\nkind: ProxyDefinition\nioParams:\n  bufferSize: 65536\n  useSplice: {}\nmetrics:\n  bind: \"127.0.0.1:{}\"\n  ui: null\n{}listeners:\n  - name: http\n    bind: 127.0.0.1:{}\n  - name: rudp\n    type: reverse\n    bind: 127.0.0.1:{}\n    target: 127.0.0.1:{}\n    protocol: udp\nconnectors:\n  - name: direct\nrules:\n  - target: direct\n",
        splice, api, t, http, reverse, origin_udp
    );
    let path = format!("/verif/out/C13/cfg-{}-{}.yaml", std::process::id(), tag);
    std::fs::write(&path, cfg).ok()?;
    let child = tokio::process::Command::new(bin)
        .arg("-c")
        .arg(&path)
        .env_remove("REDPROXY_VERIF_DRIVER")
        .env("RUST_LOG", "error")
        .stdout(Stdio::null())
        .stderr(Stdio::null())
        .kill_on_drop(true)
        .spawn()
        .ok()?;
    for _ in 0..300 {
        if TcpStream::connect(("127.0.0.1", http)).await.is_ok() && TcpStream::connect(("127.0.0.1", api)).await.is_ok() {
            return Some(Proc { child, http, api, reverse });
        }
        tokio::time::sleep(std::time::Duration::from_millis(20)).await;
    }
    None
}

async fn api_get(api: u16, path: &str) -> Option<String> {
    let mut s = TcpStream::connect(("127.0.0.1", api)).await.ok()?;
    s.write_all(format!("GET {} HTTP/1.1\r\nHost: x\r\nConnection: close\r\n\r\n", path).as_bytes()).await.ok()?;
    let mut v = vec![];
    tokio::time::timeout(std::time::Duration::from_secs(3), s.read_to_end(&mut v)).await.ok()?.ok()?;
    let text = String::from_utf8_lossy(&v).to_string();
    let body = text.split("\r\n\r\n").nth(1)?.to_string();
    // chunked or plain: take the outermost JSON array
    let a = body.find('[')?;
    let b = body.rfind(']')?;
    Some(body[a..=b].to_string())
}

/// open a CONNECT tunnel to `origin`; returns the established stream
async fn tunnel(http: u16, origin: u16) -> Option<TcpStream> {
    let mut s = TcpStream::connect(("127.0.0.1", http)).await.ok()?;
    s.write_all(format!("CONNECT 127.0.0.1:{} HTTP/1.1\r\nHost: x\r\n\r\n", origin).as_bytes()).await.ok()?;
    let mut reply = vec![0u8; 39];
    tokio::time::timeout(std::time::Duration::from_secs(3), s.read_exact(&mut reply)).await.ok()?.ok()?;
    if reply.starts_with(b"HTTP/1.1 200") {
        Some(s)
    } else {
        None
    }
}

/// play one timed scenario; returns the offset (ms) at which the client saw the tunnel close, or None if still open at `watch`
/// Some((close time, lower bound, upper bound of the moment the last data byte was handed to the kernel)), all in
/// ms on the scenario's own clock (started when the tunnel is established)
async fn scenario(http: u16, events: Vec<(bool, u64)>, watch: u64) -> Option<(Option<u64>, u64, u64, u64)> {
    let sent: Arc<std::sync::Mutex<(u64, u64)>> = Arc::new(std::sync::Mutex::new((0, 0)));
    let epoch: Arc<std::sync::Mutex<Option<std::time::Instant>>> = Arc::new(std::sync::Mutex::new(None));
    let (sent_o, epoch_o) = (sent.clone(), epoch.clone());
    let ol = TcpListener::bind("127.0.0.1:0").await.ok()?;
    let oport = ol.local_addr().ok()?.port();
    let sev: Vec<u64> = events.iter().filter(|e| !e.0).map(|e| e.1).collect();
    let origin = tokio::spawn(async move {
        let (mut o, _) = ol.accept().await.ok()?;
        let t0 = std::time::Instant::now();
        for at in sev {
            let el = t0.elapsed().as_millis() as u64;
            if at > el {
                tokio::time::sleep(std::time::Duration::from_millis(at - el)).await;
            }
            let now = || epoch_o.lock().unwrap().map(|e| e.elapsed().as_millis() as u64).unwrap_or(0);
            let before = now();
            if o.write_all(b"s").await.is_err() {
                break;
            }
            let after = now();
            let mut g = sent_o.lock().unwrap();
            *g = (g.0.max(before), g.1.max(after));
        }
        let mut buf = [0u8; 64];
        loop {
            match o.read(&mut buf).await {
                Ok(0) | Err(_) => break,
                _ => {}
            }
        }
        Some(())
    });
    let pre = std::time::Instant::now();
    let mut c = tunnel(http, oport).await?;
    let t0 = std::time::Instant::now();
    let setup_ms = t0.duration_since(pre).as_millis() as u64 + 1;
    *epoch.lock().unwrap() = Some(t0);
    let cev: Vec<u64> = events.iter().filter(|e| e.0).map(|e| e.1).collect();
    let (mut rd, mut wr) = c.split();
    let writer = async {
        for at in cev {
            let el = t0.elapsed().as_millis() as u64;
            if at > el {
                tokio::time::sleep(std::time::Duration::from_millis(at - el)).await;
            }
            let before = t0.elapsed().as_millis() as u64;
            if wr.write_all(b"c").await.is_err() {
                break;
            }
            let after = t0.elapsed().as_millis() as u64;
            let mut g = sent.lock().unwrap();
            *g = (g.0.max(before), g.1.max(after));
        }
        std::future::pending::<()>().await
    };
    let reader = async {
        let mut buf = [0u8; 64];
        loop {
            match rd.read(&mut buf).await {
                Ok(0) | Err(_) => return t0.elapsed().as_millis() as u64,
                _ => {}
            }
        }
    };
    let r = tokio::select! {
        _ = writer => None,
        t = reader => Some(t),
        _ = tokio::time::sleep(std::time::Duration::from_millis(watch)) => None,
    };
    origin.abort();
    let g = *sent.lock().unwrap();
    Some((r, g.0, g.1, setup_ms))
}

fn ev_s(e: &[(bool, u64)]) -> String {
    if e.is_empty() {
        "-".into()
    } else {
        e.iter().map(|(c, t)| format!("{}{}", if *c { 'c' } else { 's' }, t)).collect::<Vec<_>>().join(",")
    }
}

pub async fn run(out: &mut Out) {
    let thorough = out.tier_thorough();
    let bin = match out.param("plainbin") {
        Some(b) => b.to_string(),
        None => {
            out.oracle_fail("setup", "no plain binary");
            return;
        }
    };
    let _ = std::fs::create_dir_all("/verif/out/C13");
    // a UDP origin for the reverse-UDP listener
    let uo = UdpSocket::bind("127.0.0.1:0").await.unwrap();
    let uoport = uo.local_addr().unwrap().port();
    tokio::spawn(async move {
        let mut b = [0u8; 2048];
        loop {
            if let Ok((n, from)) = uo.recv_from(&mut b).await {
                let _ = uo.send_to(&b[..n], from).await;
            }
        }
    });
    // ---- wiring: what a live tunnel / session runs with
    let wirings: Vec<(Option<u64>, Option<u64>)> = vec![(None, None), (Some(2), Some(5)), (Some(0), Some(7)), (Some(3), None), (None, Some(4)), (Some(86400), Some(1)), (Some(5), Some(0)), (Some(0), Some(0)), (Some(6), Some(6))];
    let mut procs = vec![];
    for (i, (idle, udp)) in wirings.iter().enumerate() {
        procs.push((idle, udp, start(&bin, *idle, *udp, i % 2 == 0, uoport, &format!("w{}", i)).await));
    }
    for (idle, udp, p) in procs.iter_mut() {
        let f = |x: &Option<u64>| x.map(|v| v.to_string()).unwrap_or_else(|| "-".into());
        let case = format!("W {} {}", f(idle), f(udp));
        let p = match p {
            Some(p) => p,
            None => {
                out.case(&case, "proxy-did-not-start");
                out.oracle_fail("proxy-did-not-start", &case);
                continue;
            }
        };
        let ol = TcpListener::bind("127.0.0.1:0").await.unwrap();
        let oport = ol.local_addr().unwrap().port();
        let keep = tokio::spawn(async move {
            let s = ol.accept().await;
            tokio::time::sleep(std::time::Duration::from_secs(5)).await;
            drop(s);
        });
        let t = tunnel(p.http, oport).await;
        let us = UdpSocket::bind("127.0.0.1:0").await.unwrap();
        let _ = us.send_to(b"one", ("127.0.0.1", p.reverse)).await;
        tokio::time::sleep(std::time::Duration::from_millis(50)).await;
        let _ = us.send_to(b"two", ("127.0.0.1", p.reverse)).await;
        tokio::time::sleep(std::time::Duration::from_millis(150)).await;
        let live = api_get(p.api, "/api/live").await.unwrap_or_default();
        let v: serde_json::Value = serde_json::from_str(&live).unwrap_or(serde_json::Value::Null);
        let pick = |l: &str| v.as_array().and_then(|a| a.iter().find(|x| x["listener"] == l).and_then(|x| x["idle_timeout"].as_u64()));
        let (tcp, udps) = (pick("http"), pick("rudp"));
        let s = |x: Option<u64>| x.map(|v| v.to_string()).unwrap_or_else(|| "?".into());
        out.case(&case, &format!("tcp={} udp={}", s(tcp), s(udps)));
        out.stat("wiring");
        if tcp != Some(idle.unwrap_or(600)) {
            out.oracle_fail("idle-not-applied", &format!("timeouts.idle = {:?}: a live TCP tunnel runs with idle_timeout {:?}", idle, tcp));
        }
        if udps != Some(udp.unwrap_or(600)) {
            out.oracle_fail("udp-timeout-not-applied", &format!("timeouts.udp = {:?}: a live UDP session runs with idle_timeout {:?}", udp, udps));
        }
        drop(t);
        keep.abort();
    }
    // ---- timed scenarios on the T = 2 instances (splice on: index 1 is splice=false; start one more with splice on)
    let t2_buffered = procs.iter().position(|p| *p.0 == Some(2)).and_then(|i| procs[i].2.as_ref().map(|p| p.http));
    let t2_splice = start(&bin, Some(2), Some(5), true, uoport, "t2s").await;
    let t0_inst = procs.iter().position(|p| *p.0 == Some(0)).and_then(|i| procs[i].2.as_ref().map(|p| p.http));
    let mut scen: Vec<(u64, bool, u16, Vec<(bool, u64)>, u64)> = vec![];
    let trickle: Vec<(bool, u64)> = (0..5).map(|k| (true, 300 + 1000 * k)).collect();
    let strickle: Vec<(bool, u64)> = (0..4).map(|k| (false, 400 + 1000 * k)).collect();
    let both: Vec<(bool, u64)> = vec![(true, 300), (false, 1400), (true, 2400), (false, 3400)];
    for (splice, http) in [(false, t2_buffered), (true, t2_splice.as_ref().map(|p| p.http))] {
        if let Some(http) = http {
            scen.push((2, splice, http, vec![], 9000));
            scen.push((2, splice, http, vec![(true, 500), (false, 500)], 9000));
            scen.push((2, splice, http, vec![(true, 1400)], 9000));
            scen.push((2, splice, http, trickle.clone(), 11000));
            scen.push((2, splice, http, strickle.clone(), 11000));
            if thorough {
                scen.push((2, splice, http, both.clone(), 11000));
                scen.push((2, splice, http, vec![(false, 2400)], 9000));
            }
        }
    }
    if let Some(http) = t0_inst {
        scen.push((0, true, http, vec![], 4500));
    }
    // scheduling jitter of this run: how late a 20 ms sleep wakes up at worst (a loaded machine delays the proxy's
    // ticker and this harness alike; the "closed late" bound is widened by what was actually observed)
    let jitter = Arc::new(std::sync::atomic::AtomicU64::new(0));
    let jm = {
        let j = jitter.clone();
        tokio::spawn(async move {
            loop {
                let t = std::time::Instant::now();
                tokio::time::sleep(std::time::Duration::from_millis(20)).await;
                let over = (t.elapsed().as_millis() as u64).saturating_sub(20);
                j.fetch_max(over, std::sync::atomic::Ordering::Relaxed);
            }
        })
    };
    // all scenarios run concurrently (each is its own tunnel)
    let mut hs = vec![];
    for (t, splice, http, ev, watch) in scen.into_iter() {
        hs.push((t, splice, ev.clone(), tokio::spawn(scenario(http, ev, watch))));
    }
    // the half-close scenario (T = 2): the client uploads a byte every 400 ms for 3.2 s, half-closes; the origin answers 1.3 s later
    let mut hc = vec![];
    for (splice, http) in [(false, t2_buffered), (true, t2_splice.as_ref().map(|p| p.http))] {
        if let Some(http) = http {
            hc.push((splice, tokio::spawn(async move {
                let ol = TcpListener::bind("127.0.0.1:0").await.ok()?;
                let oport = ol.local_addr().ok()?.port();
                let origin = tokio::spawn(async move {
                    let (mut o, _) = ol.accept().await.ok()?;
                    let mut v = vec![];
                    let _ = o.read_to_end(&mut v).await;
                    tokio::time::sleep(std::time::Duration::from_millis(1300)).await;
                    let _ = o.write_all(b"done").await;
                    let _ = o.shutdown().await;
                    Some(v.len())
                });
                let mut c = tunnel(http, oport).await?;
                for _ in 0..8 {
                    tokio::time::sleep(std::time::Duration::from_millis(400)).await;
                    let _ = c.write_all(b"u").await;
                }
                let _ = c.shutdown().await;
                let mut v = vec![];
                let _ = tokio::time::timeout(std::time::Duration::from_secs(6), c.read_to_end(&mut v)).await;
                let up = origin.await.ok().flatten();
                Some((v, up))
            })));
        }
    }
    for (t, splice, ev, h) in hs {
        let r = h.await.ok().flatten();
        let case = format!("I {} {} {}", t, splice as u8, ev_s(&ev));
        let (lo, hi) = r.map(|x| (x.1, x.2)).unwrap_or((0, 0));
        // without data the period runs from the start of the relay, which the proxy enters while the client still waits for the reply
        let setup = r.map(|x| if x.1 == 0 { x.3 } else { 0 }).unwrap_or(0);
        let r = r.map(|x| x.0);
        let imp = match r {
            None => "no-tunnel".to_string(),
            Some(None) => "open".to_string(),
            Some(Some(ms)) => format!("closed k={}", (ms + 500) / 1000),
        };
        out.case(&case, &imp);
        out.stat("timed_scenario");
        // oracle: closed within (T, T + 1 s ticker granularity + 0.3 s scheduling slack] of the last data, never while data is more recent than T
        // (`lo`/`hi`: the last byte was handed to the kernel between these two instants on the scenario's clock, so the
        // proxy cannot have seen it before `lo` and has seen it, scheduling permitting, shortly after `hi`)
        let _nominal = ev.iter().map(|e| e.1).max().unwrap_or(0);
        let slack = 1300 + 4 * jitter.load(std::sync::atomic::Ordering::Relaxed);
        match r {
            Some(Some(ms)) => {
                if t == 0 {
                    out.oracle_fail("closed-although-disabled", &format!("{}: closed after {} ms", case, ms));
                } else if ms + setup < lo + t * 1000 {
                    out.oracle_fail("closed-early", &format!("{}: closed {} ms after the tunnel was established, last data not before {} ms, period {} s", case, ms, lo, t));
                } else if ms > hi + t * 1000 + slack {
                    out.oracle_fail("closed-late", &format!("{}: closed {} ms after the tunnel was established, last data by {} ms, period {} s, allowed slack {} ms", case, ms, hi, t, slack));
                }
            }
            Some(None) => {
                if t != 0 {
                    out.oracle_fail("not-closed", &format!("{}: still open", case));
                }
            }
            None => out.oracle_fail("no-tunnel", &case),
        }
    }
    jm.abort();
    for (splice, h) in hc {
        let r = h.await.ok().flatten();
        let imp = match &r {
            Some((v, Some(8))) if v == b"done" => "reply-delivered".to_string(),
            Some((v, up)) => format!("lost reply={} up={:?}", hex(v), up),
            None => "no-tunnel".to_string(),
        };
        out.case(&format!("H 2 {}", splice as u8), &imp);
        out.stat("half_close_scenario");
        if imp != "reply-delivered" {
            out.oracle_fail("closed-early", &format!("half-close scenario (splice={}): the origin's answer 1.3 s after the client's last byte was not delivered: {}", splice, imp));
        }
    }
    for (_, _, p) in procs.iter_mut() {
        if let Some(p) = p {
            let _ = p.child.kill().await;
        }
    }
    if let Some(mut p) = t2_splice {
        let _ = p.child.kill().await;
    }
}
