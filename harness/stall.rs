// Stalled clients at every stage of every listener's handshake (TCP accept, TLS handshake, request bytes; QUIC
// handshake, QUIC stream) must not stop the proxy from serving OTHER connections (C05 "wedge", C14 "other connections").
//   ST <stage>   -> served=<http,https,socks,socks+tls,quic,reverse-udp: 1 = a fresh client was tunnelled within 3 s>
// The stalled clients are real sockets held open by the harness; the proxy is the real listeners + dispatcher + direct
// connector, in process.
use super::relay::{pem_certs, start_listener_udp, tls_client_cfg, PKI};
use super::route::*;
use super::util::*;
use std::sync::Arc;
use tokio::io::{AsyncRead, AsyncReadExt, AsyncWrite, AsyncWriteExt};
use tokio::net::{TcpListener, TcpStream, UdpSocket};
use tokio_rustls::rustls;

pub struct StallWorld {
    pub w: World,
    pub http: u16,
    pub https: u16,
    pub socks: u16,
    pub sockss: u16,
    pub quic: u16,
    pub rudp: u16,
    pub origin: u16,
    /// while set, the UDP-over-CONNECT upstream stops reading the connections it accepts (after answering 200)
    pub upstream_stalls: Arc<std::sync::atomic::AtomicBool>,
    /// while set, the upstream does not even answer the CONNECT of the connections it accepts
    pub upstream_mute: Arc<std::sync::atomic::AtomicBool>,
}

pub async fn setup() -> StallWorld {
    setup_with_api(false).await.0
}

/// the same world, optionally with the management API (real MetricsServer) on a loopback port
pub async fn setup_with_api(with_api: bool) -> (StallWorld, Option<u16>) {
    let ol = TcpListener::bind("127.0.0.1:0").await.unwrap();
    let origin = ol.local_addr().unwrap().port();
    tokio::spawn(async move {
        loop {
            if let Ok((mut s, _)) = ol.accept().await {
                tokio::spawn(async move {
                    let mut b = [0u8; 4096];
                    while let Ok(n) = s.read(&mut b).await {
                        if n == 0 || s.write_all(&b[..n]).await.is_err() {
                            break;
                        }
                    }
                });
            }
        }
    });
    let mut w = world(&[], 20);
    {
        let st = Arc::get_mut(&mut w.state).unwrap();
        let mut c = crate::connectors::from_value(&serde_yaml::from_str("name: direct\ntype: direct").unwrap()).unwrap();
        c.init().await.unwrap();
        st.connectors.insert("direct".into(), c.into());
    }
    // an upstream proxy for UDP over CONNECT (inline channel): answers 200 + Session-Id, then echoes the frame bytes; while
    // `upstream_stalls` is set, a connection it accepts gets the 200 and is then never read again
    let upstream_stalls = Arc::new(std::sync::atomic::AtomicBool::new(false));
    let upstream_mute = Arc::new(std::sync::atomic::AtomicBool::new(false));
    let ul = TcpListener::bind("127.0.0.1:0").await.unwrap();
    let uport = ul.local_addr().unwrap().port();
    {
        let flag = upstream_stalls.clone();
        let mute = upstream_mute.clone();
        tokio::spawn(async move {
            let mut parked = vec![];
            loop {
                if let Ok((mut s, _)) = ul.accept().await {
                    let stall = flag.load(std::sync::atomic::Ordering::SeqCst);
                    if mute.load(std::sync::atomic::Ordering::SeqCst) {
                        parked.push(s);
                        continue;
                    }
                    let mut head = vec![];
                    let mut b = [0u8; 1];
                    while !head.ends_with(b"\r\n\r\n") {
                        match s.read(&mut b).await {
                            Ok(1) => head.push(b[0]),
                            _ => break,
                        }
                    }
                    let _ = s.write_all(b"HTTP/1.1 200 OK\r\nSession-Id: 1\r\n\r\n").await;
                    if stall {
                        parked.push(s);
                    } else {
                        tokio::spawn(async move {
                            let mut b = vec![0u8; 65536];
                            while let Ok(n) = s.read(&mut b).await {
                                if n == 0 || s.write_all(&b[..n]).await.is_err() {
                                    break;
                                }
                            }
                        });
                    }
                }
            }
        });
    }
    {
        let st = Arc::get_mut(&mut w.state).unwrap();
        let mut c = crate::connectors::from_value(&serde_yaml::from_str(&format!("name: upinline\ntype: http\nserver: 127.0.0.1\nport: {}", uport)).unwrap()).unwrap();
        c.init().await.unwrap();
        st.connectors.insert("upinline".into(), c.into());
    }
    set_rules(&w, &[("upinline".to_string(), Some("request.listener == \"rudp\"".to_string())), ("direct".to_string(), None)]).await.unwrap();
    let tls = format!("tls:\n  cert: {}/server.crt\n  key: {}/server.key", PKI, PKI);
    let http = start_listener(&w, "name: http\ntype: http").await;
    let https = start_listener(&w, &format!("name: https\ntype: http\n{}", tls)).await;
    let socks = start_listener(&w, "name: socks\ntype: socks").await;
    let sockss = start_listener(&w, &format!("name: sockss\ntype: socks\n{}", tls)).await;
    let quic = start_listener_udp(&w, &format!("name: quic\ntype: quic\n{}", tls)).await;
    let rudp = start_listener_udp(&w, "name: rudp\ntype: reverse\ntarget: 127.0.0.1:9\nprotocol: udp").await;
    tokio::time::sleep(std::time::Duration::from_millis(100)).await;
    let api = if with_api {
        w.state.contexts.clone().gc_thread();
        let api = free_port();
        let m: crate::metrics::MetricsServer = serde_yaml::from_str(&format!("bind: 127.0.0.1:{}\nui: null", api)).unwrap();
        Arc::new(m).listen(w.state.clone()).await.unwrap();
        tokio::time::sleep(std::time::Duration::from_millis(100)).await;
        Some(api)
    } else {
        None
    };
    (StallWorld { w, http, https, socks, sockss, quic, rudp, origin, upstream_stalls, upstream_mute }, api)
}

/// CONNECT / SOCKS5 to the echo origin over an established byte stream, "ping" must come back
async fn ping<S: AsyncRead + AsyncWrite + Unpin>(s: &mut S, socks: bool, origin: u16) -> Option<bool> {
    if socks {
        let mut r = vec![5u8, 1, 0, 5, 1, 0, 1, 127, 0, 0, 1];
        r.extend(origin.to_be_bytes());
        r.extend(b"ping");
        s.write_all(&r).await.ok()?;
        s.flush().await.ok()?;
        let mut v = vec![0u8; 16];
        s.read_exact(&mut v).await.ok()?;
        Some(v.ends_with(b"ping"))
    } else {
        s.write_all(format!("CONNECT 127.0.0.1:{} HTTP/1.1\r\nHost: x\r\n\r\nping", origin).as_bytes()).await.ok()?;
        s.flush().await.ok()?;
        let mut v = vec![0u8; 43];
        s.read_exact(&mut v).await.ok()?;
        Some(v.ends_with(b"ping"))
    }
}

const FRESH_MS: u64 = 3000;

async fn fresh_tcp(port: u16, tls: bool, socks: bool, origin: u16) -> bool {
    let fut = async {
        let tcp = TcpStream::connect(("127.0.0.1", port)).await.ok()?;
        if tls {
            let conn = tokio_rustls::TlsConnector::from(Arc::new(tls_client_cfg(None)));
            let mut s = conn.connect(rustls::ServerName::try_from("localhost").unwrap(), tcp).await.ok()?;
            ping(&mut s, socks, origin).await
        } else {
            let mut s = tcp;
            ping(&mut s, socks, origin).await
        }
    };
    tokio::time::timeout(std::time::Duration::from_millis(FRESH_MS), fut).await.ok().flatten().unwrap_or(false)
}

fn quic_client() -> quinn::Endpoint {
    let mut ep = quinn::Endpoint::client("127.0.0.1:0".parse().unwrap()).unwrap();
    ep.set_default_client_config(quinn::ClientConfig::new(Arc::new(tls_client_cfg(Some(b"h11c")))));
    ep
}

async fn fresh_quic(port: u16, origin: u16) -> bool {
    let fut = async {
        let ep = quic_client();
        let c = ep.connect(format!("127.0.0.1:{}", port).parse().unwrap(), "localhost").ok()?.await.ok()?;
        let (mut tx, mut rx) = c.open_bi().await.ok()?;
        tx.write_all(format!("CONNECT 127.0.0.1:{} HTTP/1.1\r\nHost: x\r\n\r\nping", origin).as_bytes()).await.ok()?;
        let mut v = vec![0u8; 43];
        rx.read_exact(&mut v).await.ok()?;
        c.close(0u32.into(), b"");
        Some(v.ends_with(b"ping"))
    };
    tokio::time::timeout(std::time::Duration::from_millis(FRESH_MS), fut).await.ok().flatten().unwrap_or(false)
}

/// a fresh UDP client of the reverse listener: its datagram must come back (through the inline-UDP upstream)
async fn fresh_rudp(port: u16) -> bool {
    let fut = async {
        let u = UdpSocket::bind("127.0.0.1:0").await.ok()?;
        let mut b = [0u8; 64];
        // UDP may lose a datagram: retry every 500 ms within the bound
        loop {
            u.send_to(b"ping", ("127.0.0.1", port)).await.ok()?;
            if let Ok(Ok((n, _))) = tokio::time::timeout(std::time::Duration::from_millis(500), u.recv_from(&mut b)).await {
                return Some(&b[..n] == b"ping");
            }
        }
    };
    tokio::time::timeout(std::time::Duration::from_millis(FRESH_MS), fut).await.ok().flatten().unwrap_or(false)
}

/// the bytes of a real TLS ClientHello record for `localhost`
fn client_hello() -> Vec<u8> {
    let mut c = rustls::ClientConnection::new(Arc::new(tls_client_cfg(None)), rustls::ServerName::try_from("localhost").unwrap()).unwrap();
    let mut v = vec![];
    while c.wants_write() {
        c.write_tls(&mut v).unwrap();
    }
    v
}

/// things the harness keeps alive so that the stalled peers stay connected
#[derive(Default)]
pub struct Held {
    tcp: Vec<TcpStream>,
    tls: Vec<tokio_rustls::client::TlsStream<TcpStream>>,
    quic: Vec<(quinn::Endpoint, Option<quinn::Connection>, Option<(quinn::SendStream, quinn::RecvStream)>)>,
    tasks: Vec<tokio::task::JoinHandle<()>>,
    udp: Vec<UdpSocket>,
    std_udp: Vec<std::net::UdpSocket>,
}

async fn stall_one(sw: &StallWorld, stage: &str, held: &mut Held) {
    let hello = client_hello();
    let tcp_to = |p: u16| TcpStream::connect(("127.0.0.1", p));
    match stage {
        "none" => {}
        "http-0" => held.tcp.extend(tcp_to(sw.http).await.ok()),
        "http-partial-request" => {
            if let Ok(mut s) = tcp_to(sw.http).await {
                let _ = s.write_all(b"CONNECT 127.0.0.1:").await;
                held.tcp.push(s);
            }
        }
        "socks-partial-request" => {
            if let Ok(mut s) = tcp_to(sw.socks).await {
                let _ = s.write_all(&[5, 1, 0, 5, 1]).await;
                held.tcp.push(s);
            }
        }
        "https-tls-0" | "sockss-tls-0" => held.tcp.extend(tcp_to(if stage.starts_with("https") { sw.https } else { sw.sockss }).await.ok()),
        "https-tls-partial-hello" | "sockss-tls-partial-hello" => {
            if let Ok(mut s) = tcp_to(if stage.starts_with("https") { sw.https } else { sw.sockss }).await {
                let _ = s.write_all(&hello[..hello.len() / 2]).await;
                held.tcp.push(s);
            }
        }
        "https-tls-hello-only" | "sockss-tls-hello-only" => {
            // the server answers with its flight and waits for the client's Finished, which never comes
            if let Ok(mut s) = tcp_to(if stage.starts_with("https") { sw.https } else { sw.sockss }).await {
                let _ = s.write_all(&hello).await;
                held.tcp.push(s);
            }
        }
        "https-tls-done-0" | "sockss-tls-done-0" | "https-tls-done-partial-request" | "sockss-tls-done-partial-request" => {
            let https = stage.starts_with("https");
            if let Ok(tcp) = tcp_to(if https { sw.https } else { sw.sockss }).await {
                let conn = tokio_rustls::TlsConnector::from(Arc::new(tls_client_cfg(None)));
                if let Ok(Ok(mut s)) = tokio::time::timeout(std::time::Duration::from_secs(3), conn.connect(rustls::ServerName::try_from("localhost").unwrap(), tcp)).await {
                    if stage.ends_with("partial-request") {
                        let _ = s.write_all(if https { b"CONNECT 127.0." as &[u8] } else { &[5, 1, 0, 5] }).await;
                        let _ = s.flush().await;
                    }
                    held.tls.push(s);
                }
            }
        }
        "quic-garbage-datagram" => {
            if let Ok(u) = UdpSocket::bind("127.0.0.1:0").await {
                for d in [&[0u8][..], &[0xc0, 0, 0, 0, 1, 8, 1, 2, 3, 4, 5, 6, 7, 8, 0, 0, 0], &[0x40; 1200], &[0xff; 3]] {
                    let _ = u.send_to(d, ("127.0.0.1", sw.quic)).await;
                }
            }
        }
        "quic-initial-only" => {
            // a real client whose first packet (the Initial carrying the ClientHello) reaches the listener and whose
            // every later packet is lost: a lossy forwarder between client and listener drops everything else
            if let Ok(fwd) = UdpSocket::bind("127.0.0.1:0").await {
                let fwd_addr = fwd.local_addr().unwrap();
                let quic = sw.quic;
                held.tasks.push(tokio::spawn(async move {
                    let mut b = vec![0u8; 65536];
                    let mut forwarded = false;
                    loop {
                        if let Ok((n, from)) = fwd.recv_from(&mut b).await {
                            if !forwarded && from.port() != quic {
                                let _ = fwd.send_to(&b[..n], ("127.0.0.1", quic)).await;
                                forwarded = true;
                            }
                        }
                    }
                }));
                let ep = quic_client();
                if let Ok(connecting) = ep.connect(fwd_addr, "localhost") {
                    held.tasks.push(tokio::spawn(async move {
                        let _ = connecting.await;
                    }));
                }
                held.quic.push((ep, None, None));
            }
        }
        "quic-connection-no-stream" | "quic-stream-partial-request" => {
            let ep = quic_client();
            let c = async { tokio::time::timeout(std::time::Duration::from_secs(3), ep.connect(format!("127.0.0.1:{}", sw.quic).parse().unwrap(), "localhost").ok()?).await.ok()?.ok() }.await;
            let mut st = None;
            if let Some(c) = &c {
                if stage.ends_with("partial-request") {
                    if let Ok((mut tx, rx)) = c.open_bi().await {
                        let _ = tx.write_all(b"CONNECT 127.0.0.1:").await;
                        st = Some((tx, rx));
                    }
                }
            }
            held.quic.push((ep, c, st));
        }
        "rudp-flood-into-stalled-upstream" => {
            // one UDP client whose session goes to an upstream that stopped reading, and which keeps sending: the TCP
            // connection to the upstream fills up and that session's relay blocks (observed: after ~4 MB).  The session
            // owns a socket connected to its client, so the flood does not pass through the listener's loop.
            sw.upstream_stalls.store(true, std::sync::atomic::Ordering::SeqCst);
            if let Ok(u) = UdpSocket::bind("127.0.0.1:0").await {
                let _ = u.send_to(b"first", ("127.0.0.1", sw.rudp)).await;
                tokio::time::sleep(std::time::Duration::from_millis(150)).await; // the session's upstream connection is made (and parked)
                sw.upstream_stalls.store(false, std::sync::atomic::Ordering::SeqCst);
                let big = vec![0x55u8; 60000];
                for i in 0..600 {
                    let _ = u.send_to(&big, ("127.0.0.1", sw.rudp)).await;
                    if i % 2 == 1 {
                        tokio::time::sleep(std::time::Duration::from_millis(1)).await;
                    }
                }
                held.udp.push(u);
            }
        }
        "rudp-burst-while-upstream-dials" => {
            // one UDP client sends a burst before its session exists and while the session's upstream does not answer the
            // CONNECT: every datagram of the burst is taken by the listener's own loop
            sw.upstream_mute.store(true, std::sync::atomic::Ordering::SeqCst);
            // (the listener is kept busy creating sessions for 60 other sources meanwhile, so that the burst is already in
            // the listening socket's queue when the burst's own session is created)
            let mut others = vec![];
            for _ in 0..60 {
                if let Ok(o) = std::net::UdpSocket::bind("127.0.0.1:0") {
                    others.push(o);
                }
            }
            if let Ok(u) = std::net::UdpSocket::bind("127.0.0.1:0") {
                let to = std::net::SocketAddr::from(([127, 0, 0, 1], sw.rudp));
                for o in others.iter() {
                    let _ = o.send_to(b"o", to);
                }
                for _ in 0..180 {
                    let _ = u.send_to(b"x", to);
                }
                tokio::time::sleep(std::time::Duration::from_millis(300)).await;
                held.std_udp.push(u);
                held.std_udp.extend(others);
            }
            sw.upstream_mute.store(false, std::sync::atomic::Ordering::SeqCst);
        }
        other => panic!("unknown stall stage {}", other),
    }
}

pub const STAGES: &[&str] = &[
    "none",
    "http-0",
    "http-partial-request",
    "socks-partial-request",
    "https-tls-0",
    "https-tls-partial-hello",
    "https-tls-hello-only",
    "https-tls-done-0",
    "https-tls-done-partial-request",
    "sockss-tls-0",
    "sockss-tls-partial-hello",
    "sockss-tls-hello-only",
    "sockss-tls-done-0",
    "sockss-tls-done-partial-request",
    "quic-garbage-datagram",
    "quic-connection-no-stream",
    "quic-stream-partial-request",
    "quic-initial-only",
    "rudp-flood-into-stalled-upstream",
    "rudp-burst-while-upstream-dials",
];

/// every stage: three stalled clients of that kind (they stay for the rest of the run), then a fresh client per listener
pub async fn stall_matrix(out: &mut Out, property_hint: &str) {
    stall_matrix_api(out, property_hint, false).await
}

async fn api_get(port: u16, path: &str) -> bool {
    let fut = async {
        let mut s = TcpStream::connect(("127.0.0.1", port)).await.ok()?;
        s.write_all(format!("GET {} HTTP/1.1\r\nHost: x\r\nConnection: close\r\n\r\n", path).as_bytes()).await.ok()?;
        let mut v = vec![];
        s.read_to_end(&mut v).await.ok()?;
        Some(v.starts_with(b"HTTP/1.1 200"))
    };
    tokio::time::timeout(std::time::Duration::from_secs(2), fut).await.ok().flatten().unwrap_or(false)
}

/// with_api: also probe the management API (GET status / live / history / rules / metrics) at every stage
pub async fn stall_matrix_api(out: &mut Out, property_hint: &str, with_api: bool) {
    let (sw, api) = setup_with_api(with_api).await;
    let mut held = Held::default();
    for stage in STAGES {
        for _ in 0..(if stage.starts_with("rudp") { 1 } else { 3 }) {
            stall_one(&sw, stage, &mut held).await;
        }
        tokio::time::sleep(std::time::Duration::from_millis(150)).await;
        let (a, b, c, d, e, f) = tokio::join!(
            fresh_tcp(sw.http, false, false, sw.origin),
            fresh_tcp(sw.https, true, false, sw.origin),
            fresh_tcp(sw.socks, false, true, sw.origin),
            fresh_tcp(sw.sockss, true, true, sw.origin),
            fresh_quic(sw.quic, sw.origin),
            fresh_rudp(sw.rudp)
        );
        let bits: String = [a, b, c, d, e, f].iter().map(|x| if *x { '1' } else { '0' }).collect();
        let mut api_s = String::new();
        if let Some(api) = api {
            let mut abits = String::new();
            let mut bad = vec![];
            for path in ["/api/status", "/api/live", "/api/history", "/api/rules", "/api/metrics"] {
                let ok = api_get(api, path).await;
                abits.push(if ok { '1' } else { '0' });
                if !ok {
                    bad.push(path);
                }
            }
            if !bad.is_empty() {
                out.oracle_fail("api-blocked", &format!("{}: with clients stalled at stage `{}` (and all earlier stages), no answer within 2 s from GET {}", property_hint, stage, bad.join(", ")));
            }
            api_s = format!(" api={}", abits);
        }
        out.case(&format!("ST {}", stage), &format!("served={}{}", bits, api_s));
        out.stat("stall_stages");
        if bits != "111111" {
            let names = ["http", "http+tls", "socks", "socks+tls", "quic", "reverse-udp"];
            let bad: Vec<&str> = names.iter().zip([a, b, c, d, e, f]).filter(|(_, ok)| !ok).map(|(n, _)| *n).collect();
            out.oracle_fail(
                "stalled-client-blocks-others",
                &format!("{}: with three clients stalled at stage `{}`, a fresh client of listener(s) {} was not served within {} ms", property_hint, stage, bad.join(", "), FRESH_MS),
            );
        }
    }
    for t in held.tasks.drain(..) {
        t.abort();
    }
    drop(held);
}
