// Shared operations on the real codecs (SOCKS, HTTP head, RPFM frames, SOCKS-UDP header, TargetAddress
// text form), each returning a canonical one-line result.  Used by the c03 / c05 / c12 modes.
//
// case line formats (fields separated by one space; byte strings in hex, `-` = empty; segs = hex,hex,..):
//   SREQ <required 0|1> <segs>                 SocksRequest::read_from(PasswordAuth{required})
//   SRESP <segs>                               SocksResponse::read_from
//   HREQ <segs> / HRESP <segs>                 HttpRequest::read_from / HttpResponse::read_from
//   WSREQ <ver> <cmd> <addr> <auth> <segs>     SocksRequest::write_to(PasswordAuth::optional()); segs = peer's replies
//   WSRESP <ver> <cmd> <addr>                  SocksResponse::write_to
//   H11C <feature t|u|b> <addr> <segs> tbl=..  h11c_connect on a fresh context (segs = upstream's reply)
//   HHS <segs> tbl=..                          h11c_handshake on a fresh context
//   ADDRPARSE <hex> tbl=.. / ADDRSHOW <addr> tbl=..
//   FBUF <hex> / FHEAD <hex> / FSER <sid> <addr> <bodyhex> / FSTREAM <segs>
//   UDEC <hex> / UENC <addr> <bodyhex>
// addr: D:<hosthex>:<port> | 4:<u32>:<port> | 6:<32 hex digits>:<port> | U (unknown) | N (none)
// auth: N | <userhex>/<passhex>
use super::util::*;
use crate::common::frames::{frames_from_stream, Frame};
use crate::common::http::{HttpRequest, HttpResponse};
use crate::common::socks::frames::{decode_socks_frame, encode_socks_frame};
use crate::common::socks::{PasswordAuth, SocksRequest, SocksResponse};
use crate::context::{make_buffered_stream, Feature, IOBufStream, TargetAddress};
use bytes::Bytes;
use futures::FutureExt;
use std::collections::VecDeque;
use std::net::{Ipv4Addr, Ipv6Addr, SocketAddr, SocketAddrV4, SocketAddrV6};
use std::pin::Pin;
use std::sync::{Arc, Mutex};
use std::task::{Context as TaskCx, Poll};
use tokio::io::{AsyncRead, AsyncWrite, ReadBuf};

// ------------------------------------------------------------------ scripted stream

#[derive(Default)]
pub struct Rec {
    pub written: Vec<u8>,
    pub writes: Vec<usize>,
    pub flushes: usize,
    pub shutdown: bool,
    pub unread: VecDeque<Vec<u8>>,
}

pub struct Scripted {
    pub rec: Arc<Mutex<Rec>>,
}

impl Scripted {
    pub fn new(segs: &[Vec<u8>]) -> (Self, Arc<Mutex<Rec>>) {
        let rec = Arc::new(Mutex::new(Rec {
            unread: segs.iter().filter(|s| !s.is_empty()).cloned().collect(),
            ..Default::default()
        }));
        (Scripted { rec: rec.clone() }, rec)
    }
}

impl AsyncRead for Scripted {
    fn poll_read(self: Pin<&mut Self>, _cx: &mut TaskCx<'_>, buf: &mut ReadBuf<'_>) -> Poll<std::io::Result<()>> {
        let mut r = self.rec.lock().unwrap();
        if let Some(mut seg) = r.unread.pop_front() {
            let n = seg.len().min(buf.remaining());
            buf.put_slice(&seg[..n]);
            if n < seg.len() {
                seg.drain(..n);
                r.unread.push_front(seg);
            }
        }
        Poll::Ready(Ok(()))
    }
}

impl AsyncWrite for Scripted {
    fn poll_write(self: Pin<&mut Self>, _cx: &mut TaskCx<'_>, buf: &[u8]) -> Poll<std::io::Result<usize>> {
        let mut r = self.rec.lock().unwrap();
        r.written.extend_from_slice(buf);
        r.writes.push(buf.len());
        Poll::Ready(Ok(buf.len()))
    }
    fn poll_flush(self: Pin<&mut Self>, _cx: &mut TaskCx<'_>) -> Poll<std::io::Result<()>> {
        self.rec.lock().unwrap().flushes += 1;
        Poll::Ready(Ok(()))
    }
    fn poll_shutdown(self: Pin<&mut Self>, _cx: &mut TaskCx<'_>) -> Poll<std::io::Result<()>> {
        self.rec.lock().unwrap().shutdown = true;
        Poll::Ready(Ok(()))
    }
}

pub fn buffered(segs: &[Vec<u8>]) -> (IOBufStream, Arc<Mutex<Rec>>) {
    let (s, rec) = Scripted::new(segs);
    (make_buffered_stream(s), rec)
}

/// bytes not consumed by the decoder: BufReader read-ahead + what the script still holds
pub fn leftover(s: &IOBufStream, rec: &Arc<Mutex<Rec>>) -> Vec<u8> {
    let mut v = s.buffer().to_vec();
    for seg in rec.lock().unwrap().unread.iter() {
        v.extend_from_slice(seg);
    }
    v
}

/// w=<bytes that reached the wire>/<bytes still in the BufWriter>
pub fn wstate(s: &IOBufStream, rec: &Arc<Mutex<Rec>>) -> String {
    format!("w={}/{}", hex(&rec.lock().unwrap().written), hex(s.get_ref().buffer()))
}

// ------------------------------------------------------------------ canonical forms

pub fn addr_s(a: &TargetAddress) -> String {
    match a {
        TargetAddress::DomainPort(h, p) => format!("D:{}:{}", hex(h.as_bytes()), p),
        TargetAddress::SocketAddr(SocketAddr::V4(a)) => format!("4:{}:{}", u32::from(*a.ip()), a.port()),
        TargetAddress::SocketAddr(SocketAddr::V6(a)) => format!("6:{}:{}", hex(&a.ip().octets()), a.port()),
        TargetAddress::Unknown => "U".into(),
    }
}

pub fn addr_opt_s(a: &Option<TargetAddress>) -> String {
    a.as_ref().map(addr_s).unwrap_or_else(|| "N".into())
}

pub fn parse_addr(s: &str) -> Option<TargetAddress> {
    let p: Vec<&str> = s.split(':').collect();
    match p[0] {
        "D" => Some(TargetAddress::DomainPort(String::from_utf8(unhex(p[1])).ok()?, p[2].parse().ok()?)),
        "4" => Some((p[1].parse::<u32>().ok()?, p[2].parse::<u16>().ok()?).into()),
        "6" => {
            let b = unhex(p[1]);
            let mut o = [0u8; 16];
            o.copy_from_slice(&b);
            Some((o, p[2].parse::<u16>().ok()?).into())
        }
        "U" => Some(TargetAddress::Unknown),
        _ => None,
    }
}

pub fn auth_s(a: &Option<(String, String)>) -> String {
    match a {
        None => "N".into(),
        Some((u, p)) => format!("{}/{}", hex(u.as_bytes()), hex(p.as_bytes())),
    }
}

pub fn segs_s(segs: &[Vec<u8>]) -> String {
    if segs.is_empty() {
        return "-".into();
    }
    segs.iter().map(|s| hex(s)).collect::<Vec<_>>().join(",")
}

pub fn headers_s(h: &[(String, String)]) -> String {
    if h.is_empty() {
        return "-".into();
    }
    h.iter()
        .map(|(k, v)| format!("{}={}", hex(k.as_bytes()), hex(v.as_bytes())))
        .collect::<Vec<_>>()
        .join(";")
}

/// the std text form of every IPv6 socket address a case mentions: `tbl=<texthex>=<iphex>:<port>;..`
pub fn tbl_s(addrs: &[TargetAddress], texts: &[Vec<u8>]) -> String {
    let mut es: Vec<String> = vec![];
    let mut push = |a: &SocketAddrV6, text: String| {
        let e = format!("{}={}:{}", hex(text.as_bytes()), hex(&a.ip().octets()), a.port());
        if !es.contains(&e) {
            es.push(e);
        }
    };
    for a in addrs {
        if let TargetAddress::SocketAddr(SocketAddr::V6(a)) = a {
            push(a, SocketAddr::V6(*a).to_string());
        }
    }
    for t in texts {
        if let Ok(s) = std::str::from_utf8(t) {
            if let Ok(SocketAddr::V6(a)) = s.parse::<SocketAddr>() {
                // only plain addresses (no flowinfo / scope) are representable in TargetAddress text
                push(&a, s.to_string());
            }
        }
    }
    if es.is_empty() {
        "tbl=-".into()
    } else {
        format!("tbl={}", es.join(";"))
    }
}

async fn guarded<F: std::future::Future<Output = String>>(f: F) -> String {
    match std::panic::AssertUnwindSafe(f).catch_unwind().await {
        Ok(s) => s,
        Err(_) => "panic".into(),
    }
}

// ------------------------------------------------------------------ operations
// every op returns (case line, impl output)

pub async fn op_sreq(required: bool, segs: &[Vec<u8>]) -> (String, String, Option<SocksRequest<Option<(String, String)>>>) {
    let case = format!("SREQ {} {}", required as u8, segs_s(segs));
    let (mut s, rec) = buffered(segs);
    let mut parsed = None;
    let out = guarded(async {
        match SocksRequest::read_from(&mut s, PasswordAuth { required }).await {
            Ok(r) => {
                let o = format!(
                    "ok v={} cmd={} t={} auth={} rest={} {}",
                    r.version,
                    r.cmd,
                    addr_s(&r.target),
                    auth_s(&r.auth),
                    hex(&leftover(&s, &rec)),
                    wstate(&s, &rec)
                );
                parsed = Some(r);
                o
            }
            Err(_) => format!("err {}", wstate(&s, &rec)),
        }
    })
    .await;
    (case, out, parsed)
}

pub async fn op_sresp(segs: &[Vec<u8>]) -> (String, String, Option<SocksResponse>) {
    let case = format!("SRESP {}", segs_s(segs));
    let (mut s, rec) = buffered(segs);
    let mut parsed = None;
    let out = guarded(async {
        match SocksResponse::read_from(&mut s).await {
            Ok(r) => {
                let o = format!("ok v={} cmd={} t={} rest={}", r.version, r.cmd, addr_s(&r.target), hex(&leftover(&s, &rec)));
                parsed = Some(r);
                o
            }
            Err(_) => "err".to_string(),
        }
    })
    .await;
    (case, out, parsed)
}

pub async fn op_hreq(segs: &[Vec<u8>], tbl: &str) -> (String, String, Option<HttpRequest>) {
    let case = format!("HREQ {} {}", segs_s(segs), tbl);
    let (mut s, rec) = buffered(segs);
    let mut parsed = None;
    let out = guarded(async {
        match HttpRequest::read_from(&mut s).await {
            Ok(r) => {
                let o = format!(
                    "ok m={} r={} v={} h={} rest={}",
                    hex(r.method.as_bytes()),
                    hex(r.resource.as_bytes()),
                    hex(r.version.as_bytes()),
                    headers_s(&r.headers),
                    hex(&leftover(&s, &rec))
                );
                parsed = Some(r);
                o
            }
            Err(_) => "err".to_string(),
        }
    })
    .await;
    (case, out, parsed)
}

pub async fn op_hresp(segs: &[Vec<u8>]) -> (String, String, Option<HttpResponse>) {
    let case = format!("HRESP {}", segs_s(segs));
    let (mut s, rec) = buffered(segs);
    let mut parsed = None;
    let out = guarded(async {
        match HttpResponse::read_from(&mut s).await {
            Ok(r) => {
                let o = format!(
                    "ok v={} c={} s={} h={} rest={}",
                    hex(r.version.as_bytes()),
                    r.code,
                    hex(r.status.as_bytes()),
                    headers_s(&r.headers),
                    hex(&leftover(&s, &rec))
                );
                parsed = Some(r);
                o
            }
            Err(_) => "err".to_string(),
        }
    })
    .await;
    (case, out, parsed)
}

/// returns also the bytes that reached the wire when the writer reported success
pub async fn op_wsreq(version: u8, cmd: u8, target: &TargetAddress, auth: &Option<(String, String)>, segs: &[Vec<u8>]) -> (String, String, Option<Vec<u8>>) {
    let case = format!("WSREQ {} {} {} {} {}", version, cmd, addr_s(target), auth_s(auth), segs_s(segs));
    let (mut s, rec) = buffered(segs);
    let req = SocksRequest {
        version,
        cmd,
        target: target.clone(),
        auth: auth.clone(),
    };
    let mut wire = None;
    let out = guarded(async {
        match req.write_to(&mut s, PasswordAuth::optional()).await {
            Ok(()) => {
                wire = Some(rec.lock().unwrap().written.clone());
                format!("ok {} rest={}", wstate(&s, &rec), hex(&leftover(&s, &rec)))
            }
            Err(_) => format!("err {}", wstate(&s, &rec)),
        }
    })
    .await;
    (case, out, wire)
}

pub async fn op_wsresp(version: u8, cmd: u8, target: &TargetAddress) -> (String, String, Option<Vec<u8>>) {
    let case = format!("WSRESP {} {} {}", version, cmd, addr_s(target));
    let (mut s, rec) = buffered(&[]);
    let resp = SocksResponse {
        version,
        cmd,
        target: target.clone(),
    };
    let mut wire = None;
    let out = guarded(async {
        match resp.write_to(&mut s).await {
            Ok(()) => {
                wire = Some(rec.lock().unwrap().written.clone());
                format!("ok {}", wstate(&s, &rec))
            }
            Err(_) => format!("err {}", wstate(&s, &rec)),
        }
    })
    .await;
    (case, out, wire)
}

pub fn feature_of(c: char) -> Feature {
    match c {
        't' => Feature::TcpForward,
        'u' => Feature::UdpForward,
        _ => Feature::UdpBind,
    }
}

/// h11c_connect on a fresh context whose target/feature are set; segs = the upstream's reply bytes
pub async fn op_h11c(fc: char, target: &TargetAddress, segs: &[Vec<u8>]) -> (String, String, Option<Vec<u8>>) {
    let tbl = tbl_s(&[target.clone()], &[]);
    let case = format!("H11C {} {} {} {}", fc, addr_s(target), segs_s(segs), tbl);
    let contexts: Arc<crate::context::GlobalState> = Default::default();
    let ctx = contexts.create_context("l".into(), "127.0.0.1:1".parse().unwrap()).await;
    ctx.write().await.set_target(target.clone()).set_feature(feature_of(fc));
    if fc == 'b' {
        ctx.write().await.set_extra("udp-bind-source", "1.2.3.4:5");
    }
    let (s, rec) = buffered(segs);
    let mut wire = None;
    let rec2 = rec.clone();
    let ctx2 = ctx.clone();
    let out = guarded(async {
        let local: SocketAddr = "127.0.0.1:2".parse().unwrap();
        let remote: SocketAddr = "127.0.0.1:3".parse().unwrap();
        let r = crate::common::h11c::h11c_connect(s, ctx2, local, remote, "inline", |_| async { panic!("not supported") }).await;
        let written = rec2.lock().unwrap().written.clone();
        match r {
            Ok(()) => {
                wire = Some(written.clone());
                format!("ok w={}", hex(&written))
            }
            Err(_) => format!("err w={}", hex(&written)),
        }
    })
    .await;
    (case, out, wire)
}

async fn read_all_frames(r: &mut Box<dyn crate::common::frames::FrameReader>) -> String {
    let mut o = String::new();
    let mut n = 0;
    loop {
        match r.read().await {
            Ok(Some(f)) => {
                o.push_str(&format!("[{}] ", frame_s(&f)));
                n += 1;
                if n > 1000 {
                    o.push_str("toomany");
                    return o;
                }
            }
            Ok(None) => {
                o.push_str("eof");
                return o;
            }
            Err(_) => {
                o.push_str("err");
                return o;
            }
        }
    }
}

/// connector side of UDP over CONNECT with the inline channel: h11c_connect, then every frame the upstream sent
/// (segs = response head followed by RPFM frames)
pub async fn op_h11cf(target: &TargetAddress, segs: &[Vec<u8>]) -> (String, String) {
    let tbl = tbl_s(&[target.clone()], &[]);
    let case = format!("H11CF {} {} {}", addr_s(target), segs_s(segs), tbl);
    let contexts: Arc<crate::context::GlobalState> = Default::default();
    let ctx = contexts.create_context("l".into(), "127.0.0.1:1".parse().unwrap()).await;
    ctx.write().await.set_target(target.clone()).set_feature(Feature::UdpForward);
    let (s, _rec) = buffered(segs);
    let out = guarded(async {
        let local: SocketAddr = "127.0.0.1:2".parse().unwrap();
        let remote: SocketAddr = "127.0.0.1:3".parse().unwrap();
        match crate::common::h11c::h11c_connect(s, ctx.clone(), local, remote, "inline", |_| async { panic!("not supported") }).await {
            Ok(()) => {
                let (dummy, _r) = buffered(&[]);
                ctx.write().await.set_client_frames(frames_from_stream(0, dummy));
                let (_c, (mut r, _w)) = ctx.write().await.take_frames().unwrap();
                format!("ok {}", read_all_frames(&mut r).await)
            }
            Err(_) => "err".to_string(),
        }
    })
    .await;
    (case, out)
}

/// listener side: h11c_handshake on a UDP / inline CONNECT head followed by RPFM frames, the success callback, then
/// every frame the client sent
pub async fn op_hhsf(segs: &[Vec<u8>]) -> (String, String) {
    let tbl = tbl_for_head(segs);
    let case = format!("HHSF {} {}", segs_s(segs), tbl);
    let contexts: Arc<crate::context::GlobalState> = Default::default();
    let ctx = contexts.create_context("l".into(), "127.0.0.1:1".parse().unwrap()).await;
    let (s, _rec) = buffered(segs);
    ctx.write().await.set_client_stream(s);
    let (tx, mut rx) = tokio::sync::mpsc::channel(4);
    let out = guarded(async {
        let r = crate::common::h11c::h11c_handshake(ctx.clone(), tx, |_, _| async { Err(easy_error::err_msg("no frames")) }).await;
        if r.is_err() || rx.try_recv().is_err() {
            return "err".to_string();
        }
        if ctx.read().await.feature() == Feature::TcpForward {
            return "tcp".to_string();
        }
        use crate::context::ContextRefOps;
        ctx.on_connect().await;
        let (dummy, _r) = buffered(&[]);
        ctx.write().await.set_server_frames(frames_from_stream(0, dummy));
        match ctx.write().await.take_frames() {
            Some(((mut r, _w), _s)) => format!("ok {}", read_all_frames(&mut r).await),
            None => "noframes".to_string(),
        }
    })
    .await;
    (case, out)
}

pub struct HsResult {
    pub enqueued: bool,
    pub target: TargetAddress,
    pub feature: Feature,
}

/// h11c_handshake on a fresh context; reports what was enqueued and what the client was sent
/// the table entry for the resource of a request head, if std reads it as an IPv6 socket address
pub fn tbl_for_head(segs: &[Vec<u8>]) -> String {
    let all: Vec<u8> = segs.concat();
    let line = all.split(|b| *b == b'\n').next().unwrap_or(&[]);
    let toks: Vec<&[u8]> = line
        .split(|b| matches!(*b, b' ' | b'\t' | b'\r' | 0x0c | b'\n'))
        .filter(|t| !t.is_empty())
        .collect();
    if toks.len() >= 2 {
        tbl_s(&[], &[toks[1].to_vec()])
    } else {
        "tbl=-".into()
    }
}

pub async fn op_hhs(segs: &[Vec<u8>], _tbl: &str) -> (String, String, Option<HsResult>) {
    let tbl = tbl_for_head(segs);
    let case = format!("HHS {} {}", segs_s(segs), tbl);
    let contexts: Arc<crate::context::GlobalState> = Default::default();
    let ctx = contexts.create_context("l".into(), "127.0.0.1:1".parse().unwrap()).await;
    let (s, rec) = buffered(segs);
    ctx.write().await.set_client_stream(s);
    let (tx, mut rx) = tokio::sync::mpsc::channel(4);
    let mut res = None;
    let ctx2 = ctx.clone();
    let out = guarded(async {
        let r = crate::common::h11c::h11c_handshake(ctx2.clone(), tx, |_, _| async { Err(easy_error::err_msg("no frames")) }).await;
        let written = rec.lock().unwrap().written.clone();
        let enq = rx.try_recv().is_ok();
        let c = ctx2.read().await;
        let (t, f) = (c.target(), c.feature());
        let bind = c.extra("udp-bind-source").unwrap_or("").to_string();
        let o = format!(
            "{} enq={} t={} f={:?} bind={} w={}",
            if r.is_ok() { "ok" } else { "err" },
            enq as u8,
            if enq { addr_s(&t) } else { "-".into() },
            f,
            hex(bind.as_bytes()),
            hex(&written)
        );
        res = Some(HsResult {
            enqueued: enq,
            target: t,
            feature: f,
        });
        o
    })
    .await;
    (case, out, res)
}

pub fn op_addrparse(text: &[u8]) -> (String, String, Option<TargetAddress>) {
    let tbl = tbl_s(&[], &[text.to_vec()]);
    let case = format!("ADDRPARSE {} {}", hex(text), tbl);
    let r = match std::str::from_utf8(text) {
        Ok(s) => no_panic(|| s.parse::<TargetAddress>().ok()),
        Err(_) => Some(None),
    };
    match r {
        None => (case, "panic".into(), None),
        Some(None) => (case, "err".into(), None),
        Some(Some(a)) => (case, format!("ok {}", addr_s(&a)), Some(a)),
    }
}

pub fn op_addrshow(a: &TargetAddress) -> (String, String, Vec<u8>) {
    let tbl = tbl_s(&[a.clone()], &[]);
    let case = format!("ADDRSHOW {} {}", addr_s(a), tbl);
    let t = a.to_string().into_bytes();
    (case, format!("ok {}", hex(&t)), t)
}

pub fn frame_s(f: &Frame) -> String {
    format!("sid={} a={} b={}", f.session_id, addr_opt_s(&f.addr), hex(&f.body))
}

pub fn op_fbuf(buf: &[u8]) -> (String, String, Option<Frame>) {
    let case = format!("FBUF {}", hex(buf));
    let b = Bytes::copy_from_slice(buf);
    match no_panic(|| Frame::from_buffer(b)) {
        None => (case, "panic".into(), None),
        Some(Err(_)) => (case, "err".into(), None),
        Some(Ok(f)) => (case, format!("ok {}", frame_s(&f)), Some(f)),
    }
}

pub fn op_fhead(buf: &[u8]) -> (String, String) {
    let case = format!("FHEAD {}", hex(buf));
    let b = Bytes::copy_from_slice(buf);
    match no_panic(|| Frame::read_head(b)) {
        None => (case, "panic".into()),
        Some(Err(_)) => (case, "err".into()),
        Some(Ok(None)) => (case, "ok none".into()),
        Some(Ok(Some(n))) => (case, format!("ok {}", n)),
    }
}

pub fn mk_frame(sid: u32, addr: Option<TargetAddress>, body: &[u8]) -> Frame {
    let mut f = Frame::from_body(Bytes::copy_from_slice(body));
    f.session_id = sid;
    f.addr = addr;
    f
}

/// Frame::write_to into a plain buffer
pub async fn op_fser(sid: u32, addr: &Option<TargetAddress>, body: &[u8]) -> (String, String, Option<Vec<u8>>) {
    let case = format!("FSER {} {} {}", sid, addr_opt_s(addr), hex(body));
    let f = mk_frame(sid, addr.clone(), body);
    let mut wire = None;
    let out = guarded(async {
        let mut v: Vec<u8> = vec![];
        match f.write_to(&mut v).await {
            Ok(_) => {
                wire = Some(v.clone());
                format!("ok {}", hex(&v))
            }
            Err(_) => "err".to_string(),
        }
    })
    .await;
    (case, out, wire)
}

/// frames_from_stream(..).0.read() until end of stream or error
pub async fn op_fstream(segs: &[Vec<u8>]) -> (String, String, Vec<Frame>) {
    let case = format!("FSTREAM {}", segs_s(segs));
    let (s, _rec) = buffered(segs);
    let mut frames = vec![];
    let out = guarded(async {
        let (mut r, _w) = frames_from_stream(0, s);
        let mut o = String::new();
        loop {
            match r.read().await {
                Ok(Some(f)) => {
                    o.push_str(&format!("[{}] ", frame_s(&f)));
                    frames.push(f);
                    if frames.len() > 1000 {
                        o.push_str("toomany");
                        break;
                    }
                }
                Ok(None) => {
                    o.push_str("eof");
                    break;
                }
                Err(_) => {
                    o.push_str("err");
                    break;
                }
            }
        }
        o
    })
    .await;
    (case, out, frames)
}

pub fn op_udec(buf: &[u8]) -> (String, String, Option<Frame>) {
    let case = format!("UDEC {}", hex(buf));
    let f = Frame::from_body(Bytes::copy_from_slice(buf));
    match no_panic(|| decode_socks_frame(f)) {
        None => (case, "panic".into(), None),
        Some(Err(_)) => (case, "err".into(), None),
        Some(Ok(f)) => (case, format!("ok a={} b={}", addr_opt_s(&f.addr), hex(&f.body)), Some(f)),
    }
}

pub fn op_uenc(addr: &Option<TargetAddress>, body: &[u8]) -> (String, String, Option<Vec<u8>>) {
    let case = format!("UENC {} {}", addr_opt_s(addr), hex(body));
    let f = mk_frame(0, addr.clone(), body);
    match no_panic(|| encode_socks_frame(f)) {
        None => (case, "panic".into(), None),
        Some(Err(_)) => (case, "err".into(), None),
        Some(Ok(b)) => (case, format!("ok {}", hex(&b)), Some(b.to_vec())),
    }
}

// ------------------------------------------------------------------ generators shared by the modes

pub fn v4(ip: u32, port: u16) -> TargetAddress {
    (ip, port).into()
}
pub fn v6(ip: [u8; 16], port: u16) -> TargetAddress {
    (ip, port).into()
}

pub fn gen_port(rng: &mut Rng) -> u16 {
    match rng.below(8) {
        0 => 0,
        1 => 1,
        2 => 53,
        3 => 80,
        4 => 443,
        5 => 65535,
        _ => rng.next() as u16,
    }
}

pub fn gen_ip(rng: &mut Rng) -> TargetAddress {
    let port = gen_port(rng);
    if rng.chance(1, 2) {
        let ip = match rng.below(6) {
            0 => 0,
            1 => 1,
            2 => 0xff,
            3 => 0x100,
            4 => 0x7f000001,
            _ => rng.next() as u32,
        };
        v4(ip, port)
    } else {
        let mut o = [0u8; 16];
        match rng.below(6) {
            0 => {}
            1 => o[15] = 1,
            2 => {
                o[10] = 0xff;
                o[11] = 0xff;
                o[12..].copy_from_slice(&(rng.next() as u32).to_be_bytes());
            }
            3 => {
                o[12..].copy_from_slice(&(rng.next() as u32).to_be_bytes());
            }
            4 => {
                let b = rng.bytes(16);
                o.copy_from_slice(&b);
                // zero runs, to exercise the compressed text form
                let a = rng.below(8) * 2;
                let n = rng.below(8 - a / 2 + 1) * 2;
                for i in a..(a + n).min(16) {
                    o[i] = 0;
                }
            }
            _ => {
                let b = rng.bytes(16);
                o.copy_from_slice(&b);
            }
        }
        v6(o, port)
    }
}

/// host names as byte strings of a given class; always valid UTF-8 unless `invalid`
pub fn gen_host(rng: &mut Rng, len: usize, class: usize) -> String {
    const ALNUM: &[u8] = b"abcdefghijklmnopqrstuvwxyz0123456789-";
    let mut s = String::new();
    while s.len() < len {
        let c: char = match class {
            0 => *rng.pick(ALNUM) as char,
            1 => *rng.pick(b"ab.:[]1") as char,
            2 => *rng.pick(&[' ', '\r', '\n', '\t', 'a', 'b', '\x7f', '\x0b', '\x0c']),
            3 => *rng.pick(&['\0', 'a', 'b', '.']),
            4 => *rng.pick(&['é', 'ß', '中', '😀', 'a', '\u{a0}', '\u{2028}', '\u{85}', '\u{3000}']),
            _ => {
                if rng.chance(1, 8) {
                    *rng.pick(&[' ', ':', '\0', '\n', 'é', '.', '[', ']', '+', '\r'])
                } else {
                    *rng.pick(ALNUM) as char
                }
            }
        };
        if s.len() + c.len_utf8() <= len {
            s.push(c);
        } else {
            s.push('a');
        }
    }
    s
}

pub fn gen_domain(rng: &mut Rng) -> TargetAddress {
    let len = match rng.below(10) {
        0 => 0,
        1 => 1,
        2 => 3,
        3 => *rng.pick(&[253usize, 254, 255, 256, 300]),
        _ => rng.range(1, 40),
    };
    let class = rng.below(6);
    let mut h = gen_host(rng, len, class);
    if rng.chance(1, 12) {
        h = match rng.below(4) {
            0 => "1.2.3.4".into(),
            1 => "[::1]".into(),
            2 => "example.com:80".into(),
            _ => "01.2.3.4".into(),
        };
    }
    TargetAddress::DomainPort(h, gen_port(rng))
}

pub fn gen_target(rng: &mut Rng) -> TargetAddress {
    if rng.chance(2, 5) {
        gen_ip(rng)
    } else {
        gen_domain(rng)
    }
}

/// cut a byte string into segments at a random cut set
pub fn random_cuts(rng: &mut Rng, b: &[u8]) -> Vec<Vec<u8>> {
    if b.is_empty() {
        return vec![];
    }
    let style = rng.below(5);
    let mut segs = vec![];
    let mut cur = vec![];
    for (i, x) in b.iter().enumerate() {
        cur.push(*x);
        let cut = match style {
            0 => true,                     // one byte at a time
            1 => false,                    // single segment
            2 => rng.chance(1, 2),
            3 => rng.chance(1, 8),
            _ => i % 7 == 6,
        };
        if cut {
            segs.push(std::mem::take(&mut cur));
        }
    }
    if !cur.is_empty() {
        segs.push(cur);
    }
    segs
}

/// all 2^(n-1) segmentations of a short byte string
pub fn all_cuts(b: &[u8]) -> Vec<Vec<Vec<u8>>> {
    let n = b.len();
    if n == 0 {
        return vec![vec![]];
    }
    let mut res = vec![];
    for mask in 0..(1u32 << (n - 1)) {
        let mut segs = vec![];
        let mut cur = vec![b[0]];
        for i in 1..n {
            if mask & (1 << (i - 1)) != 0 {
                segs.push(std::mem::take(&mut cur));
            }
            cur.push(b[i]);
        }
        segs.push(cur);
        res.push(segs);
    }
    res
}

// ------------------------------------------------------------------ independent message builders
// (written from the protocol definitions, not by calling the code under test)

pub fn addr_socks5(t: &TargetAddress) -> Vec<u8> {
    let mut v = vec![];
    match t {
        TargetAddress::DomainPort(h, p) => {
            v.push(3);
            v.push(h.len() as u8);
            v.extend_from_slice(h.as_bytes());
            v.extend_from_slice(&p.to_be_bytes());
        }
        TargetAddress::SocketAddr(SocketAddr::V4(a)) => {
            v.push(1);
            v.extend_from_slice(&a.ip().octets());
            v.extend_from_slice(&a.port().to_be_bytes());
        }
        TargetAddress::SocketAddr(SocketAddr::V6(a)) => {
            v.push(4);
            v.extend_from_slice(&a.ip().octets());
            v.extend_from_slice(&a.port().to_be_bytes());
        }
        _ => {}
    }
    v
}

pub fn socks5_req_bytes(methods: &[u8], userpass: Option<(&[u8], &[u8])>, ver: u8, cmd: u8, target: &TargetAddress) -> Vec<u8> {
    let mut v = vec![5, methods.len() as u8];
    v.extend_from_slice(methods);
    if let Some((u, p)) = userpass {
        v.push(1);
        v.push(u.len() as u8);
        v.extend_from_slice(u);
        v.push(p.len() as u8);
        v.extend_from_slice(p);
    }
    v.extend_from_slice(&[ver, cmd, 0]);
    v.extend_from_slice(&addr_socks5(target));
    v
}

pub fn socks4_req_bytes(cmd: u8, target: &TargetAddress, userid: &[u8]) -> Vec<u8> {
    let mut v = vec![4, cmd];
    match target {
        TargetAddress::DomainPort(h, p) => {
            v.extend_from_slice(&p.to_be_bytes());
            v.extend_from_slice(&[0, 0, 0, 1]);
            v.extend_from_slice(userid);
            v.push(0);
            v.extend_from_slice(h.as_bytes());
            v.push(0);
        }
        TargetAddress::SocketAddr(SocketAddr::V4(a)) => {
            v.extend_from_slice(&a.port().to_be_bytes());
            v.extend_from_slice(&a.ip().octets());
            v.extend_from_slice(userid);
            v.push(0);
        }
        _ => {}
    }
    v
}

pub fn socks_resp_bytes(ver: u8, code: u8, target: &TargetAddress) -> Vec<u8> {
    if ver == 4 {
        let mut v = vec![0, code];
        if let TargetAddress::SocketAddr(SocketAddr::V4(a)) = target {
            v.extend_from_slice(&a.port().to_be_bytes());
            v.extend_from_slice(&a.ip().octets());
        } else {
            v.extend_from_slice(&[0, 0, 0, 0, 0, 0]);
        }
        v
    } else {
        let mut v = vec![5, code, 0];
        v.extend_from_slice(&addr_socks5(target));
        v
    }
}

pub fn http_head_bytes(first: &str, headers: &[(String, String)]) -> Vec<u8> {
    let mut s = String::new();
    s.push_str(first);
    s.push_str("\r\n");
    for (k, v) in headers {
        s.push_str(&format!("{}: {}\r\n", k, v));
    }
    s.push_str("\r\n");
    s.into_bytes()
}

pub fn rpfm_bytes(sid: u32, addr: &Option<TargetAddress>, body: &[u8]) -> Vec<u8> {
    let mut attr = vec![];
    match addr {
        Some(TargetAddress::DomainPort(h, p)) => {
            attr.push(3);
            attr.push((h.len() + 2) as u8);
            attr.extend_from_slice(h.as_bytes());
            attr.extend_from_slice(&p.to_be_bytes());
        }
        Some(TargetAddress::SocketAddr(SocketAddr::V4(a))) => {
            attr.extend_from_slice(&[1, 6]);
            attr.extend_from_slice(&a.ip().octets());
            attr.extend_from_slice(&a.port().to_be_bytes());
        }
        Some(TargetAddress::SocketAddr(SocketAddr::V6(a))) => {
            attr.extend_from_slice(&[2, 18]);
            attr.extend_from_slice(&a.ip().octets());
            attr.extend_from_slice(&a.port().to_be_bytes());
        }
        _ => {}
    }
    let mut v = b"RPFM".to_vec();
    v.extend_from_slice(&sid.to_be_bytes());
    v.extend_from_slice(&(attr.len() as u16).to_be_bytes());
    v.extend_from_slice(&(body.len() as u16).to_be_bytes());
    v.extend_from_slice(&attr);
    v.extend_from_slice(body);
    v
}

/// a target every codec can carry (host 1..=40 plain characters, or an IP)
pub fn gen_plain_target(rng: &mut Rng) -> TargetAddress {
    if rng.chance(1, 2) {
        gen_ip(rng)
    } else {
        let len = *rng.pick(&[1usize, 2, 3, 4, 9, 20, 40]);
        TargetAddress::DomainPort(gen_host(rng, len, 0), gen_port(rng))
    }
}

pub fn gen_headers(rng: &mut Rng) -> Vec<(String, String)> {
    let n = rng.below(4);
    (0..n)
        .map(|i| {
            let k = *rng.pick(&["Host", "Proxy-Protocol", "X-A", "proxy-channel", "Udp-Bind-Source", "Session-Id", "User-Agent"]);
            let v = match rng.below(6) {
                0 => "tcp".to_string(),
                1 => "udp".to_string(),
                2 => "inline".to_string(),
                3 => format!("{}", rng.below(100000)),
                4 => "a b: c".to_string(),
                _ => gen_host(rng, 1 + i, 0),
            };
            (k.to_string(), v)
        })
        .collect()
}

// ------------------------------------------------------------------ datagrams -> Fragments<Frame>
/// feed a sequence of QUIC datagrams to a fresh Fragments<Frame> (5 s reassembly timeout, no timer calls)
pub fn op_rfr(dgrams: &[Vec<u8>]) -> (String, String) {
    use crate::common::fragment::Fragments;
    // (`-` is one empty datagram here; no datagram at all is `none`)
    let case = if dgrams.is_empty() { "RFR none".to_string() } else { format!("RFR {}", segs_s(dgrams)) };
    let r = no_panic(|| {
        let mut f: Fragments<Frame> = Fragments::new(std::time::Duration::from_secs(3600));
        let mut o = vec![];
        for d in dgrams {
            match f.reassemble(Bytes::copy_from_slice(d)) {
                None => o.push("none".to_string()),
                Some(fr) => o.push(format!("[{}]", frame_s(&fr))),
            }
        }
        o.join(" ")
    });
    (case, r.unwrap_or_else(|| "panic".into()))
}
