#!/bin/sh
# external authenticator for the revocation history of the C07 harness: accepts <user> / pw while the account file exists
[ -e "/verif/out/C07/account-$1" ] && [ "$2" = "pw" ]
