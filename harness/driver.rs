// Verification driver for redproxy-rs.  Compiled INSIDE the redproxy-rs crate (as the child module
// `verif_driver` of the crate root) only under `--cfg mengjiangproject_redproxy_rs_verif`, through
// the guarded `include!(env!("REDPROXY_VERIF_DRIVER_RS"))` hook in src/main.rs.
//
// usage:  REDPROXY_VERIF_DRIVER=1 redproxy-rs <mode> <out-prefix> [key=value ...]
// writes  <out-prefix>.cases   one case / operation per line (input of the Lean model driver)
//         <out-prefix>.impl    what the real code did, line-aligned with .cases
//         <out-prefix>.oracle  one line per property-oracle failure observed on the real code
//         <out-prefix>.stats   JSON: distribution of generated inputs


use std::collections::BTreeMap;
use std::fmt::Write as _;
use std::io::Write as _;

macro_rules! sub {
    ($name:ident, $file:literal) => {
        #[allow(dead_code, unused_imports, unused_variables)]
        pub mod $name {
            include!(concat!(env!("REDPROXY_VERIF_HARNESS_DIR"), "/", $file));
        }
    };
}

sub!(util, "util.rs");
sub!(codec, "codec.rs");
sub!(c11, "c11.rs");
sub!(c12, "c12.rs");
sub!(c05, "c05.rs");
sub!(c03, "c03.rs");
sub!(c09, "c09.rs");
sub!(c08, "c08.rs");
sub!(route, "route.rs");
sub!(c02, "c02.rs");
sub!(c15, "c15.rs");
sub!(c17, "c17.rs");
sub!(c06, "c06.rs");
sub!(relay, "relay.rs");
sub!(c16, "c16.rs");
sub!(c13, "c13.rs");
sub!(c10, "c10.rs");
sub!(c07, "c07.rs");
sub!(c18, "c18.rs");
sub!(c14, "c14.rs");
sub!(c19, "c19.rs");
sub!(stall, "stall.rs");

pub async fn main() -> Result<(), easy_error::Terminator> {
    let args: Vec<String> = std::env::args().collect();
    if args.len() < 3 {
        eprintln!("usage: <mode> <out-prefix> [k=v ...]");
        std::process::exit(2);
    }
    let mode = args[1].clone();
    let mut out = util::Out::new(&args[2], &args[3..]);
    // panics are caught per case (the build overrides panic=abort with panic=unwind); keep them quiet
    std::panic::set_hook(Box::new(|_| {}));
    match mode.as_str() {
        "c11" => c11::run(&mut out).await,
        "c12" => c12::run(&mut out).await,
        "c05" => c05::run(&mut out).await,
        "c03" => c03::run(&mut out).await,
        "c09" => c09::run(&mut out).await,
        "c08" => c08::run(&mut out).await,
        "c02" => c02::run(&mut out).await,
        "c15" => c15::run(&mut out).await,
        "c17" => c17::run(&mut out).await,
        "c06" => c06::run(&mut out).await,
        "c01" => relay::run_c01(&mut out).await,
        "c04" => relay::run_c04(&mut out).await,
        "c16" => c16::run(&mut out).await,
        "c13" => c13::run(&mut out).await,
        "c10" => c10::run(&mut out).await,
        "c07" => c07::run(&mut out).await,
        "c18" => c18::run(&mut out).await,
        "c14" => c14::run(&mut out).await,
        "c19" => c19::run(&mut out).await,
        _ => {
            eprintln!("unknown mode {}", mode);
            std::process::exit(2);
        }
    }
    out.finish();
    Ok(())
}
