// C08: milu type soundness.  For generated programs the real parser -> real type checker (as Filter::validate
// sets it up) -> real evaluator (as Filter::evaluate sets it up, for a generated request) are run; the Lean model
// runs parser model -> typeOf -> valueOf on the same text and request.
// case line:  E <req> <hex of program text>
//   req = listener,connector,feature,srcHost,srcPort,srcType,srcText,tgtHost,tgtPort,tgtType,tgtText  (strings in hex)
// output:     syntax | T=err | T=<type> V=<value> | T=<type> V=err:<class> | ... panic
use super::util::*;
use crate::context::{ContextProps, Feature, TargetAddress};
use milu::script::{Evaluatable, Type, Value};
use std::sync::Arc;

#[derive(Clone, Debug, PartialEq)]
pub enum Ty {
    Int,
    Bool,
    Str,
}

#[derive(Clone, Debug)]
pub enum T {
    Int(i64), // >= 0 in the text; negative numbers are written with the unary minus
    Bool(bool),
    Str(String),
    Id(String),
    Arr(Vec<T>),
    Tup(Vec<T>),
    Un(&'static str, Box<T>),
    Bin(&'static str, Box<T>, Box<T>),
    Index(Box<T>, Box<T>),
    Access(Box<T>, String),
    If(Box<T>, Box<T>, Box<T>),
    Let(Vec<(String, T)>, Box<T>),
    Call(String, Vec<T>),
}

fn bin_prec(o: &str) -> u32 {
    match o {
        "*" | "/" | "%" => 60,
        "+" | "-" => 50,
        "<<" | ">>" | ">>>" => 41,
        "<" | "<=" | ">" | ">=" => 40,
        "==" | "!=" | "=~" | "!~" | "_:" => 30,
        "&" => 25,
        "^" => 24,
        "|" => 23,
        "&&" | "and" => 20,
        "^^" | "xor" => 15,
        _ => 10,
    }
}

fn prec(t: &T) -> u32 {
    match t {
        T::Bin(o, _, _) => bin_prec(o),
        T::Un(_, _) => 70,
        T::If(_, _, _) | T::Let(_, _) => 0,
        _ => 99,
    }
}

/// program text with only the parentheses the documented precedence table makes necessary (the real parser
/// backtracks exponentially on deeply nested parentheses)
pub fn text(t: &T) -> String {
    let list = |xs: &Vec<T>| xs.iter().map(text).collect::<Vec<_>>().join(", ");
    let par = |x: &T, need: bool| if need { format!("({})", text(x)) } else { text(x) };
    match t {
        T::Int(n) => n.to_string(),
        T::Bool(b) => b.to_string(),
        T::Str(s) => format!("\"{}\"", s.replace('\\', "\\\\").replace('"', "\\\"")),
        T::Id(s) => s.clone(),
        T::Arr(xs) => format!("[{}]", list(xs)),
        T::Tup(xs) => {
            if xs.len() == 1 {
                format!("({},)", text(&xs[0]))
            } else {
                format!("({})", list(xs))
            }
        }
        T::Un(o, a) => format!("{}{}", o, par(a, prec(a) < 70 || matches!(**a, T::Un("-", _)) && *o == "-")),
        T::Bin(o, a, b) => {
            let p = bin_prec(o);
            format!("{} {} {}", par(a, prec(a) < p), o, par(b, prec(b) <= p))
        }
        T::Index(a, i) => format!("{}[{}]", par(a, prec(a) < 99), text(i)),
        T::Access(a, f) => format!("{}.{}", par(a, prec(a) < 99 || matches!(**a, T::Int(_))), f),
        T::If(c, y, n) => format!("if {} then {} else {}", par(c, prec(c) == 0), par(y, prec(y) == 0), par(n, prec(n) == 0)),
        T::Let(vs, e) => format!(
            "let {} in {}",
            vs.iter().map(|(k, v)| format!("{} = {}", k, par(v, prec(v) == 0))).collect::<Vec<_>>().join("; "),
            par(e, prec(e) == 0)
        ),
        T::Call(f, args) => format!("{}({})", f, list(args)),
    }
}

#[derive(Clone)]
pub struct Req {
    pub listener: String,
    pub connector: Option<String>,
    pub feature: Feature,
    pub source: std::net::SocketAddr,
    pub target: TargetAddress,
}

pub fn req_pool() -> Vec<Req> {
    let sa = |s: &str| s.parse::<std::net::SocketAddr>().unwrap();
    vec![
        Req { listener: "http".into(), connector: None, feature: Feature::TcpForward, source: sa("10.0.0.7:40000"), target: TargetAddress::DomainPort("example.com".into(), 443) },
        Req { listener: "socks".into(), connector: Some("direct".into()), feature: Feature::UdpForward, source: sa("[2001:db8::7]:1"), target: TargetAddress::SocketAddr(sa("10.1.2.3:80")) },
        Req { listener: "l".into(), connector: None, feature: Feature::TcpBind, source: sa("127.0.0.1:65535"), target: TargetAddress::SocketAddr(sa("[2001:db8::1]:53")) },
        Req { listener: "".into(), connector: None, feature: Feature::UdpBind, source: sa("192.168.1.1:0"), target: TargetAddress::DomainPort("a".into(), 0) },
        Req { listener: "q".into(), connector: None, feature: Feature::TcpForward, source: sa("0.0.0.0:0"), target: TargetAddress::Unknown },
        Req { listener: "http".into(), connector: None, feature: Feature::TcpForward, source: sa("172.16.5.4:5555"), target: TargetAddress::DomainPort("www.test.org".into(), 65535) },
    ]
}

pub fn props_of(r: &Req) -> Arc<ContextProps> {
    Arc::new(ContextProps {
        id: 7,
        listener: r.listener.clone(),
        connector: r.connector.clone(),
        source: r.source,
        target: r.target.clone(),
        request_feature: r.feature,
        ..Default::default()
    })
}

pub fn req_line(r: &Req) -> String {
    let h = |s: &str| hex(s.as_bytes());
    let src_host = r.source.ip().to_string();
    let src_type = if r.source.is_ipv4() { "ipv4" } else { "ipv6" };
    format!(
        "{},{},{},{},{},{},{},{},{},{},{}",
        h(&r.listener),
        h(r.connector.as_deref().unwrap_or("")),
        h(&r.feature.to_string()),
        h(&src_host),
        r.source.port(),
        h(src_type),
        h(&r.source.to_string()),
        h(&r.target.host()),
        r.target.port(),
        h(r.target.r#type()),
        h(&r.target.to_string())
    )
}

pub fn type_s(t: &Type) -> String {
    match t {
        Type::String => "string".into(),
        Type::Integer => "integer".into(),
        Type::Boolean => "boolean".into(),
        Type::Array(a) => format!("[{}]", type_s(a)),
        Type::Tuple(ts) => format!("({})", ts.iter().map(type_s).collect::<Vec<_>>().join(",")),
        Type::NativeObject(_) => "native".into(),
        Type::Any => "any".into(),
    }
}

fn disp(v: &Value) -> String {
    match v {
        // a stdlib stub prints its struct name; every other native object (ScopeBinding, the request adaptor, addresses)
        // prints a Debug form with run-specific content
        Value::NativeObject(_) => {
            let s = v.to_string();
            if ["ToString", "ToInteger", "Split", "StringConcat"].contains(&s.as_str()) {
                s
            } else {
                "<opaque>".into()
            }
        }
        Value::Array(a) => format!("[{}]", a.iter().map(disp).collect::<Vec<_>>().join(",")),
        Value::Tuple(a) => format!("({})", a.iter().map(disp).collect::<Vec<_>>().join(",")),
        other => other.to_string(),
    }
}

pub fn value_s(v: &Value) -> String {
    match v {
        Value::NativeObject(_) => "native".into(),
        Value::String(s) => {
            if s.contains("ScopeBinding") || s.contains("ContextAdaptor") || s.contains("SocketAddr") || s.contains("DomainPort") || s.contains("Unknown") {
                "s:<opaque>".into()
            } else {
                format!("s:{}", hex(s.as_bytes()))
            }
        }
        other => format!("v:{}", hex(disp(other).as_bytes())),
    }
}

pub fn err_class(msg: &str) -> &'static str {
    let m = msg;
    if m.contains("division by zero") {
        "div"
    } else if m.contains("integer overflow") {
        "overflow"
    } else if m.contains("shift amount") {
        "shift"
    } else if m.contains("tuple index out of bounds") {
        "tupleIndex"
    } else if m.contains("index out of bounds") || m.contains("failed to cast index") {
        "index"
    } else if m.contains("failed to compile regex") {
        "regex"
    } else if m.contains("failed to parse integer") {
        "parseInt"
    } else if m.contains("is undefined") || m.contains("undefined") {
        "undefined"
    } else {
        "type"
    }
}

fn value_matches(v: &Value, t: &Type) -> bool {
    match (v, t) {
        (_, Type::Any) => true,
        (Value::Integer(_), Type::Integer) => true,
        (Value::Boolean(_), Type::Boolean) => true,
        (Value::String(_), Type::String) => true,
        (Value::Array(_), Type::Array(_)) => true,
        (Value::Tuple(a), Type::Tuple(b)) => a.len() == b.len(),
        (Value::NativeObject(_), Type::NativeObject(_)) => true,
        _ => false,
    }
}

/// run one program text for one request through the real parser, checker and evaluator
pub fn run_one(out: &mut Out, r: &Req, src: &str, fam: &str) {
    let case = format!("E {} {}", req_line(r), hex(src.as_bytes()));
    let parsed = no_panic(|| milu::parser::parse(src));
    let root = match parsed {
        None => {
            out.case(&case, "parse-panic");
            out.oracle_fail("panic", &format!("parser panicked on `{}`", src));
            return;
        }
        Some(Err(_)) => {
            out.case(&case, "syntax");
            out.stat("syntax_error");
            return;
        }
        Some(Ok(v)) => v,
    };
    // what Filter::validate / the LB key / the log format do at load time
    let ty = no_panic(|| {
        let ctx = crate::rules::script_ext::create_context(Default::default());
        root.type_of(ctx.into())
    });
    let ty = match ty {
        None => {
            out.case(&case, "T=panic");
            out.oracle_fail("panic-at-load", &format!("type checker panicked on `{}`", src));
            return;
        }
        Some(Err(_)) => {
            out.case(&case, "T=err");
            out.stat(&format!("{}_rejected", fam));
            return;
        }
        Some(Ok(t)) => t,
    };
    out.stat(&format!("{}_accepted", fam));
    // what Filter::evaluate does per request
    let val = no_panic(|| {
        let ctx = crate::rules::script_ext::create_context(props_of(r));
        root.value_of(ctx.into())
    });
    let (vs, bad): (String, Option<(&str, String)>) = match &val {
        None => ("panic".into(), Some(("panic", "evaluation panicked (process abort in the shipped binary)".into()))),
        Some(Ok(v)) => {
            let ok = value_matches(v, &ty);
            (value_s(v), if ok { None } else { Some(("wrong-type-value", format!("value {} is not of the accepted type {}", v, type_s(&ty)))) })
        }
        Some(Err(e)) => {
            let c = err_class(&e.to_string());
            out.stat(&format!("dyn_{}", c));
            let dynamic = matches!(c, "div" | "overflow" | "shift" | "index" | "regex" | "parseInt");
            (format!("err:{}", c), if dynamic { None } else { Some(("type-error-at-request-time", format!("accepted as {} but evaluation fails with: {}", type_s(&ty), e))) })
        }
    };
    out.case(&case, &format!("T={} V={}", type_s(&ty), vs));
    if let Some((k, d)) = bad {
        out.oracle_fail(k, &format!("`{}`: {}", src, d));
    }
}

// ------------------------------------------------------------------ generators

const INTS: &[i64] = &[0, 1, 2, 3, 7, 63, 64, 65, 80, 443, 65535, 4294967296, 9223372036854775807];
const STRS: &[&str] = &["", "a", "abc", "example.com", "10.1.2.3", "443", "-5", "+7", "12x", "99999999999999999999", "ipv4", "domain", "a,b,,c", "http", "10.0.0.0/8", "2001:db8::/32", "10.1.2.3/32", "any", "x y", "q\"uote", "back\\slash"];
const PATS: &[&str] = &["a", "^a", "c$", "^abc$", "exam.le", "^10\\.", "com$", "(", "[a", "*a", "", "^$", "."];
const INT_ATTRS: &[&[&str]] = &[&["request", "target", "port"], &["request", "source", "port"]];
const STR_ATTRS: &[&[&str]] = &[
    &["request", "listener"], &["request", "connector"], &["request", "feature"], &["request", "target", "host"], &["request", "target", "type"],
    &["request", "source", "host"], &["request", "source", "type"], &["request", "target"], &["request", "source"],
];

fn path(p: &[&str]) -> T {
    let mut t = T::Id(p[0].into());
    for f in &p[1..] {
        t = T::Access(Box::new(t), f.to_string());
    }
    t
}

fn int_lit(rng: &mut Rng) -> T {
    let n = *rng.pick(INTS);
    match rng.below(6) {
        0 => T::Un("-", Box::new(T::Int(n))),
        1 => T::Bin("-", Box::new(T::Un("-", Box::new(T::Int(9223372036854775807)))), Box::new(T::Int(1))), // i64::MIN
        _ => T::Int(n),
    }
}

pub struct Gen<'a> {
    pub rng: &'a mut Rng,
    pub vars: Vec<(String, Ty)>, // let-bound identifiers in scope
    pub lets: bool,
    pub colls: bool,
    pub everywhere: bool, // let-bound names also in positions that do not unwrap them (index, condition, branch, member ...)
    fresh: usize,
}

impl<'a> Gen<'a> {
    pub fn new(rng: &'a mut Rng, lets: bool, colls: bool) -> Self {
        Gen { rng, vars: vec![], lets, colls, everywhere: false, fresh: 0 }
    }
    fn var_of(&mut self, ty: &Ty) -> Option<T> {
        let c: Vec<&(String, Ty)> = self.vars.iter().filter(|(_, t)| t == ty).collect();
        if c.is_empty() {
            None
        } else {
            Some(T::Id(c[self.rng.below(c.len())].0.clone()))
        }
    }
    /// an expression of type `ty` in a position that unwraps evaluatables (argument of a builtin)
    pub fn arg(&mut self, ty: &Ty, d: usize) -> T {
        if self.rng.chance(1, 4) {
            if let Some(v) = self.var_of(ty) {
                return v;
            }
        }
        if *ty == Ty::Str && self.rng.chance(1, 8) {
            return path(STR_ATTRS[7 + self.rng.below(2)]); // request.target / request.source as strings
        }
        self.expr(ty, d)
    }
    /// an expression whose own value is a proper value of type `ty`
    pub fn expr(&mut self, ty: &Ty, d: usize) -> T {
        let b = |t: T| Box::new(t);
        if self.everywhere && self.rng.chance(1, 4) {
            if let Some(v) = self.var_of(ty) {
                return v;
            }
        }
        if d == 0 {
            return match ty {
                Ty::Int => {
                    if self.rng.chance(1, 3) {
                        path(INT_ATTRS[self.rng.below(INT_ATTRS.len())])
                    } else {
                        int_lit(self.rng)
                    }
                }
                Ty::Bool => T::Bool(self.rng.chance(1, 2)),
                Ty::Str => {
                    if self.rng.chance(1, 3) {
                        path(STR_ATTRS[self.rng.below(7)])
                    } else {
                        T::Str(self.rng.pick(STRS).to_string())
                    }
                }
            };
        }
        let d1 = d - 1;
        // constructs available at every type
        let k = self.rng.below(10);
        if k == 0 {
            let c = self.expr(&Ty::Bool, d1);
            let y = self.expr(ty, d1);
            let n = self.expr(ty, d1);
            return T::If(b(c), b(y), b(n));
        }
        if k == 1 && self.lets {
            let n = self.rng.range(1, 2);
            let mut vs = vec![];
            let mut added = vec![];
            for _ in 0..n {
                let vt = self.rng.pick(&[Ty::Int, Ty::Bool, Ty::Str]).clone();
                self.fresh += 1;
                let name = if self.rng.chance(1, 6) && !self.vars.is_empty() { self.vars[self.rng.below(self.vars.len())].0.clone() } else { format!("v{}", self.fresh) };
                let val = self.expr(&vt, d1); // binding values see the OUTER scope only
                vs.push((name.clone(), val));
                added.push((name, vt));
            }
            let keep = self.vars.len();
            self.vars.extend(added);
            let body = self.expr(ty, d1);
            self.vars.truncate(keep);
            return T::Let(vs, b(body));
        }
        if k == 2 && self.colls {
            // index into an array literal / access a tuple literal / split
            return match self.rng.below(3) {
                0 => {
                    let n = self.rng.range(1, 3);
                    let xs: Vec<T> = (0..n).map(|_| self.expr(ty, d1)).collect();
                    let i = match self.rng.below(5) {
                        0 => T::Int(n as i64),
                        1 => T::Un("-", b(T::Int(self.rng.range(1, n + 1) as i64))),
                        2 => self.expr(&Ty::Int, d1),
                        _ => T::Int(self.rng.below(n) as i64),
                    };
                    T::Index(b(T::Arr(xs)), b(i))
                }
                1 => {
                    let n = self.rng.range(1, 3);
                    let at = self.rng.below(n);
                    let xs: Vec<T> = (0..n)
                        .map(|j| {
                            if j == at {
                                self.expr(ty, d1)
                            } else {
                                let t = self.rng.pick(&[Ty::Int, Ty::Bool, Ty::Str]).clone();
                                self.expr(&t, d1)
                            }
                        })
                        .collect();
                    T::Access(b(T::Tup(xs)), at.to_string())
                }
                _ => {
                    if *ty == Ty::Str {
                        let s = self.arg(&Ty::Str, d1);
                        let dl = T::Str(self.rng.pick(&[",", "", ".", "ab"]).to_string());
                        let i = T::Int(self.rng.below(3) as i64);
                        T::Index(b(T::Call("split".into(), vec![s, dl])), b(i))
                    } else {
                        self.expr(ty, d1)
                    }
                }
            };
        }
        match ty {
            Ty::Int => match self.rng.below(14) {
                0 => T::Un("~", b(self.arg(&Ty::Int, d1))),
                1 => T::Un("-", b(self.arg(&Ty::Int, d1))),
                2 => T::Call("to_integer".into(), vec![self.arg(&Ty::Str, d1)]),
                _ => {
                    let o = *self.rng.pick(&["+", "-", "*", "/", "%", "&", "|", "^", "<<", ">>", ">>>"]);
                    T::Bin(o, b(self.arg(&Ty::Int, d1)), b(self.arg(&Ty::Int, d1)))
                }
            },
            Ty::Bool => match self.rng.below(12) {
                0 => T::Un("!", b(self.arg(&Ty::Bool, d1))),
                1 | 2 => {
                    let o = *self.rng.pick(&["&&", "||", "^^", "and", "or", "xor"]);
                    T::Bin(o, b(self.arg(&Ty::Bool, d1)), b(self.arg(&Ty::Bool, d1)))
                }
                3 | 4 => {
                    let o = *self.rng.pick(&["=~", "!~"]);
                    T::Bin(o, b(self.arg(&Ty::Str, d1)), b(T::Str(self.rng.pick(PATS).to_string())))
                }
                5 => T::Call("cidr_match".into(), vec![self.arg(&Ty::Str, d1), T::Str(self.rng.pick(&["10.0.0.0/8", "10.1.2.3/32", "0.0.0.0/0", "192.168.0.0/16", "10.1.2.3", "any", "10.0.0.1/8", "x", "10.0.0.0/33"]).to_string())]),
                6 if self.colls => {
                    let t = self.rng.pick(&[Ty::Int, Ty::Str, Ty::Bool]).clone();
                    let n = self.rng.range(1, 3);
                    let xs: Vec<T> = (0..n).map(|_| self.expr(&t, d1)).collect();
                    T::Bin("_:", b(self.expr(&t, d1)), b(T::Arr(xs)))
                }
                _ => {
                    let t = self.rng.pick(&[Ty::Int, Ty::Int, Ty::Str, Ty::Bool]).clone();
                    let o = *self.rng.pick(&["==", "!=", "<", "<=", ">", ">="]);
                    T::Bin(o, b(self.arg(&t, d1)), b(self.arg(&t, d1)))
                }
            },
            Ty::Str => match self.rng.below(4) {
                0 => {
                    let t = self.rng.pick(&[Ty::Int, Ty::Str, Ty::Bool]).clone();
                    T::Call("to_string".into(), vec![self.arg(&t, d1)])
                }
                1 if self.colls => {
                    let n = self.rng.below(4);
                    let xs: Vec<T> = (0..n).map(|_| self.arg(&Ty::Str, d1)).collect();
                    T::Call("strcat".into(), vec![T::Arr(xs)])
                }
                _ => self.expr(ty, 0),
            },
        }
    }
    /// an arbitrary (mostly ill-typed) tree over the same vocabulary
    pub fn wild(&mut self, d: usize) -> T {
        let b = |t: T| Box::new(t);
        if d == 0 {
            return match self.rng.below(7) {
                0 => int_lit(self.rng),
                1 => T::Bool(self.rng.chance(1, 2)),
                2 => T::Str(self.rng.pick(STRS).to_string()),
                3 => path(INT_ATTRS[self.rng.below(2)]),
                4 => path(STR_ATTRS[self.rng.below(STR_ATTRS.len())]),
                5 => T::Id(self.rng.pick(&["x", "y", "request", "to_string", "nosuch"]).to_string()),
                _ => T::Arr(vec![]),
            };
        }
        let d1 = d - 1;
        match self.rng.below(16) {
            0..=4 => {
                let o = *self.rng.pick(&["+", "-", "*", "/", "%", "&", "|", "^", "<<", ">>", ">>>", "&&", "||", "^^", "==", "!=", "<", "<=", ">", ">=", "=~", "!~", "_:"]);
                // the pattern operand of =~ / !~ comes from the pattern pool: regex matching is an external parameter of the
                // model, and the model side implements exactly the pool's syntax (arbitrary strings as patterns are not compared)
                let rhs = if o == "=~" || o == "!~" { T::Str(self.rng.pick(PATS).to_string()) } else { self.wild(d1) };
                T::Bin(o, b(self.wild(d1)), b(rhs))
            }
            5 => T::Un(*self.rng.pick(&["!", "~", "-"]), b(self.wild(d1))),
            6 => T::If(b(self.wild(d1)), b(self.wild(d1)), b(self.wild(d1))),
            7 | 8 => {
                let n = self.rng.range(1, 2);
                let vs: Vec<(String, T)> = (0..n).map(|_| (self.rng.pick(&["x", "y"]).to_string(), self.wild(d1))).collect();
                T::Let(vs, b(self.wild(d1)))
            }
            9 | 10 => {
                let n = self.rng.below(3);
                T::Arr((0..n).map(|_| self.wild(d1)).collect())
            }
            11 => {
                let n = self.rng.range(1, 3);
                T::Tup((0..n).map(|_| self.wild(d1)).collect())
            }
            12 => T::Index(b(self.wild(d1)), b(self.wild(d1))),
            13 => T::Access(b(self.wild(d1)), self.rng.pick(&["0", "1", "5", "host", "port", "target", "nosuch"]).to_string()),
            14 => {
                let f = self.rng.pick(&["to_string", "to_integer", "split", "strcat", "cidr_match", "x", "request"]).to_string();
                let n = self.rng.below(3);
                T::Call(f, (0..n).map(|_| self.wild(d1)).collect())
            }
            _ => self.wild(0),
        }
    }
}

/// directed programs: the witnesses of DESIGN §7 and the boundary cases of each builtin
pub const DIRECTED: &[&str] = &[
    "1 == \"a\"", "1 / 0", "1 % 0", "(-9223372036854775807 - 1) / -1", "(-9223372036854775807 - 1) % -1", "9223372036854775807 + 1",
    "-9223372036854775807 - 2", "4294967296 * 4294967296", "1 << 64", "1 << -1", "1 << 63", "-1 >> 63", "-1 >>> 1", "-1 >>> 64", "1 >> 64",
    "-(-9223372036854775807 - 1)", "~0", "[1,2,3][-5]", "[1,2,3][-3]", "[1,2,3][3]", "[1,2,3][-1]", "[1,2,3][-9223372036854775807 - 1]",
    "(1,2).5", "(1,2).1", "(1,\"a\").0 + 1", "[[],[\"a\"]][1][0] + 1", "[[],[1]][1][0] + 1", "[][0]", "[][0] + 1", "1 _: []", "\"a\" _: [\"a\"]",
    "request.target.port =~ \"80\"", "request.target.port == 80", "request.target =~ \"example\"", "request.source.port + 1", "request.nosuch",
    "request.target.nosuch", "to_string(\"a\")", "to_string(1)", "to_string(true)", "to_string([1,2])", "to_string(request.target)",
    "to_integer(\"12\")", "to_integer(\"x\")", "to_integer(\"-9223372036854775808\")", "to_integer(\"9223372036854775808\")", "to_integer(\"+5\")",
    "to_integer(\"\")", "to_integer(\"-\")", "split(\"a,b\", \",\")[1]", "split(\"abc\", \"\")[0]", "split(\"abc\", \"\")[4]", "strcat([])",
    "strcat([\"a\", to_string(1)])", "strcat(split(\"a,b\", \",\"))", "to_string()", "to_string(1, 2)", "split(\"a\")", "cidr_match(\"10.1.2.3\")",
    "let c = true in c", "let c = true in !c", "let c = true in !(!c)", "let c = true in if c then 1 else 2", "let x = 1 in [x][0]",
    "let x = 1 in [x][0] + 1", "let x = true in [x][0]", "let x = 1 in let a = [x][0] in a + 1", "let x = 1 in let y = x in y + 1",
    "let a = 1; b = a in b", "let a = 1; a = \"s\" in a + 1", "let a = 1; a = 2 in a + 1", "(let x = 1 in [x + 1])[0]", "(let x = 1 in [x + 1])[0] + 1",
    "(let x = \"s\" in [x])[0] =~ \"a\"", "let x = 1 in (let x = \"s\" in [x])[0] =~ \"a\"", "(let x = 1 in (x, 2)).0 + 1", "let x = (1, 2) in x.0 + 1",
    "let x = [1] in x[0]", "let x = 1 in x _: [1]", "let i = 1 in [10, 20, 30][i]", "let i = 1 in [10, 20, 30][i + 0]", "let c = true in (c ? 1 : 2)", "let x = 1; y = 1 in (if true then x else y) + 1", "let x = 1; y = 2 in (if true then x else y) + 1", "let x = 1 in (x, 2).0", "let x = 1 in (x, 2).0 + 1", "let x = \"a\" in x _: [x]", "let x = 1 in 1 _: [x]", "let x = 1 in (1 + 0) _: [x]", "let x = 1 in to_string(x)",
    "let x = \"a\" in strcat([x, x])", "let x = request.target in x =~ \"a\"", "let x = request.target in x.host", "let x = request in x.listener",
    "let to_string = 1 in to_string(2)", "let request = 1 in request + 1", "if true then 1 else \"a\"", "if 1 then 1 else 2", "true ? 1 : 2",
    "if request.target.port > 1000 then \"hi\" else \"lo\"", "(if false then (let x = 1 in let a = [x][0] in a) else (let x = \"s\" in let a = [x][0] in a)) + 1",
    "true && 1", "false && (1 / 0 == 1)", "true || (1 / 0 == 1)", "false ^^ (1 / 0 == 1)", "\"a\" < \"b\"", "\"a\" < \"B\"", "true > false", "[1] == [1]",
    "(1,2) == (1,2)", "request == request", "request.target == request.target", "request.target == \"example.com:443\"", "\"a\" =~ \"(\"",
    "cidr_match(\"10.1.2.3\", \"10.0.0.0/8\")", "cidr_match(request.target.host, \"10.0.0.0/8\")", "cidr_match(request.source.host, \"10.0.0.0/8\")",
    "cidr_match(request.target, \"10.0.0.0/8\")", "nosuch", "nosuch(1)", "request(1)", "1(2)", "x.y", "[1, \"a\"]", "[1, 2] [0]", "[request.target.port, 1][0]",
    "[request.target, \"a\"][0] =~ \"a\"", "[request.target][0] =~ \"a\"", "[request.target][0]",
];

pub async fn run(out: &mut Out) {
    let mut rng = Rng(out.seed() ^ 0xC08);
    let thorough = out.tier_thorough();
    let reqs = req_pool();
    if let Some(path) = out.param("replay").map(|s| s.to_string()) {
        // replay file: lines `E <req> <hex>` (as in a .cases file)
        if let Ok(body) = std::fs::read_to_string(&path) {
            for l in body.lines() {
                let p: Vec<&str> = l.split(' ').collect();
                if p.len() == 3 && p[0] == "E" {
                    let src = String::from_utf8_lossy(&unhex(p[2])).to_string();
                    run_one(out, &reqs[0], &src, "replay");
                }
            }
        }
        return;
    }
    for src in DIRECTED {
        for r in [&reqs[0], &reqs[1]] {
            run_one(out, r, src, "directed");
        }
    }
    // bounded-exhaustive: every binary operator over a literal pool (incl. the i64 extremes), every unary operator
    let pool: Vec<String> = ["0", "1", "-1", "63", "64", "9223372036854775807", "(-9223372036854775807 - 1)", "true", "false", "\"\"", "\"a\"", "\"10\"", "[1]", "[]", "(1, 2)", "request.target.port", "request.target.host", "request.target"].iter().map(|s| s.to_string()).collect();
    let ops = ["*", "/", "%", "+", "-", "<<", ">>", ">>>", "<", "<=", ">", ">=", "==", "!=", "=~", "!~", "_:", "&", "^", "|", "&&", "^^", "||"];
    for o in ops.iter() {
        for a in pool.iter() {
            for b in pool.iter() {
                run_one(out, &reqs[0], &format!("{} {} {}", a, o, b), "pairs");
            }
        }
    }
    for u in ["!", "~", "-"].iter() {
        for a in pool.iter() {
            run_one(out, &reqs[1], &format!("{}({})", u, a), "unary");
        }
    }
    // every string builtin over a pool of awkward strings: empty, long ASCII, multi-byte characters around the byte offsets
    // 16 / 32 / 64 / 255, digits with signs and blanks, separators
    {
        let mut pool: Vec<String> = vec!["".into(), "0".into(), "+7".into(), " 7".into(), "-0".into(), "9223372036854775808".into(), "abc".into(), "a,b,,c".into(), ",".into(), "10.0.0.1".into(), "x".repeat(100), "9".repeat(40)];
        for ch in ["é", "日", "😀"] {
            for lead in [0usize, 1, 2, 3] {
                for total in [15usize, 31, 33, 63, 65, 254] {
                    let mut t = "a".repeat(lead);
                    while t.len() < total {
                        t.push_str(ch);
                    }
                    pool.push(t);
                }
            }
        }
        let lit = |t: &str| format!("\"{}\"", t.replace('\\', "\\\\").replace('"', "\\\""));
        for (i, t) in pool.iter().enumerate() {
            let a = lit(t);
            let b = lit(&pool[(i * 7 + 3) % pool.len()]);
            for src in [
                format!("to_integer({})", a),
                format!("to_integer({}) + 1", a),
                format!("to_string({})", a),
                format!("split({}, \",\")[0]", a),
                format!("split({}, {})", a, b),
                format!("strcat([{}, {}])", a, b),
                format!("{} =~ \"^a\"", a),
                format!("{} == {}", a, b),
                format!("{} < {}", a, b),
                format!("cidr_match({}, \"10.0.0.0/8\")", a),
                format!("{} _: [{}, \"abc\"]", a, b),
            ] {
                run_one(out, &reqs[i % reqs.len()], &src, "strpool");
            }
        }
    }
    let n = if thorough { 60000 } else { 6000 };
    for i in 0..n {
        let r = &reqs[rng.below(reqs.len())];
        let (fam, t) = match i % 5 {
            4 => {
                let mut g = Gen::new(&mut rng, true, true);
                g.everywhere = true;
                let ty = g.rng.pick(&[Ty::Bool, Ty::Bool, Ty::Int, Ty::Str]).clone();
                ("varpos", g.expr(&ty, 2 + i % 3))
            }
            0 => {
                let mut g = Gen::new(&mut rng, false, false);
                let ty = g.rng.pick(&[Ty::Bool, Ty::Bool, Ty::Int, Ty::Str]).clone();
                ("scalar", g.expr(&ty, 1 + i % 4))
            }
            1 => {
                let mut g = Gen::new(&mut rng, true, false);
                let ty = g.rng.pick(&[Ty::Bool, Ty::Bool, Ty::Int, Ty::Str]).clone();
                ("lets", g.expr(&ty, 2 + i % 3))
            }
            2 => {
                let mut g = Gen::new(&mut rng, true, true);
                let ty = g.rng.pick(&[Ty::Bool, Ty::Bool, Ty::Int, Ty::Str]).clone();
                ("colls", g.expr(&ty, 2 + i % 3))
            }
            _ => {
                let mut g = Gen::new(&mut rng, true, true);
                ("wild", g.wild(1 + i % 4))
            }
        };
        run_one(out, r, &text(&t), fam);
    }
}
