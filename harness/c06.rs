// C06: what the client is told.  Real http / socks listeners on loopback, the real dispatcher and process_request,
// recording connectors as upstreams; a raw client records every byte until EOF.
//   P <proto> <target> <outcome> <msg hex>     proto = http|socks4|socks5, outcome = ok|refused
//   output: client=<hex of everything after the negotiation> eof=<0|1> upstream=<0|1>
use super::codec::addr_s;
use super::route::*;
use super::util::*;
use crate::context::{Feature, TargetAddress};
use std::net::SocketAddr;

#[derive(Clone, Copy, PartialEq, Debug)]
enum Outcome {
    Ok,
    Deny,
    NoRule,
    Unsupported,
    ConnFail,
    ConnFailLong, // the upstream refuses verbosely (an HTTP upstream's Debug-printed headers): error text > 512 bytes
    BadCmd(u8),
    BadAuth,
}

fn msg_of(o: Outcome) -> &'static str {
    match o {
        Outcome::Deny | Outcome::NoRule => "Error: access denied Cause: None",
        Outcome::Unsupported => "Error: unsupported connector feature: TcpForward Cause: None",
        Outcome::ConnFail | Outcome::ConnFailLong => "Error: recording connector: upstream refused Cause: None",
        _ => "",
    }
}

fn socks5_addr(t: &TargetAddress) -> Vec<u8> {
    match t {
        TargetAddress::DomainPort(h, p) => {
            let mut v = vec![3, h.len() as u8];
            v.extend(h.as_bytes());
            v.extend(p.to_be_bytes());
            v
        }
        TargetAddress::SocketAddr(SocketAddr::V4(a)) => {
            let mut v = vec![1];
            v.extend(a.ip().octets());
            v.extend(a.port().to_be_bytes());
            v
        }
        TargetAddress::SocketAddr(SocketAddr::V6(a)) => {
            let mut v = vec![4];
            v.extend(a.ip().octets());
            v.extend(a.port().to_be_bytes());
            v
        }
        _ => vec![],
    }
}

/// strict, independent reply parser: Some((is_success, bytes consumed)) for exactly one complete reply
fn parse_reply(proto: &str, b: &[u8]) -> Option<(bool, usize)> {
    match proto {
        "socks4" => {
            if b.len() >= 8 && b[0] == 0 && (90..=93).contains(&b[1]) {
                Some((b[1] == 90, 8))
            } else {
                None
            }
        }
        "socks5" => {
            if b.len() < 4 || b[0] != 5 || b[2] != 0 {
                return None;
            }
            let n = match b[3] {
                1 => 4 + 4 + 2,
                4 => 4 + 16 + 2,
                3 => 4 + 1 + *b.get(4)? as usize + 2,
                _ => return None,
            };
            if b.len() >= n {
                Some((b[1] == 0, n))
            } else {
                None
            }
        }
        _ => {
            let s = b;
            let end = s.windows(4).position(|w| w == b"\r\n\r\n")? + 4;
            let head = std::str::from_utf8(&s[..end]).ok()?;
            let mut lines = head.split("\r\n");
            let status = lines.next()?;
            let mut parts = status.splitn(3, ' ');
            if parts.next()? != "HTTP/1.1" {
                return None;
            }
            let code: u16 = parts.next()?.parse().ok()?;
            let mut cl = 0usize;
            for l in lines {
                if l.is_empty() {
                    continue;
                }
                let (k, v) = l.split_once(": ")?;
                if k.eq_ignore_ascii_case("content-length") {
                    cl = v.parse().ok()?;
                }
            }
            if s.len() >= end + cl {
                Some((code == 200, end + cl))
            } else {
                None
            }
        }
    }
}

pub async fn run(out: &mut Out) {
    let mut rng = Rng(out.seed() ^ 0xC06);
    let thorough = out.tier_thorough();
    let all = vec![Feature::TcpForward, Feature::TcpBind, Feature::UdpForward, Feature::UdpBind];
    let conns = vec![("up".to_string(), all.clone()), ("udponly".to_string(), vec![Feature::UdpForward])];
    let w = world(&conns, 10);
    let http_port = start_listener(&w, "name: http\ntype: http").await;
    let socks_port = start_listener(&w, "name: socks\ntype: socks\nallowUdp: false").await;
    let auth_port = start_listener(&w, "name: sauth\ntype: socks\nauth:\n  required: true\n  users:\n    - username: user\n      password: pass").await;
    let sa = |s: &str| s.parse::<SocketAddr>().unwrap();
    let targets = vec![
        TargetAddress::DomainPort("example.com".into(), 443),
        TargetAddress::SocketAddr(sa("10.1.2.3:80")),
        TargetAddress::SocketAddr(sa("[2001:db8::1]:53")),
        TargetAddress::DomainPort("a".into(), 1),
        TargetAddress::SocketAddr(sa("1.2.3.4:65535")),
        TargetAddress::DomainPort("x".repeat(200), 8080),
    ];
    let outcomes = [Outcome::Ok, Outcome::Deny, Outcome::NoRule, Outcome::Unsupported, Outcome::ConnFail, Outcome::ConnFailLong, Outcome::BadCmd(2), Outcome::BadCmd(3), Outcome::BadCmd(9), Outcome::BadAuth];
    let rounds = if thorough { 6 } else { 2 };
    for round in 0..rounds {
        for proto in ["http", "socks4", "socks5"] {
            for t in targets.iter() {
                if proto == "socks4" && matches!(t, TargetAddress::SocketAddr(SocketAddr::V6(_))) {
                    continue;
                }
                for o in outcomes.iter().copied() {
                    if proto == "http" && matches!(o, Outcome::BadCmd(_) | Outcome::BadAuth) {
                        continue;
                    }
                    if proto == "socks4" && o == Outcome::BadAuth && false {
                        continue;
                    }
                    // ---- world for this outcome
                    let rules: Vec<(String, Option<String>)> = match o {
                        Outcome::Deny => vec![("deny".into(), None), ("up".into(), None)],
                        Outcome::NoRule => vec![("up".into(), Some("false".into()))],
                        Outcome::Unsupported => vec![("udponly".into(), None)],
                        _ => vec![("up".into(), None)],
                    };
                    set_rules(&w, &rules).await.unwrap();
                    w.conns[0].fail.store(matches!(o, Outcome::ConnFail | Outcome::ConnFailLong), std::sync::atomic::Ordering::SeqCst);
                    *w.conns[0].fail_msg.lock().unwrap() = if o == Outcome::ConnFailLong {
                        format!("recording connector: upstream refused: HttpResponse {{ code: 403, headers: [{}] }}", "(\"X-Squid-Error\", \"ERR_ACCESS_DENIED 0\"), ".repeat(rng.range(12, 40)))
                    } else {
                        "recording connector: upstream refused".into()
                    };
                    // the outgoing socket of the upstream hop is IPv6 in half of the cases
                    w.conns[0].local_v6.store(rng.chance(1, 2), std::sync::atomic::Ordering::SeqCst);
                    w.log.lock().unwrap().connects.clear();
                    let early: Vec<u8> = if round % 2 == 1 { b"EARLY".to_vec() } else { vec![] };
                    // ---- client bytes
                    let (port, chunks): (u16, Vec<(Vec<u8>, usize)>) = match proto {
                        "http" => {
                            let mut req = format!("CONNECT {} HTTP/1.1\r\nHost: {}\r\n\r\n", t, t).into_bytes();
                            req.extend(&early);
                            (http_port, vec![(req, 0)])
                        }
                        "socks4" => {
                            let cmd = if let Outcome::BadCmd(c) = o { c } else { 1 };
                            let mut req = vec![4, cmd];
                            match t {
                                TargetAddress::DomainPort(h, p) => {
                                    req.extend(p.to_be_bytes());
                                    req.extend([0, 0, 0, 1]);
                                    req.extend(if o == Outcome::BadAuth { b"nobody".to_vec() } else { b"user".to_vec() });
                                    req.push(0);
                                    req.extend(h.as_bytes());
                                    req.push(0);
                                }
                                TargetAddress::SocketAddr(SocketAddr::V4(a)) => {
                                    req.extend(a.port().to_be_bytes());
                                    req.extend(a.ip().octets());
                                    req.extend(if o == Outcome::BadAuth { b"nobody".to_vec() } else { b"user".to_vec() });
                                    req.push(0);
                                }
                                _ => {}
                            }
                            req.extend(&early);
                            (if o == Outcome::BadAuth { auth_port } else { socks_port }, vec![(req, 0)])
                        }
                        _ => {
                            let cmd = if let Outcome::BadCmd(c) = o { c } else { 1 };
                            let mut req = vec![5, cmd, 0];
                            req.extend(socks5_addr(t));
                            req.extend(&early);
                            if o == Outcome::BadAuth {
                                let mut a = vec![1, 4];
                                a.extend(b"user");
                                a.extend([5]);
                                a.extend(b"wrong");
                                (auth_port, vec![(vec![5, 2, 0, 2], 2), (a, 2), (req, 0)])
                            } else {
                                (socks_port, vec![(vec![5, 1, 0], 2), (req, 0)])
                            }
                        }
                    };
                    let (_interim, rest, eof) = raw_client(port, &chunks, true, 3000).await;
                    // give the fake upstream a moment to record
                    tokio::time::sleep(std::time::Duration::from_millis(5)).await;
                    let contacted = !w.log.lock().unwrap().connects.is_empty();
                    let class = match o { Outcome::Ok => "ok", Outcome::ConnFail | Outcome::ConnFailLong => "upfail", _ => "refused" };
                    // the wording of the 503 body carries a source location (easy_error), so the body the client actually received
                    // is the model's input: the correspondence then checks the framing (status line, headers, advertised length ==
                    // actual length, everything flushed), the oracle below checks the wording class
                    let body: Vec<u8> = if proto == "http" && o != Outcome::Ok {
                        rest.windows(4).position(|x| x == b"\r\n\r\n").map(|p| rest[p + 4..].to_vec()).unwrap_or_default()
                    } else {
                        vec![]
                    };
                    let msg = String::from_utf8_lossy(&body).to_string();
                    if proto == "http" && o != Outcome::Ok {
                        let want = msg_of(o);
                        let key = want.trim_start_matches("Error: ").trim_end_matches(" Cause: None");
                        if !(msg.starts_with("Error: ") && msg.contains(key)) {
                            out.oracle_fail("wrong-error-text", &format!("{:?}: body {:?} does not name the cause {:?}", o, msg, key));
                        }
                    }
                    out.case(
                        &format!("P {} {} {} {}", proto, addr_s(t), class, hex(msg.as_bytes())),
                        &format!("client={} eof={} upstream={}", hex(&rest), eof as u8, contacted as u8),
                    );
                    out.stat(&format!("{}_{:?}", proto, o).replace(['(', ')'], "_"));
                    // ---- oracle: one complete reply of the right kind, then EOF; upstream contacted iff allowed
                    match parse_reply(proto, &rest) {
                        None => out.oracle_fail("no-complete-reply", &format!("{} {:?}: client received {} bytes: {}", proto, o, rest.len(), hex(&rest[..rest.len().min(80)]))),
                        Some((succ, n)) => {
                            if succ != (o == Outcome::Ok) {
                                out.oracle_fail("wrong-verdict", &format!("{} {:?}: reply says success={} ", proto, o, succ));
                            }
                            if n != rest.len() {
                                out.oracle_fail("extra-bytes-after-reply", &format!("{} {:?}: {} bytes after the reply: {}", proto, o, rest.len() - n, hex(&rest[n..rest.len().min(n + 40)])));
                            }
                        }
                    }
                    if !eof {
                        out.oracle_fail("not-closed", &format!("{} {:?}: connection still open 3 s after the reply", proto, o));
                    }
                    let should_contact = matches!(o, Outcome::Ok | Outcome::ConnFail | Outcome::ConnFailLong);
                    if contacted != should_contact {
                        out.oracle_fail("upstream-contact", &format!("{} {:?}: upstream contacted = {}", proto, o, contacted));
                    }
                    if o == Outcome::Ok {
                        let up = w.log.lock().unwrap().upstream_bytes.clone();
                        if up.last().map(|x| x.1.clone()) != Some(early.clone()) {
                            out.oracle_fail("early-data", &format!("{}: upstream received {:?}, client sent {:?} behind its handshake", proto, up.last().map(|x| hex(&x.1)), hex(&early)));
                        }
                    }
                }
            }
        }
    }
    let _ = rng.next();
}
