// C18: configuration loading.
//   V <conn|lis> <name spec> <type spec>   one entry through connectors::from_value / listeners::from_value  -> ok | err | panic
//   D <conn|lis> <names>                   from_config over entries with these names                        -> ok | err | panic
//   L <graph>                              load balancers over recording leaves: verify of each, then traffic -> per balancer acc/rej + served
//   M <what>                               mutated documents through the real loaders + init (oracle only: never a panic)
//   B <what>                               the un-hooked binary with --test, then (when accepted) traffic      -> accepted|rejected alive=..
use super::route::*;
use super::util::*;
use crate::connectors::Connector;
use crate::context::Feature;
use std::process::Stdio;
use std::sync::Arc;
use tokio::io::{AsyncReadExt, AsyncWriteExt};
use tokio::net::{TcpListener, TcpStream};

const PKI: &str = "/verif/harness/pki";

fn spec_yaml(spec: &str) -> Option<String> {
    Some(match spec {
        "absent" => return None,
        "num" => "1".into(),
        "bool" => "true".into(),
        "null" => "~".into(),
        "seq" => "[a]".into(),
        "map" => "{a: b}".into(),
        s => format!("\"{}\"", s.strip_prefix("str:").unwrap_or(s)),
    })
}

/// a document that satisfies every kind's struct, so that only name / type decide
fn entry(kind: &str, name: &str, ty: &str) -> String {
    let mut s = String::new();
    if let Some(n) = spec_yaml(name) {
        s.push_str(&format!("name: {}\n", n));
    }
    if let Some(t) = spec_yaml(ty) {
        s.push_str(&format!("type: {}\n", t));
    }
    if kind == "conn" {
        s.push_str(&format!("server: 127.0.0.1\nport: 1\nconnectors: [x]\ntls:\n  ca: {}/ca.crt\n", PKI));
    } else {
        s.push_str(&format!("bind: 127.0.0.1:0\ntarget: 127.0.0.1:1\ntls:\n  cert: {}/server.crt\n  key: {}/server.key\n", PKI, PKI));
    }
    s
}

fn outcome<T>(r: Option<Result<T, easy_error::Error>>) -> &'static str {
    match r {
        None => "panic",
        Some(Ok(_)) => "ok",
        Some(Err(_)) => "err",
    }
}

async fn lb_graph_case(out: &mut Out, graph: &[(String, Vec<String>)], leaves: &[&str]) {
    let all = vec![Feature::TcpForward];
    let conns: Vec<(String, Vec<Feature>)> = leaves.iter().map(|l| (l.to_string(), all.clone())).collect();
    let mut w = world(&conns, 10);
    for c in w.conns.iter() {
        c.fail.store(true, std::sync::atomic::Ordering::SeqCst);
    }
    let mut lbs: Vec<(String, Arc<dyn Connector>)> = vec![];
    for (name, members) in graph {
        let yaml = format!("name: {}\ntype: loadbalance\nalgorithm: random\nconnectors: [{}]", name, members.join(", "));
        let mut c = crate::connectors::from_value(&serde_yaml::from_str(&yaml).unwrap()).unwrap();
        c.init().await.unwrap();
        let c: Arc<dyn Connector> = c.into();
        Arc::get_mut(&mut w.state).unwrap().connectors.insert(name.clone(), c.clone());
        lbs.push((name.clone(), c));
    }
    let mut res = vec![];
    for (name, c) in lbs.iter() {
        let acc = c.verify(w.state.clone()).await.is_ok();
        let mut served = "-".to_string();
        if acc {
            // traffic: every request must come back (an endless hand-over would overflow the stack and kill the process)
            let mut ok = 0;
            for _ in 0..12 {
                let ctx = w.state.contexts.create_context("l".into(), "127.0.0.1:1".parse().unwrap()).await;
                let r = tokio::time::timeout(std::time::Duration::from_secs(3), c.clone().connect(w.state.clone(), ctx)).await;
                if r.is_ok() {
                    ok += 1;
                }
            }
            served = if ok == 12 { "served".into() } else { format!("hung:{}", 12 - ok) };
            if ok != 12 {
                out.oracle_fail("accepted-config-hangs", &format!("load balancer {} accepted by verify, {} of 12 requests did not return", name, 12 - ok));
            }
        }
        res.push(format!("{}:{}:{}", name, if acc { "acc" } else { "rej" }, served));
    }
    let g = graph.iter().map(|(n, m)| format!("{}>{}", n, if m.is_empty() { "-".to_string() } else { m.join("+") })).collect::<Vec<_>>().join(",");
    out.case(&format!("L {} {}", leaves.join("+"), g), &res.join(" "));
    out.stat("lb_graphs");
}

async fn binary_test(bin: &str, cfg: &str, tag: &str) -> (bool, Option<i32>, String) {
    let path = format!("/verif/out/C18/cfg-{}-{}.yaml", std::process::id(), tag);
    std::fs::write(&path, cfg).unwrap();
    let o = tokio::process::Command::new(bin).arg("-c").arg(&path).arg("--test").arg("1").env_remove("REDPROXY_VERIF_DRIVER").env("RUST_LOG", "error").stdin(Stdio::null()).output().await;
    match o {
        Ok(o) => {
            use std::os::unix::process::ExitStatusExt;
            let crashed = o.status.signal().is_some();
            let text = format!("{}{}", String::from_utf8_lossy(&o.stdout), String::from_utf8_lossy(&o.stderr));
            (o.status.success(), if crashed { o.status.signal() } else { None }, text)
        }
        Err(e) => (false, None, e.to_string()),
    }
}

pub async fn run(out: &mut Out) {
    let mut rng = Rng(out.seed() ^ 0xC18);
    let thorough = out.tier_thorough();
    let _ = std::fs::create_dir_all("/verif/out/C18");
    // ---- V: name / type dispatch
    let names = ["absent", "str:c1", "str:deny", "num", "bool", "null", "seq", "map", "str:direct", "str:http", "str:nosuch"];
    let types = ["absent", "str:direct", "str:http", "str:socks", "str:loadbalance", "str:quic", "str:reverse", "str:tproxy", "str:nosuch", "num", "null", "seq", "map", "str:"];
    for kind in ["conn", "lis"] {
        for n in names {
            for t in types {
                let doc = entry(kind, n, t);
                let v: serde_yaml::Value = serde_yaml::from_str(&doc).unwrap();
                let r = if kind == "conn" { outcome(no_panic(|| crate::connectors::from_value(&v))) } else { outcome(no_panic(|| crate::listeners::from_value(&v))) };
                out.case(&format!("V {} {} {}", kind, n, t), r);
                out.stat("dispatch");
                if r == "panic" {
                    out.oracle_fail("panic-at-load", &format!("{}::from_value panicked on:\n{}", if kind == "conn" { "connectors" } else { "listeners" }, doc.replace('\n', " | ")));
                }
            }
        }
        for names in [vec!["a", "b"], vec!["a", "a"], vec!["a", "b", "a"], vec![], vec!["deny"], vec!["a", "deny"]] {
            let docs: Vec<serde_yaml::Value> = names.iter().map(|n| serde_yaml::from_str(&entry(kind, &format!("str:{}", n), if kind == "conn" { "str:direct" } else { "str:http" })).unwrap()).collect();
            let r = if kind == "conn" { outcome(no_panic(|| crate::connectors::from_config(&docs))) } else { outcome(no_panic(|| crate::listeners::from_config(&docs))) };
            out.case(&format!("D {} {}", kind, if names.is_empty() { "-".to_string() } else { names.join(",") }), r);
            out.stat("from_config");
            if r == "panic" {
                out.oracle_fail("panic-at-load", &format!("{} from_config panicked on names {:?}", kind, names));
            }
        }
    }
    // ---- L: load-balancer member graphs (self loops, 2- and 3-cycles, diamonds, chains, undefined members)
    let fixed: Vec<Vec<(&str, Vec<&str>)>> = vec![
        vec![("lb", vec!["lb"])],
        vec![("lb", vec!["x", "lb"])],
        vec![("a", vec!["b"]), ("b", vec!["a"])],
        vec![("a", vec!["b"]), ("b", vec!["c"]), ("c", vec!["a"])],
        vec![("a", vec!["b", "c"]), ("b", vec!["x"]), ("c", vec!["x", "y"])],
        vec![("a", vec!["b"]), ("b", vec!["c"]), ("c", vec!["x"])],
        vec![("a", vec!["x", "nosuch"])],
        vec![("a", vec![])],
        vec![("a", vec!["x", "x"])],
        vec![("a", vec!["b"]), ("b", vec!["x", "a"])],
    ];
    for g in fixed {
        let g: Vec<(String, Vec<String>)> = g.into_iter().map(|(n, m)| (n.to_string(), m.into_iter().map(|s| s.to_string()).collect())).collect();
        lb_graph_case(out, &g, &["x", "y"]).await;
    }
    for _ in 0..(if thorough { 300 } else { 40 }) {
        let n = rng.range(1, 4);
        let names: Vec<String> = (0..n).map(|i| format!("lb{}", i)).collect();
        let g: Vec<(String, Vec<String>)> = names
            .iter()
            .map(|nm| {
                let k = rng.range(1, 3);
                let ms = (0..k)
                    .map(|_| if rng.chance(1, 2) { names[rng.below(n)].clone() } else { rng.pick(&["x", "y"]).to_string() })
                    .collect();
                (nm.clone(), ms)
            })
            .collect();
        lb_graph_case(out, &g, &["x", "y"]).await;
    }
    // ---- M: mutated documents through the real loaders + init (+ verify): never a panic
    let bases: Vec<(&str, String)> = vec![
        ("conn", "name: d\ntype: direct\nbind: 127.0.0.1\ndns:\n  servers: system\n  family: V4Only\nfwmark: 1".into()),
        ("conn", "name: h\ntype: http\nserver: 127.0.0.1\nport: 8080".into()),
        ("conn", format!("name: ht\ntype: http\nserver: localhost\nport: 8080\ntls:\n  ca: {}/ca.crt\n  insecure: false\n  auth:\n    cert: {}/client.crt\n    key: {}/client.key", PKI, PKI, PKI)),
        ("conn", "name: s\ntype: socks\nserver: 127.0.0.1\nport: 1080\nversion: 5\nauth:\n  username: u\n  password: p".into()),
        ("conn", "name: lb\ntype: loadbalance\nconnectors: [d]\nalgorithm:\n  hashBy: request.target.host".into()),
        ("conn", format!("name: q\ntype: quic\nserver: localhost\nport: 4433\ntls:\n  ca: {}/ca.crt", PKI)),
        ("lis", "name: http\nbind: 127.0.0.1:0".into()),
        ("lis", format!("name: https\ntype: http\nbind: 127.0.0.1:0\ntls:\n  cert: {}/server.crt\n  key: {}/server.key\n  client:\n    ca: {}/ca.crt\n    required: true", PKI, PKI, PKI)),
        ("lis", "name: socks\nbind: 127.0.0.1:0\nallowUdp: true\nenforceUdpClient: false\nauth:\n  required: true\n  users:\n    - username: a\n      password: b\n  cache:\n    timeout: 10".into()),
        ("lis", "name: r\ntype: reverse\nbind: 127.0.0.1:0\ntarget: example.com:80\nprotocol: udp".into()),
        ("lis", format!("name: q\ntype: quic\nbind: 127.0.0.1:0\ntls:\n  cert: {}/server.crt\n  key: {}/server.key", PKI, PKI)),
        ("metrics", "bind: 127.0.0.1:0\nhistorySize: 5\ncors: \"*\"\nui: null".into()),
        ("log", "path: /verif/out/C18/m.log\nformat:\n  script: request.target.host".into()),
        ("rules", "- target: deny\n  filter: request.target.port == 1\n- target: d".into()),
    ];
    let replacements = ["1", "-1", "true", "~", "[]", "[1]", "{}", "{a: 1}", "\"\"", "\"x\\ny\"", "99999999999999999999", "\"/nonexistent/file\"", &format!("\"{}/empty.crt\"", PKI), &format!("\"{}/server.key\"", PKI), "\"(1,2).5\"", "\"1 +\"", "\"1/0\"", "\"lb\""];
    let mut nm = 0;
    for (kind, base) in bases.iter() {
        let lines: Vec<&str> = base.lines().collect();
        let mut docs: Vec<String> = vec![base.clone()];
        for i in 0..lines.len() {
            // delete the line
            docs.push(lines.iter().enumerate().filter(|(j, _)| *j != i).map(|(_, l)| *l).collect::<Vec<_>>().join("\n"));
            // retype the value
            if let Some((k, _)) = lines[i].split_once(':') {
                for r in replacements.iter() {
                    if thorough || rng.chance(1, 3) {
                        let mut l2: Vec<String> = lines.iter().map(|s| s.to_string()).collect();
                        l2[i] = format!("{}: {}", k, r);
                        docs.push(l2.join("\n"));
                    }
                }
            }
        }
        for doc in docs {
            let v: serde_yaml::Value = match serde_yaml::from_str(&doc) {
                Ok(v) => v,
                Err(_) => continue,
            };
            nm += 1;
            let kind = kind.to_string();
            let kind2 = kind.clone();
            let doc2 = doc.clone();
            let h = tokio::spawn(async move {
                match kind.as_str() {
                    "conn" => {
                        if let Ok(mut c) = crate::connectors::from_value(&v) {
                            let _ = c.init().await;
                        }
                    }
                    "lis" => {
                        if let Ok(mut l) = crate::listeners::from_value(&v) {
                            let _ = l.init().await;
                        }
                    }
                    "metrics" => {
                        if let Ok(mut m) = serde_yaml::from_value::<crate::metrics::MetricsServer>(v) {
                            let _ = m.init();
                        }
                    }
                    "log" => {
                        if let Ok(mut l) = serde_yaml::from_value::<crate::access_log::AccessLog>(v) {
                            let _ = l.init().await;
                        }
                    }
                    _ => {
                        if let Some(seq) = v.as_sequence() {
                            if let Ok(rs) = crate::rules::from_config(seq) {
                                let st = crate::GlobalState::default();
                                let _ = st.set_rules(rs).await;
                            }
                        }
                    }
                }
            });
            if let Err(e) = h.await {
                if e.is_panic() {
                    out.oracle_fail("panic-at-load", &format!("loading this {} document panicked: {}", kind2, doc2.replace('\n', " | ")));
                }
            }
        }
    }
    // ---- A: every accepted `auth:` section (socks listener) serves credential checks without panicking: listed and
    // unlisted users, SOCKS4-style empty passwords, odd command vectors
    {
        use futures::FutureExt;
        let sections = [
            "required: true",
            "required: true\ncmd: []",
            "required: true\ncmd: [\"\"]",
            "required: true\ncmd: [\"/nonexistent\"]",
            "required: true\ncmd: [\"/bin/true\"]",
            "required: true\ncmd: [\"/bin/false\", \"#USER#\"]\ncache:\n  timeout: 0",
            "required: true\nusers: []\ncmd: []\ncache:\n  timeout: 1",
            "required: true\nusers:\n  - username: u\n    password: p\ncmd: []",
            "required: false\ncmd: []",
            "required: true\nusers:\n  - username: \"\"\n    password: \"\"",
        ];
        for (i, sec) in sections.iter().enumerate() {
            let parsed = no_panic(|| serde_yaml::from_str::<crate::common::auth::AuthData>(sec));
            let mut imp = String::new();
            match parsed {
                None => {
                    imp = "load-panic".into();
                    out.oracle_fail("crash-at-load", &format!("auth section {:?}: deserialising panicked", sec));
                }
                Some(Err(_)) => imp = "rejected".into(),
                Some(Ok(mut auth)) => {
                    let init = std::panic::AssertUnwindSafe(auth.init()).catch_unwind().await;
                    match init {
                        Err(_) => {
                            imp = "init-panic".into();
                            out.oracle_fail("crash-at-load", &format!("auth section {:?}: init panicked", sec));
                        }
                        Ok(Err(_)) => imp = "rejected".into(),
                        Ok(Ok(())) => {
                            imp = "accepted".into();
                            for cred in [None, Some(("u".to_string(), "p".to_string())), Some(("x".to_string(), "".to_string())), Some(("".to_string(), "".to_string()))] {
                                let r = std::panic::AssertUnwindSafe(auth.check(&cred)).catch_unwind().await;
                                if r.is_err() {
                                    imp = "accepted-then-panic".into();
                                    out.oracle_fail("accepted-config-crashes", &format!("auth section {:?} is accepted; checking credentials {:?} panics (the shipped binary aborts)", sec, cred));
                                }
                            }
                        }
                    }
                }
            }
            let imp = if imp == "accepted" || imp == "rejected" { "no-panic".to_string() } else { imp };
            out.case(&format!("A {}", i), &imp);
            out.stat("auth_sections");
        }
    }
    out.case("M mutated-documents", "no-panic-or-see-oracle");
    out.stat_add("mutated_documents", nm);
    // ---- B: the real binary
    if let Some(bin) = out.param("plainbin").map(|s| s.to_string()) {
        let ol = TcpListener::bind("127.0.0.1:0").await.unwrap();
        let oport = ol.local_addr().unwrap().port();
        tokio::spawn(async move {
            loop {
                if let Ok((mut s, _)) = ol.accept().await {
                    tokio::spawn(async move {
                        let mut b = [0u8; 64];
                        while let Ok(n) = s.read(&mut b).await {
                            if n == 0 || s.write_all(&b[..n]).await.is_err() {
                                break;
                            }
                        }
                    });
                }
            }
        });
        let base = |extra_top: &str, connectors: &str, listeners_extra: &str, http: u16| {
            format!(
                "apiVersion: v1alpha\nkind: ProxyDefinition\n{}listeners:\n  - name: http\n    bind: 127.0.0.1:{}\n{}connectors:\n{}rules:\n  - target: out\n",
                extra_top, http, listeners_extra, connectors
            )
        };
        let p = || std::net::TcpListener::bind("127.0.0.1:0").unwrap().local_addr().unwrap().port();
        let direct = "  - name: out\n    type: direct\n";
        let cases: Vec<(&str, String, bool)> = vec![
            ("valid", base("", direct, "", p()), true),
            ("lb-self-cycle", base("", "  - name: out\n    type: loadbalance\n    connectors: [out]\n", "", p()), false),
            ("lb-two-cycle", base("", "  - name: out\n    type: loadbalance\n    connectors: [b]\n  - name: b\n    type: loadbalance\n    connectors: [out]\n", "", p()), false),
            ("connector-name-number", base("", "  - name: 1\n  - name: out\n    type: direct\n", "", p()), false),
            ("cors-line-break", base(&format!("metrics:\n  bind: 127.0.0.1:{}\n  ui: null\n  cors: \"a\\nb\"\n", p()), direct, "", p()), false),
            ("tls-key-without-pem", base("", direct, &format!("  - name: tls\n    type: http\n    bind: 127.0.0.1:{}\n    tls:\n      cert: {}/server.crt\n      key: {}/empty.crt\n", p(), PKI, PKI), p()), false),
            ("rule-filter-tuple-index", format!("{}  - target: out\n    filter: \"(1,2).5 == 1\"\n", base("", direct, "", p())), false),
            ("rule-filter-min-mod", format!("{}", base("", direct, "", p()).replace("rules:\n", "rules:\n  - target: deny\n    filter: \"(0 - 9223372036854775807 - 1) % (0 - 1) == 0\"\n  - target: deny\n    filter: \"1 / (request.target.port - request.target.port) == 0\"\n")), true),
            // empty collections (legal YAML, legal values): nothing to route, nothing to crash on
            ("empty-rule-list", base("", direct, "", p()).replace("rules:\n  - target: out\n", "rules: []\n"), true),
            // legal boundary values of numeric options that reach the data path only with the first relayed request
            ("timeouts-idle-zero", base("timeouts:\n  idle: 0\n", direct, "", p()), true),
            ("timeouts-both-zero", base("timeouts:\n  idle: 0\n  udp: 0\n", direct, "", p()), true),
            ("timeouts-idle-one", base("timeouts:\n  idle: 1\n  udp: 1\n", direct, "", p()), true),
            ("io-buffer-size-one", base("ioParams:\n  bufferSize: 1\n  useSplice: false\n", direct, "", p()), true),
            ("log-format-dynamic-error", base(&format!("accessLog:\n  path: /verif/out/C18/b-{}.log\n  format:\n    script: to_string(100 / (request.target.port - {}))\n", std::process::id(), oport), direct, "", p()), true),
        ];
        for (what, cfg, want_ok) in cases {
            let (ok, sig, text) = binary_test(&bin, &cfg, what).await;
            let mut imp = format!("{}", if ok { "accepted" } else { "rejected" });
            if let Some(s) = sig {
                imp = format!("crashed(signal {})", s);
                out.oracle_fail("crash-at-load", &format!("{}: --test died with signal {}: {}", what, s, text.chars().take(200).collect::<String>()));
            } else if !ok && !text.to_lowercase().contains("error") && !text.contains("cause") {
                out.oracle_fail("rejected-without-message", &format!("{}: {}", what, text.chars().take(200).collect::<String>()));
            }
            if ok {
                // accepted: run it and send traffic
                let path = format!("/verif/out/C18/cfg-{}-{}.yaml", std::process::id(), what);
                let http = cfg.split("bind: 127.0.0.1:").nth(if what.starts_with("cors") { 2 } else { 1 }).and_then(|s| s.split_whitespace().next()).and_then(|s| s.parse::<u16>().ok()).unwrap_or(0);
                let mut child = tokio::process::Command::new(&bin).arg("-c").arg(&path).env_remove("REDPROXY_VERIF_DRIVER").env("RUST_LOG", "error").stdout(Stdio::null()).stderr(Stdio::null()).kill_on_drop(true).spawn().unwrap();
                let mut up = false;
                for _ in 0..200 {
                    if TcpStream::connect(("127.0.0.1", http)).await.is_ok() {
                        up = true;
                        break;
                    }
                    tokio::time::sleep(std::time::Duration::from_millis(20)).await;
                }
                let mut served = 0;
                for _ in 0..3 {
                    if let Ok(mut s) = TcpStream::connect(("127.0.0.1", http)).await {
                        let _ = s.write_all(format!("CONNECT 127.0.0.1:{} HTTP/1.1\r\nHost: x\r\n\r\nping", oport).as_bytes()).await;
                        let mut v = vec![0u8; 43];
                        if tokio::time::timeout(std::time::Duration::from_secs(3), s.read_exact(&mut v)).await.map(|r| r.is_ok()).unwrap_or(false) && v.ends_with(b"ping") {
                            served += 1;
                        }
                        drop(s);
                    }
                    // the access log is written at the next GC tick
                    tokio::time::sleep(std::time::Duration::from_millis(1300)).await;
                }
                let alive = matches!(child.try_wait(), Ok(None));
                imp = format!("accepted up={} served={} alive={}", up as u8, served, alive as u8);
                // a configuration without rules routes nothing: every request is refused, the process keeps running
                let want_served = if what.starts_with("empty-rule") { 0 } else { 3 };
                if !alive || served != want_served {
                    out.oracle_fail("accepted-config-crashes", &format!("{}: accepted by --test, then served {} of 3 requests, process alive = {}", what, served, alive));
                }
                let _ = child.kill().await;
            }
            if ok != want_ok && sig.is_none() {
                out.oracle_fail(if ok { "bad-config-accepted" } else { "good-config-rejected" }, &format!("{}: {}", what, text.chars().take(200).collect::<String>()));
            }
            out.case(&format!("B {}", what), &imp);
            out.stat("binary_configs");
        }
    }
}
