// C07: peer authentication.
//   N <required> <offered hex> <user hex> <pass hex>   SOCKS5 client on a real listener        -> method=<m|ff> routed=<0|1>
//   F <required> <userid hex>                          SOCKS4 client                            -> routed=<0|1>
//   H <timeout> <t:user:pass,...>                      history of AuthData::check calls (cmd + cache) -> verdicts=.. runs=..
//   T <listener kind> <client policy> <presented>      TLS client-certificate matrix            -> admitted=<0|1>
//   U <connector kind> <insecure> <server cert>        upstream certificate matrix              -> established=<0|1>
use super::route::*;
use super::util::*;
use crate::context::Feature;
use std::sync::Arc;
use tokio::io::{AsyncReadExt, AsyncWriteExt};
use tokio::net::{TcpListener, TcpStream};
use tokio_rustls::rustls::{self, Certificate, PrivateKey, RootCertStore};

const PKI: &str = "/verif/harness/pki";
const CMD_LOG: &str = "/verif/out/C07/authcmd.log";

fn load_certs(name: &str) -> Vec<Certificate> {
    let mut r = std::io::BufReader::new(std::fs::File::open(format!("{}/{}.crt", PKI, name)).unwrap());
    rustls_pemfile::certs(&mut r).unwrap().into_iter().map(Certificate).collect()
}
fn load_key(name: &str) -> PrivateKey {
    let mut r = std::io::BufReader::new(std::fs::File::open(format!("{}/{}.key", PKI, name)).unwrap());
    PrivateKey(rustls_pemfile::pkcs8_private_keys(&mut r).unwrap().remove(0))
}
fn roots(name: &str) -> RootCertStore {
    let mut s = RootCertStore::empty();
    for c in load_certs(name) {
        s.add(&c).unwrap();
    }
    s
}

fn client_config(present: &str) -> rustls::ClientConfig {
    let b = rustls::ClientConfig::builder().with_safe_defaults().with_root_certificates(roots("ca"));
    match present {
        "valid" => b.with_single_cert(load_certs("client"), load_key("client")).unwrap(),
        "foreign" => b.with_single_cert(load_certs("foreignclient"), load_key("foreignclient")).unwrap(),
        _ => b.with_no_client_auth(),
    }
}

fn cmd_runs() -> usize {
    std::fs::read_to_string(CMD_LOG).map(|s| s.lines().count()).unwrap_or(0)
}

/// one SOCKS5 client: negotiation, optional RFC 1929 exchange, CONNECT request; returns (method byte or 0xff, routed)
async fn socks5_client(port: u16, w: &World, offered: &[u8], user: &[u8], pass: &[u8]) -> (u8, bool) {
    w.log.lock().unwrap().connects.clear();
    let mut s = match TcpStream::connect(("127.0.0.1", port)).await {
        Ok(s) => s,
        Err(_) => return (0xfe, false),
    };
    let mut hello = vec![5, offered.len() as u8];
    hello.extend(offered);
    let _ = s.write_all(&hello).await;
    let mut rep = [0u8; 2];
    if tokio::time::timeout(std::time::Duration::from_secs(2), s.read_exact(&mut rep)).await.map(|r| r.is_err()).unwrap_or(true) {
        return (0xfe, false);
    }
    let method = rep[1];
    if method == 2 {
        let mut a = vec![1, user.len() as u8];
        a.extend(user);
        a.push(pass.len() as u8);
        a.extend(pass);
        let _ = s.write_all(&a).await;
        let mut r2 = [0u8; 2];
        let _ = tokio::time::timeout(std::time::Duration::from_secs(2), s.read_exact(&mut r2)).await;
    }
    if method != 0xff {
        let _ = s.write_all(&[5, 1, 0, 1, 10, 1, 2, 3, 0, 80]).await;
        let _ = s.shutdown().await;
        let mut v = vec![];
        let _ = tokio::time::timeout(std::time::Duration::from_secs(2), s.read_to_end(&mut v)).await;
    }
    tokio::time::sleep(std::time::Duration::from_millis(2)).await;
    let routed = !w.log.lock().unwrap().connects.is_empty();
    (method, routed)
}

async fn socks4_client(port: u16, w: &World, uid: &[u8]) -> bool {
    w.log.lock().unwrap().connects.clear();
    let mut s = match TcpStream::connect(("127.0.0.1", port)).await {
        Ok(s) => s,
        Err(_) => return false,
    };
    let mut r = vec![4, 1, 0, 80, 10, 1, 2, 3];
    r.extend(uid);
    r.push(0);
    let _ = s.write_all(&r).await;
    let _ = s.shutdown().await;
    let mut v = vec![];
    let _ = tokio::time::timeout(std::time::Duration::from_secs(2), s.read_to_end(&mut v)).await;
    tokio::time::sleep(std::time::Duration::from_millis(2)).await;
    let routed = !w.log.lock().unwrap().connects.is_empty();
    routed
}

fn valid(user: &[u8], pass: &[u8]) -> bool {
    (user == b"user" && pass == b"pass") || (user == b"alice" && pass == b"x:secret")
}

pub async fn run(out: &mut Out) {
    let mut rng = Rng(out.seed() ^ 0xC07);
    let thorough = out.tier_thorough();
    let _ = std::fs::create_dir_all("/verif/out/C07");
    let _ = std::fs::remove_file(CMD_LOG);
    let all = vec![Feature::TcpForward, Feature::TcpBind, Feature::UdpForward, Feature::UdpBind];
    let w = world(&[("up".to_string(), all)], 10);
    set_rules(&w, &[("up".into(), None)]).await.unwrap();
    let auth_yaml = "auth:\n  required: true\n  users:\n    - username: user\n      password: pass\n  cmd: [\"/verif/harness/authcmd.sh\", \"#USER#\", \"#PASS#\"]\n  cache:\n    timeout: 300";
    let open = start_listener(&w, "name: socks\ntype: socks").await;
    let req = start_listener(&w, &format!("name: sauth\ntype: socks\n{}", auth_yaml)).await;

    // ---- (a) SOCKS5: every offer list of length <= 3 over {0,1,2,0x80,0xff}, in every order; several credential classes
    let alphabet = [0u8, 1, 2, 0x80, 0xff];
    let mut offers: Vec<Vec<u8>> = vec![vec![]];
    for a in alphabet {
        offers.push(vec![a]);
        for b in alphabet {
            offers.push(vec![a, b]);
            for c in alphabet {
                offers.push(vec![a, b, c]);
            }
        }
    }
    let long = vec![b'x'; 255];
    let creds: Vec<(Vec<u8>, Vec<u8>)> = vec![
        (b"user".to_vec(), b"pass".to_vec()),
        (b"alice".to_vec(), b"x:secret".to_vec()),
        (b"user".to_vec(), b"wrong".to_vec()),
        (b"".to_vec(), b"".to_vec()),
        (b"alice:x".to_vec(), b"secret".to_vec()),
        (long.clone(), long.clone()),
        (b"user".to_vec(), b"".to_vec()),
        (b"pass".to_vec(), b"user".to_vec()),
    ];
    for (li, (port, required)) in [(open, false), (req, true)].iter().enumerate() {
        for (oi, off) in offers.iter().enumerate() {
            // every offer with one credential class (rotating), plus the valid ones on the 2-containing offers
            let mut which = vec![(oi + li) % creds.len()];
            if off.contains(&2) && (thorough || oi % 3 == 0) {
                which.push(0);
                which.push(1);
            }
            for ci in which {
                let (u, p) = &creds[ci];
                let (m, routed) = socks5_client(*port, &w, off, u, p).await;
                out.case(&format!("N {} {} {} {}", *required as u8, hex(off), hex(u), hex(p)), &format!("method={:02x} routed={}", m, routed as u8));
                out.stat(if *required { "socks5_required" } else { "socks5_open" });
                if *required && routed && !(m == 2 && valid(u, p)) {
                    out.oracle_fail("routed-without-valid-credentials", &format!("offer {} creds {:?}/{:?}: method {:02x}, request routed", hex(off), String::from_utf8_lossy(u), String::from_utf8_lossy(p), m));
                }
                if *required && m == 0 {
                    out.oracle_fail("no-auth-selected-although-required", &format!("offer {}", hex(off)));
                }
            }
        }
        for uid in [&b"user"[..], b"", b"alice", b"nobody", &long[..]] {
            let routed = socks4_client(*port, &w, uid).await;
            out.case(&format!("F {} {}", *required as u8, hex(uid)), &format!("routed={}", routed as u8));
            out.stat("socks4");
            if *required && routed {
                // a SOCKS4 user id carries no password: only a user with an empty password could be valid, and none is configured
                out.oracle_fail("routed-without-valid-credentials", &format!("SOCKS4 user id {:?} routed on a listener that requires credentials", String::from_utf8_lossy(uid)));
            }
        }
    }

    // ---- (b) the verdict cache: histories of AuthData::check with the external command, short timeout, real time
    for (hi, timeout) in [1u64, 0, 300].iter().enumerate() {
        let mut auth: crate::common::auth::AuthData = serde_yaml::from_str(&format!("required: true\ncmd: [\"/verif/harness/authcmd.sh\", \"#USER#\", \"#PASS#\"]\ncache:\n  timeout: {}", timeout)).unwrap();
        auth.init().await.unwrap();
        let a = (b"alice".to_vec(), b"x:secret".to_vec());
        let collide = (b"alice:x".to_vec(), b"secret".to_vec());
        let bad = (b"alice".to_vec(), b"nope".to_vec());
        // (time offset ms, creds)
        let hist: Vec<(u64, &(Vec<u8>, Vec<u8>))> = vec![(0, &a), (50, &a), (100, &collide), (150, &bad), (200, &bad), (250, &a), (1400, &a), (1450, &collide), (1500, &a)];
        let t0 = std::time::Instant::now();
        let mut verdicts = vec![];
        let mut runs = vec![];
        for (at, c) in hist.iter() {
            let el = t0.elapsed().as_millis() as u64;
            if *at > el {
                tokio::time::sleep(std::time::Duration::from_millis(*at - el)).await;
            }
            let before = cmd_runs();
            let v = auth.check(&Some((String::from_utf8_lossy(&c.0).to_string(), String::from_utf8_lossy(&c.1).to_string()))).await;
            verdicts.push(v as u8);
            runs.push(cmd_runs() - before);
            if v != valid(&c.0, &c.1) {
                out.oracle_fail("wrong-verdict", &format!("history {} (cache timeout {} s): {:?}/{:?} judged {}", hi, timeout, String::from_utf8_lossy(&c.0), String::from_utf8_lossy(&c.1), v));
            }
        }
        out.case(
            &format!("H {} {}", timeout, hist.iter().map(|(t, c)| format!("{}:{}:{}", t, hex(&c.0), hex(&c.1))).collect::<Vec<_>>().join(",")),
            &format!("verdicts={} runs={}", verdicts.iter().map(|x| x.to_string()).collect::<String>(), runs.iter().map(|x| x.to_string()).collect::<String>()),
        );
        out.stat("cache_history");
    }

    // ---- (b') an external command that cannot be started (wrong path, not executable): nobody it would have to vouch for is admitted
    for (hi, cmd) in ["/nonexistent/redproxy-auth-helper", "/verif/harness/pki/ca.crt"].iter().enumerate() {
        let mut auth: crate::common::auth::AuthData = serde_yaml::from_str(&format!("required: true\nusers:\n  - username: user\n    password: pass\ncmd: [\"{}\", \"#USER#\", \"#PASS#\"]\ncache:\n  timeout: 300", cmd)).unwrap();
        auth.init().await.unwrap();
        let creds: Vec<(&[u8], &[u8])> = vec![(b"user", b"pass"), (b"user", b"wrong"), (b"alice", b"x:secret"), (b"mallory", b"guess"), (b"mallory", b"guess"), (b"user", b"wrong"), (b"", b"")];
        let mut verdicts = String::new();
        for (u, p) in creds.iter() {
            let v = auth.check(&Some((String::from_utf8_lossy(u).to_string(), String::from_utf8_lossy(p).to_string()))).await;
            verdicts.push(if v { '1' } else { '0' });
            let static_ok = *u == b"user" && *p == b"pass";
            if v != static_ok {
                out.oracle_fail("routed-without-valid-credentials", &format!("external command {} cannot be started: {:?}/{:?} judged {}", cmd, String::from_utf8_lossy(u), String::from_utf8_lossy(p), v));
            }
        }
        out.case(&format!("HX {} {}", hi, creds.iter().map(|(u, p)| format!("{}:{}", hex(u), hex(p))).collect::<Vec<_>>().join(",")), &format!("verdicts={}", verdicts));
        out.stat("helper_unavailable_history");
    }

    // ---- (b'') a verdict is reused only until it expires, however often it is looked up meanwhile: the account is revoked
    // right after the first verdict; lookups every 0.6 s (cache timeout 1 s) must be refused from 1.2 s on
    {
        let _ = std::fs::create_dir_all("/verif/out/C07");
        let acct = format!("/verif/out/C07/account-carol{}", std::process::id());
        let user = format!("carol{}", std::process::id());
        std::fs::write(&acct, b"x").unwrap();
        let mut auth: crate::common::auth::AuthData = serde_yaml::from_str("required: true\ncmd: [\"/verif/harness/authcmd2.sh\", \"#USER#\", \"#PASS#\"]\ncache:\n  timeout: 1").unwrap();
        auth.init().await.unwrap();
        let t0 = std::time::Instant::now();
        let mut verdicts = String::new();
        for (i, at) in [0u64, 600, 1250, 1850, 2450].iter().enumerate() {
            let el = t0.elapsed().as_millis() as u64;
            if *at > el {
                tokio::time::sleep(std::time::Duration::from_millis(*at - el)).await;
            }
            let v = auth.check(&Some((user.clone(), "pw".to_string()))).await;
            verdicts.push(if v { '1' } else { '0' });
            if i == 0 {
                let _ = std::fs::remove_file(&acct); // revoked
                if !v {
                    out.oracle_fail("wrong-verdict", "a valid account was refused");
                }
            }
            // the verdict of t = 0 expires at 1000 ms: from then on the helper is asked again and says no
            if *at >= 1200 && v {
                out.oracle_fail("routed-without-valid-credentials", &format!("the account was revoked at 0 ms, the cached verdict (timeout 1 s) is still honoured at {} ms", at));
            }
        }
        // (the lookup at 600 ms is a cache hit in the code and in the model: within the timeout of the verdict of 0 ms)
        out.case("HR 1 0,600,1250,1850,2450", &format!("verdicts={}", verdicts));
        out.stat("revocation_history");
    }

    // ---- (c) TLS client certificates on the http / socks / quic listeners
    for kind in ["http", "socks", "quic"] {
        for policy in ["absent", "optional", "required", "required-emptyca", "required-keyonlyca"] {
            if kind == "quic" && policy.contains('-') {
                continue;
            }
            // a CA file that holds no certificate (empty, or only a key) trusts nobody: nobody may be admitted
            let client = match policy {
                "absent" => "".to_string(),
                "required-emptyca" => format!("\n  client:\n    ca: {}/empty.crt\n    required: true", PKI),
                "required-keyonlyca" => format!("\n  client:\n    ca: {}/server.key\n    required: true", PKI),
                p => format!("\n  client:\n    ca: {}/ca.crt\n    required: {}", PKI, p == "required"),
            };
            let yaml = format!("name: t{}\ntype: {}\ntls:\n  cert: {}/server.crt\n  key: {}/server.key{}", kind, kind, PKI, PKI, client);
            let port = if kind == "quic" { start_listener_udp(&w, &yaml).await } else { start_listener(&w, &yaml).await };
            for present in ["none", "valid", "foreign"] {
                w.log.lock().unwrap().connects.clear();
                let routed = if kind == "quic" { quic_probe(port, present).await } else { tls_probe(port, kind, present).await };
                tokio::time::sleep(std::time::Duration::from_millis(5)).await;
                let admitted = routed && !w.log.lock().unwrap().connects.is_empty();
                out.case(&format!("T {} {} {}", kind, policy, present), &format!("admitted={}", admitted as u8));
                out.stat("tls_client_matrix");
                let must_refuse = policy == "required" && present != "valid" || policy == "optional" && present == "foreign" || policy.contains('-');
                if must_refuse && admitted {
                    out.oracle_fail("client-cert-not-enforced", &format!("{} listener, tls.client {}: a peer presenting {} certificate was routed", kind, policy, present));
                }
                if !must_refuse && !admitted {
                    out.oracle_fail("legitimate-client-refused", &format!("{} listener, tls.client {}: a peer presenting {} certificate was refused", kind, policy, present));
                }
            }
        }
    }

    // ---- (d) upstream certificates: http and socks connectors with tls
    for kind in ["http", "socks"] {
        for insecure in [false, true] {
            for cert in ["server", "foreignserver", "wrongname"] {
                let up = fake_tls_upstream(cert, kind).await;
                let yaml = format!(
                    "name: c\ntype: {}\nserver: localhost\nport: {}\ntls:\n  ca: {}/ca.crt\n  insecure: {}",
                    kind, up, PKI, insecure
                );
                let mut c = crate::connectors::from_value(&serde_yaml::from_str(&yaml).unwrap()).unwrap();
                let ok = match c.init().await {
                    Err(_) => false,
                    Ok(()) => {
                        let c: Arc<dyn crate::connectors::Connector> = c.into();
                        let ctx = w.state.contexts.create_context("x".into(), "127.0.0.1:1".parse().unwrap()).await;
                        ctx.write().await.set_target(crate::context::TargetAddress::DomainPort("origin.example".into(), 80));
                        tokio::time::timeout(std::time::Duration::from_secs(3), c.connect(w.state.clone(), ctx)).await.map(|r| r.is_ok()).unwrap_or(false)
                    }
                };
                out.case(&format!("U {} {} {}", kind, insecure as u8, cert), &format!("established={}", ok as u8));
                out.stat("tls_upstream_matrix");
                if !insecure && cert != "server" && ok {
                    out.oracle_fail("upstream-cert-not-verified", &format!("{} connector without `insecure`: tunnel established through an upstream presenting {}", kind, cert));
                }
                if (insecure || cert == "server") && !ok {
                    out.oracle_fail("legitimate-upstream-refused", &format!("{} connector insecure={} upstream cert {}", kind, insecure, cert));
                }
            }
        }
    }
    let _ = rng.next();
}

/// a TLS upstream proxy that presents `cert` and answers one CONNECT (http) / SOCKS5 request positively
async fn fake_tls_upstream(cert: &str, kind: &str) -> u16 {
    let cfg = rustls::ServerConfig::builder().with_safe_defaults().with_no_client_auth().with_single_cert(load_certs(cert), load_key(cert)).unwrap();
    let acc = tokio_rustls::TlsAcceptor::from(Arc::new(cfg));
    let l = TcpListener::bind("127.0.0.1:0").await.unwrap();
    let port = l.local_addr().unwrap().port();
    let kind = kind.to_string();
    tokio::spawn(async move {
        while let Ok((s, _)) = l.accept().await {
            let acc = acc.clone();
            let kind = kind.clone();
            tokio::spawn(async move {
                if let Ok(mut t) = acc.accept(s).await {
                    if kind == "http" {
                        let mut head = vec![];
                        let mut b = [0u8; 1];
                        while !head.ends_with(b"\r\n\r\n") {
                            match t.read(&mut b).await {
                                Ok(1) => head.push(b[0]),
                                _ => return,
                            }
                        }
                        let _ = t.write_all(b"HTTP/1.1 200 OK\r\n\r\n").await;
                    } else {
                        let mut b = [0u8; 64];
                        let _ = t.read(&mut b).await; // hello
                        let _ = t.write_all(&[5, 0]).await;
                        let _ = t.read(&mut b).await; // request
                        let _ = t.write_all(&[5, 0, 0, 1, 0, 0, 0, 0, 0, 0]).await;
                    }
                    let _ = t.flush().await;
                    tokio::time::sleep(std::time::Duration::from_millis(300)).await;
                }
            });
        }
    });
    port
}

/// TLS client against an http / socks listener: handshake with the chosen client certificate, then a proxy request
async fn tls_probe(port: u16, kind: &str, present: &str) -> bool {
    let conn = tokio_rustls::TlsConnector::from(Arc::new(client_config(present)));
    let s = match TcpStream::connect(("127.0.0.1", port)).await {
        Ok(s) => s,
        Err(_) => return false,
    };
    let name = rustls::ServerName::try_from("localhost").unwrap();
    let mut t = match tokio::time::timeout(std::time::Duration::from_secs(3), conn.connect(name, s)).await {
        Ok(Ok(t)) => t,
        _ => return false,
    };
    let req: Vec<u8> = if kind == "http" { b"CONNECT 10.1.2.3:80 HTTP/1.1\r\nHost: x\r\n\r\n".to_vec() } else { vec![5, 1, 0, 5, 1, 0, 1, 10, 1, 2, 3, 0, 80] };
    if t.write_all(&req).await.is_err() {
        return false;
    }
    let _ = t.flush().await;
    let mut b = vec![0u8; 64];
    // with TLS 1.3 a rejected client certificate shows up on the first read
    matches!(tokio::time::timeout(std::time::Duration::from_secs(2), t.read(&mut b)).await, Ok(Ok(n)) if n > 0)
}

/// QUIC client (ALPN h11c) against the quic listener: handshake, one bidirectional stream with a CONNECT request
async fn quic_probe(port: u16, present: &str) -> bool {
    let mut crypto = client_config(present);
    crypto.alpn_protocols = vec![b"h11c".to_vec()];
    let mut ep = match quinn::Endpoint::client("127.0.0.1:0".parse().unwrap()) {
        Ok(e) => e,
        Err(_) => return false,
    };
    ep.set_default_client_config(quinn::ClientConfig::new(Arc::new(crypto)));
    let connecting = match ep.connect(format!("127.0.0.1:{}", port).parse().unwrap(), "localhost") {
        Ok(c) => c,
        Err(_) => return false,
    };
    let conn = match tokio::time::timeout(std::time::Duration::from_secs(3), connecting).await {
        Ok(Ok(c)) => c,
        _ => return false,
    };
    let (mut tx, mut rx) = match tokio::time::timeout(std::time::Duration::from_secs(2), conn.open_bi()).await {
        Ok(Ok(x)) => x,
        _ => return false,
    };
    if tx.write_all(b"CONNECT 10.1.2.3:80 HTTP/1.1\r\nHost: x\r\n\r\n").await.is_err() {
        return false;
    }
    let mut b = vec![0u8; 64];
    let r = matches!(tokio::time::timeout(std::time::Duration::from_secs(2), rx.read(&mut b)).await, Ok(Ok(Some(n))) if n > 0);
    conn.close(0u32.into(), b"");
    r
}

/// like start_listener but for a UDP (QUIC) listener: the free port is probed on UDP
async fn start_listener_udp(w: &World, yaml_without_bind: &str) -> u16 {
    use crate::listeners::Listener;
    for _ in 0..20 {
        let port = std::net::UdpSocket::bind("127.0.0.1:0").unwrap().local_addr().unwrap().port();
        let yaml = format!("{}\nbind: 127.0.0.1:{}", yaml_without_bind, port);
        let mut l = crate::listeners::from_value(&serde_yaml::from_str(&yaml).unwrap()).expect("listener config");
        if l.init().await.is_err() {
            continue;
        }
        let l: Arc<dyn Listener> = l.into();
        let (tx, mut rx) = tokio::sync::mpsc::channel(100);
        if l.listen(w.state.clone(), tx).await.is_err() {
            continue;
        }
        let st = w.state.clone();
        tokio::spawn(async move {
            while let Some(ctx) = rx.recv().await {
                tokio::spawn(crate::process_request(ctx, st.clone()));
            }
        });
        return port;
    }
    panic!("no free port");
}
