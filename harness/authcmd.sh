#!/bin/sh
# external authenticator used by the C07 harness: accepts alice / x:secret only; every invocation is logged
mkdir -p /verif/out/C07
echo "$1|$2" >> /verif/out/C07/authcmd.log
[ "$1" = "alice" ] && [ "$2" = "x:secret" ]
