// C02: routing.  Sessions:  `W <connectors> ; <rules>`  installs a world (recording connectors + rule list through the
// real set_rules);  `Q <req> <payload hex> <failing connectors>` sends one request through the real process_request.
//   impl/model output for W: ok | rejected        for Q: <decision> nconnect=.. up=.. ev=..
// plus `K <ip hex> <cidr hex>`: cidr_match through the real evaluator vs an independent bit-mask reference (oracle)
use super::c08::{req_line, req_pool, Req};
use super::route::*;
use super::util::*;
use crate::context::{Feature, TargetAddress};
use milu::script::Evaluatable;
use std::net::{IpAddr, Ipv4Addr, Ipv6Addr};

const FILTERS: &[&str] = &[
    "true", "false", "request.target.port == 443", "request.target.port == 80", "request.target.port > 1000", "request.target.type == \"domain\"",
    "request.target.type == \"ipv4\"", "request.target.type == \"ipv6\"", "request.target.host =~ \"example\"", "request.target.host =~ \"com$\"",
    "request.listener == \"http\"", "request.listener == \"socks\"", "request.feature == \"UdpForward\"", "request.feature == \"TcpForward\"",
    "request.source.type == \"ipv6\"", "cidr_match(request.source.host, \"10.0.0.0/8\")", "cidr_match(request.target.host, \"10.0.0.0/8\")",
    "cidr_match(request.source.host, \"2001:db8::/32\")", "request.source.port == 40000", "request.target =~ \"^example.com:443$\"",
    // filters that pass the checker and fail to evaluate for some or all requests: count as not matching
    "1 / 0 == 1", "100 / (request.target.port - 80) > 0", "to_integer(request.target.host) > 5", "split(request.target.host, \".\")[2] == \"org\"",
    "request.target.host =~ \"(\"", "request.target.port + 9223372036854775807 > 0", "[][0]", "1 << request.target.port == 2",
    "request.target.port == 443 && request.listener == \"http\"", "request.target.port == 443 || 1 / 0 == 1", "!(request.target.type == \"domain\")",
    "request.connector == \"\"", "request.source.host == \"10.0.0.7\"", "let p = request.target.port in p > 100 && p < 500",
    "request.target.port _: [80, 443, 8080]", "request.target.type _: [\"ipv4\", \"ipv6\"]",
];
// filters the loader must reject (syntax error, not boolean, undefined name)
const BAD_FILTERS: &[&str] = &["1 +", "request.target.port", "\"x\"", "nosuch == 1", "request.target.port == \"80\"", "request.nosuch == 1", "1 == ", "to_string(1)"];

fn gen_world(rng: &mut Rng) -> (Vec<(String, Vec<Feature>)>, Vec<(String, Option<String>)>) {
    let names = ["a", "b", "c", "up"];
    let n = rng.range(1, 4);
    let conns: Vec<(String, Vec<Feature>)> = (0..n)
        .map(|i| {
            let feats = match rng.below(4) {
                0 => vec![Feature::TcpForward],
                1 => vec![Feature::TcpForward, Feature::UdpForward],
                2 => vec![Feature::UdpForward],
                _ => vec![Feature::TcpForward, Feature::TcpBind, Feature::UdpForward, Feature::UdpBind],
            };
            (names[i].to_string(), feats)
        })
        .collect();
    let nr = rng.below(9);
    let rules = (0..nr)
        .map(|_| {
            let t = match rng.below(8) {
                0 | 1 => "deny".to_string(),
                2 if rng.chance(1, 6) => "nosuch".to_string(),
                _ => conns[rng.below(conns.len())].0.clone(),
            };
            let f = match rng.below(12) {
                0 | 1 => None,
                2 if rng.chance(1, 5) => Some(rng.pick(BAD_FILTERS).to_string()),
                _ => Some(rng.pick(FILTERS).to_string()),
            };
            (t, f)
        })
        .collect();
    (conns, rules)
}

/// the property oracle on the implementation, independent of Rule::evaluate and of find_map: each filter text is
/// parsed and evaluated on its own through milu for this request; a rule matches iff it has no filter or its filter
/// yields the boolean true (an evaluation error counts as not matching); the first matching rule decides
async fn oracle_expected(w: &World, r: &Req, rules: &[(String, Option<String>)]) -> Option<Option<String>> {
    let _ = w;
    for (target, filter) in rules.iter() {
        let m = match filter {
            None => true,
            Some(src) => {
                let props = super::c08::props_of(r);
                let v = no_panic(|| {
                    let ctx = crate::rules::script_ext::create_context(props);
                    milu::parser::parse(src).ok().and_then(|v| v.value_of(ctx.into()).ok())
                });
                matches!(v, Some(Some(milu::script::Value::Boolean(true))))
            }
        };
        if m {
            return Some(if target == "deny" { None } else { Some(target.clone()) });
        }
    }
    None
}

fn ref_contains(net: IpAddr, len: u32, a: IpAddr) -> bool {
    match (net, a) {
        (IpAddr::V4(n), IpAddr::V4(a)) => {
            let (n, a) = (u32::from(n), u32::from(a));
            len == 0 || (n >> (32 - len)) == (a >> (32 - len))
        }
        (IpAddr::V6(n), IpAddr::V6(a)) => {
            let (n, a) = (u128::from(n), u128::from(a));
            len == 0 || (n >> (128 - len)) == (a >> (128 - len))
        }
        _ => false,
    }
}

fn cidr_case(out: &mut Out, ip: &str, cidr: &str, expect: Option<bool>) {
    let src = format!("cidr_match(\"{}\", \"{}\")", ip, cidr);
    let got = no_panic(|| {
        let ctx = crate::rules::script_ext::create_context(Default::default());
        milu::parser::parse(&src).ok().and_then(|v| v.value_of(ctx.into()).ok()).map(|v| v.to_string())
    });
    let imp = match &got {
        None => "panic".to_string(),
        Some(None) => "err".to_string(),
        Some(Some(s)) => s.clone(),
    };
    out.case(&format!("K {} {}", hex(ip.as_bytes()), hex(cidr.as_bytes())), &imp);
    if let Some(e) = expect {
        if imp != e.to_string() {
            out.oracle_fail("cidr-containment", &format!("cidr_match({:?}, {:?}) = {} but standard containment says {}", ip, cidr, imp, e));
        }
    }
    if imp == "panic" {
        out.oracle_fail("panic", &format!("cidr_match({:?}, {:?}) panicked", ip, cidr));
    }
}

pub async fn run(out: &mut Out) {
    let mut rng = Rng(out.seed() ^ 0xC02);
    let thorough = out.tier_thorough();
    // the connector attribute is still unset while the rules are evaluated
    let reqs: Vec<Req> = req_pool().into_iter().map(|mut r| { r.connector = None; r }).collect();
    // ---- routing sessions
    let nworlds = if thorough { 3000 } else { 400 };
    for _ in 0..nworlds {
        let (conns, rules) = gen_world(&mut rng);
        let w = world(&conns, 10);
        // one or two rule lists on the same world: the second keeps every filter text and changes the targets (what an
        // operator does when re-pointing rules at run time)
        let mut rules = rules;
        for phase in 0..2 {
            if phase == 1 {
                if !rng.chance(1, 2) {
                    break;
                }
                let names: Vec<String> = conns.iter().map(|c| c.0.clone()).chain(std::iter::once("deny".to_string())).collect();
                for r in rules.iter_mut() {
                    let mut t = names[rng.below(names.len())].clone();
                    if t == r.0 {
                        t = names[(names.iter().position(|n| *n == t).unwrap() + 1) % names.len()].clone();
                    }
                    r.0 = t;
                }
                out.stat("retargeted_reloads");
            }
            let res = set_rules(&w, &rules).await;
            out.case(&format!("W {} {}", conns_line(&conns), rules_line(&rules)), if res.is_ok() { "ok" } else { "rejected" });
            out.stat(if res.is_ok() { "worlds_accepted" } else { "worlds_rejected" });
            if res.is_err() {
                break;
            }
            for _ in 0..rng.range(2, 6) {
                let r = &reqs[rng.below(reqs.len())];
                let plen = rng.below(40);
                let payload = rng.bytes(plen);
                // some connectors refuse
                let mut failing = vec![];
                for c in w.conns.iter() {
                    let f = rng.chance(1, 6);
                    c.fail.store(f, std::sync::atomic::Ordering::SeqCst);
                    if f {
                        failing.push(hex(c.name.as_bytes()));
                    }
                }
                let expected = oracle_expected(&w, r, &rules).await;
                let o = run_request(&w, r, &payload).await;
                let line = outcome_line(&o);
                out.case(&format!("Q {} {} {}", req_line(r), hex(&payload), if failing.is_empty() { "-".to_string() } else { failing.join(",") }), &line);
                // ---- oracle (independent of the model)
                let feature_ok = |name: &str| conns.iter().any(|(n, f)| n == name && f.contains(&r.feature));
                match &expected {
                    Some(Some(name)) if feature_ok(name) => {
                        out.stat("decision_connect");
                        if o.connects != vec![name.clone()] {
                            out.oracle_fail("wrong-upstream", &format!("first matching rule names {:?} but connect() was called on {:?}", name, o.connects));
                        }
                        if o.connector.as_deref() != Some(name.as_str()) {
                            out.oracle_fail("wrong-connector-recorded", &format!("record says {:?}, rule says {:?}", o.connector, name));
                        }
                        let failed = failing.contains(&hex(name.as_bytes()));
                        if !failed && (o.upstream.len() != 1 || o.upstream[0].1 != payload) {
                            out.oracle_fail("payload-not-forwarded", &format!("upstream saw {:?}", o.upstream.iter().map(|(n, b)| (n.clone(), hex(b))).collect::<Vec<_>>()));
                        }
                        if failed && !o.upstream.is_empty() {
                            out.oracle_fail("payload-leak", "payload forwarded although the upstream refused");
                        }
                    }
                    other => {
                        out.stat(match other {
                            None => "decision_norule",
                            Some(None) => "decision_deny",
                            _ => "decision_unsupported",
                        });
                        if !o.connects.is_empty() || !o.upstream.is_empty() {
                            out.oracle_fail("leak-on-deny", &format!("request must be refused ({:?}) but connect() was called on {:?}, upstream bytes {:?}", other, o.connects, o.upstream.len()));
                        }
                        if o.events != vec!["on_error".to_string()] {
                            out.oracle_fail("refusal-not-delivered", &format!("callback events {:?}", o.events));
                        }
                    }
                }
            }
        }
    }
    // ---- cidr_match against standard containment
    let v4s = ["0.0.0.0", "10.0.0.0", "10.1.2.3", "10.255.255.255", "11.0.0.0", "9.255.255.255", "127.0.0.1", "192.168.1.1", "255.255.255.255", "128.0.0.0", "1.2.3.4"];
    let v6s = ["::", "::1", "2001:db8::1", "2001:db8:ffff:ffff:ffff:ffff:ffff:ffff", "2001:db9::", "fe80::1", "ffff:ffff:ffff:ffff:ffff:ffff:ffff:ffff", "::ffff:10.0.0.1", "::10.0.0.1", "8000::"];
    let mut addrs: Vec<IpAddr> = v4s.iter().map(|s| s.parse().unwrap()).collect();
    addrs.extend(v6s.iter().map(|s| s.parse::<IpAddr>().unwrap()));
    for _ in 0..(if thorough { 300 } else { 40 }) {
        addrs.push(IpAddr::V4(Ipv4Addr::from(rng.next() as u32)));
        addrs.push(IpAddr::V6(Ipv6Addr::from(((rng.next() as u128) << 64) | rng.next() as u128)));
    }
    let nets: Vec<IpAddr> = addrs.clone();
    for a in addrs.iter() {
        for _ in 0..(if thorough { 12 } else { 4 }) {
            let base = *rng.pick(&nets);
            let w = if base.is_ipv4() { 32 } else { 128 };
            // every prefix length is reached over the run; the network is `base` with its host bits cleared
            let len = rng.below(w + 1) as u32;
            let net: IpAddr = match base {
                IpAddr::V4(b) => IpAddr::V4(Ipv4Addr::from(if len == 0 { 0 } else { u32::from(b) >> (32 - len) << (32 - len) })),
                IpAddr::V6(b) => IpAddr::V6(Ipv6Addr::from(if len == 0 { 0 } else { u128::from(b) >> (128 - len) << (128 - len) })),
            };
            cidr_case(out, &a.to_string(), &format!("{}/{}", net, len), Some(ref_contains(net, len, *a)));
            out.stat(if a.is_ipv4() == net.is_ipv4() { "cidr_same_family" } else { "cidr_cross_family" });
        }
        // all prefix lengths for the address's own network (exhaustive over lengths)
        let w = if a.is_ipv4() { 32 } else { 128 };
        for len in 0..=w {
            let net: IpAddr = match a {
                IpAddr::V4(b) => IpAddr::V4(Ipv4Addr::from(if len == 0 { 0 } else { u32::from(*b) >> (32 - len) << (32 - len) })),
                IpAddr::V6(b) => IpAddr::V6(Ipv6Addr::from(if len == 0 { 0 } else { u128::from(*b) >> (128 - len) << (128 - len) })),
            };
            if rng.chance(1, if thorough { 1 } else { 3 }) {
                cidr_case(out, &a.to_string(), &format!("{}/{}", net, len), Some(true));
                out.stat("cidr_own_prefix");
            }
        }
        cidr_case(out, &a.to_string(), "any", Some(true));
        cidr_case(out, &a.to_string(), &a.to_string(), Some(true));
    }
    // text front-end: forms the parsers accept / reject (no expectation: model vs implementation only)
    for (ip, cidr) in [
        ("10.1.2.3", "10"), ("10.0.0.0", "10"), ("10.1.2.3", "10/8"), ("10.1.2.3", "10.0/8"), ("10.1.2.3", "10.0.0.1/8"), ("10.1.2.3", "10.0.0.0/33"),
        ("10.1.2.3", "10.0.0.0/+8"), ("10.1.2.3", "10.0.0.0/08"), ("10.1.2.3", "10.0.0.0/"), ("10.1.2.3", "/8"), ("10.1.2.3", ""), ("", "10.0.0.0/8"),
        ("010.1.2.3", "10.0.0.0/8"), ("10.1.2.3", "010.0.0.0/8"), ("10.1.2", "10.0.0.0/8"), ("10.1.2.3.4", "10.0.0.0/8"), ("10.1.2.256", "10.0.0.0/8"),
        ("1.2.3.4", "1.2.3.4/32"), ("1.2.3.4", "1.2.3.4"), ("1.2.3.4", "1.2.3"), ("1.2.3.0", "1.2.3"), ("::1", "::1/128"), ("::1", "::/0"), ("::1", "0.0.0.0/0"),
        ("1.2.3.4", "::/0"), ("::ffff:1.2.3.4", "1.2.3.4/32"), ("::ffff:1.2.3.4", "::ffff:1.2.3.4/128"), ("::ffff:1.2.3.4", "::ffff:0:0/96"), ("1::2::3", "::/0"),
        ("12345::1", "::/0"), ("1:2:3:4:5:6:7:8", "1:2:3:4::/64"), ("1:2:3:4:5:6:7", "::/0"), ("1:2:3:4:5:6:7:8:9", "::/0"), ("::1.2.3.4", "::/96"),
        ("1:2:3:4:5:6:1.2.3.4", "1:2:3:4:5:6::/96"), ("1.2.3.4::", "::/0"), ("[::1]", "::/0"), ("::1%1", "::/0"), ("fe80::1", "FE80::/10"), ("FE80::1", "fe80::/10"),
        ("::", "::/129"), ("::", "::/128"), ("1.2.3.4", "any"), ("x", "any"), ("1.2.3.4", "ANY"), ("1.2.3.4", " 1.2.3.4"), ("1.2.3.4 ", "1.2.3.4"), ("1.2.3.4", "1.2.3.4/32/32"),
        ("1.2.3.4", "1.2.3.4/256"), ("1.2.3.4", "1.2.3.4/-1"), ("0.0.0.0", "0/0"), ("255.1.1.1", "255/8"), ("1.2.3.4", "1..3.4"), ("1.2.3.4", "1.2.3.4."), ("1.2.3.4", "+1.2.3.4"),
    ] {
        cidr_case(out, ip, cidr, None);
        out.stat("cidr_text_forms");
    }
}
