#!/bin/sh
# test PKI for the C07 harness (generated once with the installed openssl, committed; 20-year validity, no network)
set -e
cd "$(dirname "$0")"
mk_ca() { openssl req -x509 -newkey rsa:2048 -nodes -keyout $1.key -out $1.crt -days 7300 -subj "/CN=$2" -addext "basicConstraints=critical,CA:TRUE" -addext "keyUsage=critical,keyCertSign,cRLSign" 2>/dev/null; }
mk_leaf() { # name ca cn san eku
  openssl req -newkey rsa:2048 -nodes -keyout $1.key.tmp -out $1.csr -subj "/CN=$3" 2>/dev/null
  openssl pkcs8 -topk8 -nocrypt -in $1.key.tmp -out $1.key 2>/dev/null
  printf "subjectAltName=$4\nextendedKeyUsage=$5\nbasicConstraints=CA:FALSE\n" > $1.ext
  openssl x509 -req -in $1.csr -CA $2.crt -CAkey $2.key -CAcreateserial -out $1.crt -days 7300 -extfile $1.ext 2>/dev/null
  rm -f $1.csr $1.ext $1.key.tmp
}
mk_ca ca "verif test CA"
mk_ca otherca "verif foreign CA"
mk_leaf server ca localhost "DNS:localhost,IP:127.0.0.1" serverAuth
mk_leaf wrongname ca other.example "DNS:other.example" serverAuth
mk_leaf foreignserver otherca localhost "DNS:localhost,IP:127.0.0.1" serverAuth
mk_leaf client ca "client one" "DNS:client.example" clientAuth
mk_leaf foreignclient otherca "client evil" "DNS:client.example" clientAuth
rm -f *.srl
