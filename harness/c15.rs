// C15: rule hot-reload is atomic and all-or-nothing.  Same line protocol as C02 (`W`, `Q`) plus
//   S <rules>   replace the rule list through the real set_rules (ok | rejected)
//   G           GET /rules -> POST /rules unchanged: serialise the live list as the API does, deserialise, set_rules
//   C <n>       concurrent phase (oracle only; the model's answer is always `ok` by theorem decided_by_one_version)
use super::c02::*;
use super::c08::{req_line, req_pool, Req};
use super::route::*;
use super::util::*;
use crate::context::{Feature, TargetAddress};
use std::sync::Arc;

const GOOD: &[&str] = &[
    "request.target.port == 443", "request.target.port == 80", "request.target.type == \"domain\"", "request.listener == \"http\"",
    "request.target.host =~ \"example\"", "request.feature == \"TcpForward\"", "true", "false", "request.target.port > 1000",
    "cidr_match(request.source.host, \"10.0.0.0/8\")", "1 / 0 == 1",
];
const BAD: &[&str] = &["1 +", "request.target.port", "\"x\"", "nosuch == 1", "request.target.port == \"80\"", "request.nosuch == 1", "(1", "to_string(1)", "1 + true == 2", "if 1 then true else false"];

fn gen_rules(rng: &mut Rng, conns: &[(String, Vec<Feature>)], poison: bool) -> Vec<(String, Option<String>)> {
    let n = rng.range(if poison { 1 } else { 0 }, 6);
    let mut rules: Vec<(String, Option<String>)> = (0..n)
        .map(|_| {
            let t = if rng.chance(1, 5) { "deny".to_string() } else { conns[rng.below(conns.len())].0.clone() };
            let f = if rng.chance(1, 6) { None } else { Some(rng.pick(GOOD).to_string()) };
            (t, f)
        })
        .collect();
    if poison {
        // exactly one bad rule, at any position: syntax error / type error / unknown upstream
        let at = rng.below(rules.len());
        match rng.below(3) {
            0 => rules[at].0 = "nosuch".to_string(),
            _ => rules[at].1 = Some(rng.pick(BAD).to_string()),
        }
    }
    rules
}

/// decision of a rule list for a request, computed per rule through milu (the C02 oracle)
fn expected_decision(rules: &[(String, Option<String>)], conns: &[(String, Vec<Feature>)], r: &Req) -> String {
    for (target, filter) in rules.iter() {
        let m = match filter {
            None => true,
            Some(src) => {
                let props = super::c08::props_of(r);
                let v = no_panic(|| {
                    use milu::script::Evaluatable;
                    let ctx = crate::rules::script_ext::create_context(props);
                    milu::parser::parse(src).ok().and_then(|v| v.value_of(ctx.into()).ok())
                });
                matches!(v, Some(Some(milu::script::Value::Boolean(true))))
            }
        };
        if m {
            if target == "deny" {
                return "refuse".into();
            }
            return if conns.iter().any(|(n, f)| n == target && f.contains(&r.feature)) { format!("connect:{}", target) } else { "refuse".into() };
        }
    }
    "refuse".into()
}

fn decision_of(o: &Outcome) -> String {
    match o.connects.first() {
        Some(c) => format!("connect:{}", c),
        None => "refuse".into(),
    }
}

pub async fn run(out: &mut Out) {
    let mut rng = Rng(out.seed() ^ 0xC15);
    let thorough = out.tier_thorough();
    let reqs: Vec<Req> = req_pool().into_iter().map(|mut r| { r.connector = None; r }).collect();
    let all = vec![Feature::TcpForward, Feature::TcpBind, Feature::UdpForward, Feature::UdpBind];
    let nworlds = if thorough { 1500 } else { 200 };
    for _ in 0..nworlds {
        let names = ["a", "b", "c", "d"];
        let nc = rng.range(1, 4);
        let conns: Vec<(String, Vec<Feature>)> = (0..nc).map(|i| (names[i].to_string(), if rng.chance(1, 4) { vec![Feature::TcpForward] } else { all.clone() })).collect();
        let w = world(&conns, 10);
        let first = gen_rules(&mut rng, &conns, false);
        let res = set_rules(&w, &first).await;
        out.case(&format!("W {} {}", conns_line(&conns), rules_line(&first)), if res.is_ok() { "ok" } else { "rejected" });
        if res.is_err() {
            out.oracle_fail("valid-list-rejected", &format!("{:?}", res));
            continue;
        }
        let mut live = first.clone(); // the list that must be in force, by the property
        for _ in 0..rng.range(2, 6) {
            match rng.below(10) {
                0..=2 => {
                    let rules = gen_rules(&mut rng, &conns, true);
                    let res = set_rules(&w, &rules).await;
                    out.case(&format!("S {}", rules_line(&rules)), if res.is_ok() { "ok" } else { "rejected" });
                    out.stat("reload_bad");
                    if res.is_ok() {
                        out.oracle_fail("bad-list-accepted", &format!("a list with an invalid rule was accepted: {}", rules_line(&rules)));
                        live = rules;
                    }
                }
                3..=5 => {
                    let rules = gen_rules(&mut rng, &conns, false);
                    let res = set_rules(&w, &rules).await;
                    out.case(&format!("S {}", rules_line(&rules)), if res.is_ok() { "ok" } else { "rejected" });
                    out.stat("reload_good");
                    if res.is_err() {
                        out.oracle_fail("valid-list-rejected", &format!("{:?}", res));
                    } else {
                        live = rules;
                    }
                }
                6 => {
                    // GET /rules then POST it back unchanged (the JSON the API handlers produce / accept)
                    let json = { serde_json::to_string(&*w.state.rules().await).unwrap() };
                    let back: Result<Vec<Arc<crate::rules::Rule>>, _> = serde_json::from_str(&json);
                    let res = match back {
                        Ok(rs) => w.state.set_rules(rs).await.map_err(|e| e.to_string()),
                        Err(e) => Err(e.to_string()),
                    };
                    out.case("G", if res.is_ok() { "ok" } else { "rejected" });
                    out.stat("get_post_roundtrip");
                    if res.is_err() {
                        out.oracle_fail("get-post-rejected", &format!("posting back the list GET returned was refused: {:?}", res));
                    }
                }
                _ => {}
            }
            // probes: decided by the list in force
            for _ in 0..rng.range(1, 3) {
                let r = &reqs[rng.below(reqs.len())];
                let o = run_request(&w, r, b"x").await;
                out.case(&format!("Q {} {} -", req_line(r), hex(b"x")), &outcome_line(&o));
                let want = expected_decision(&live, &conns, r);
                if decision_of(&o) != want {
                    out.oracle_fail("decided-by-wrong-list", &format!("list in force decides {:?}, request was decided {:?}", want, decision_of(&o)));
                }
            }
        }
    }
    // ---- concurrent phase: probes racing with reloads; every decision must be that of the old or of the new list
    let conns: Vec<(String, Vec<Feature>)> = ["a", "b", "c", "d", "e"].iter().map(|n| (n.to_string(), all.clone())).collect();
    let rounds = if thorough { 40 } else { 8 };
    for round in 0..rounds {
        let w = Arc::new(world(&conns, 10));
        // old: [port==443 -> a][* -> b]   new: [port==80 -> c][port==81 -> e][* -> d]; a request to port 80 is b (old) or c (new);
        // an index taken from one list and used on the other gives d or e, a shorter list gives a panic
        let old: Vec<(String, Option<String>)> = vec![("a".into(), Some("request.target.port == 443".into())), ("b".into(), None)];
        let new: Vec<(String, Option<String>)> = if round % 2 == 0 {
            vec![("c".into(), Some("request.target.port == 80".into())), ("e".into(), Some("request.target.port == 81".into())), ("d".into(), None)]
        } else {
            vec![("c".into(), None)]
        };
        set_rules(&w, &old).await.unwrap();
        for c in w.conns.iter() {
            c.fail.store(true, std::sync::atomic::Ordering::SeqCst);
        }
        let stop = Arc::new(std::sync::atomic::AtomicBool::new(false));
        let swapper = {
            let (w, old, new, stop) = (w.clone(), old.clone(), new.clone(), stop.clone());
            tokio::spawn(async move {
                let mut i = 0;
                while !stop.load(std::sync::atomic::Ordering::SeqCst) {
                    let _ = set_rules(&w, if i % 2 == 0 { &new } else { &old }).await;
                    i += 1;
                    tokio::task::yield_now().await;
                }
                i
            })
        };
        let mut probes = vec![];
        for _ in 0..16 {
            let w = w.clone();
            probes.push(tokio::spawn(async move {
                let mut bad = vec![];
                for _ in 0..40 {
                    let ctx = w.state.contexts.create_context("http".into(), "10.0.0.7:1".parse().unwrap()).await;
                    ctx.write().await.set_target(TargetAddress::DomainPort("x".into(), 80));
                    // decision only: the connector fails, so there is no relay
                    let r = tokio::spawn(crate::process_request(ctx.clone(), w.state.clone())).await;
                    let c = ctx.read().await.props().connector.clone();
                    match (r, c.as_deref()) {
                        (Err(_), _) => bad.push("panic".to_string()),
                        (Ok(_), Some("b")) | (Ok(_), Some("c")) => {}
                        (Ok(_), other) => bad.push(format!("{:?}", other)),
                    }
                }
                bad
            }));
        }
        let mut bad = vec![];
        for p in probes {
            bad.extend(p.await.unwrap_or_else(|_| vec!["probe-task-died".into()]));
        }
        stop.store(true, std::sync::atomic::Ordering::SeqCst);
        let swaps = swapper.await.unwrap_or(0);
        out.stat_add("concurrent_swaps", swaps as u64);
        out.stat_add("concurrent_probes", 16 * 40);
        out.case(&format!("C {}", round), if bad.is_empty() { "ok" } else { "mixed" });
        if !bad.is_empty() {
            out.oracle_fail("mixed-decision", &format!("a request to port 80 must go to b (old list) or c (new list); observed {:?} ({} of 640 probes)", &bad[..bad.len().min(5)], bad.len()));
        }
    }
}
