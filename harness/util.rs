use std::collections::BTreeMap;
use std::io::Write as _;

/// SplitMix64: every random choice of a run derives from one seed.
pub struct Rng(pub u64);
impl Rng {
    pub fn next(&mut self) -> u64 {
        self.0 = self.0.wrapping_add(0x9E3779B97F4A7C15);
        let mut z = self.0;
        z = (z ^ (z >> 30)).wrapping_mul(0xBF58476D1CE4E5B9);
        z = (z ^ (z >> 27)).wrapping_mul(0x94D049BB133111EB);
        z ^ (z >> 31)
    }
    pub fn below(&mut self, n: usize) -> usize {
        if n == 0 {
            0
        } else {
            (self.next() % n as u64) as usize
        }
    }
    pub fn range(&mut self, lo: usize, hi: usize) -> usize {
        lo + self.below(hi - lo + 1)
    }
    pub fn chance(&mut self, num: usize, den: usize) -> bool {
        self.below(den) < num
    }
    pub fn pick<'a, T>(&mut self, xs: &'a [T]) -> &'a T {
        &xs[self.below(xs.len())]
    }
    pub fn bytes(&mut self, n: usize) -> Vec<u8> {
        (0..n).map(|_| self.next() as u8).collect()
    }
    pub fn shuffle<T>(&mut self, xs: &mut [T]) {
        for i in (1..xs.len()).rev() {
            let j = self.below(i + 1);
            xs.swap(i, j);
        }
    }
}

pub fn hex(b: &[u8]) -> String {
    if b.is_empty() {
        return "-".into();
    }
    let mut s = String::with_capacity(b.len() * 2);
    for x in b {
        s.push_str(&format!("{:02x}", x));
    }
    s
}

pub fn unhex(s: &str) -> Vec<u8> {
    if s == "-" {
        return vec![];
    }
    (0..s.len() / 2)
        .map(|i| u8::from_str_radix(&s[2 * i..2 * i + 2], 16).unwrap())
        .collect()
}

pub struct Out {
    pub prefix: String,
    pub params: BTreeMap<String, String>,
    cases: std::io::BufWriter<std::fs::File>,
    imp: std::io::BufWriter<std::fs::File>,
    oracle: std::io::BufWriter<std::fs::File>,
    pub stats: BTreeMap<String, u64>,
    pub n_cases: u64,
    pub n_oracle_fail: u64,
}

impl Out {
    pub fn new(prefix: &str, kv: &[String]) -> Self {
        let mut params = BTreeMap::new();
        for a in kv {
            if let Some((k, v)) = a.split_once('=') {
                params.insert(k.to_string(), v.to_string());
            }
        }
        let f = |ext: &str| {
            std::io::BufWriter::new(std::fs::File::create(format!("{}.{}", prefix, ext)).unwrap())
        };
        Out {
            prefix: prefix.to_string(),
            params,
            cases: f("cases"),
            imp: f("impl"),
            oracle: f("oracle"),
            stats: BTreeMap::new(),
            n_cases: 0,
            n_oracle_fail: 0,
        }
    }
    pub fn seed(&self) -> u64 {
        self.params.get("seed").and_then(|s| s.parse().ok()).unwrap_or(1)
    }
    pub fn tier_thorough(&self) -> bool {
        self.params.get("tier").map(|s| s == "thorough").unwrap_or(false)
    }
    pub fn param(&self, k: &str) -> Option<&str> {
        self.params.get(k).map(|s| s.as_str())
    }
    /// one case line and what the implementation did with it
    pub fn case(&mut self, case: &str, imp: &str) {
        debug_assert!(!case.contains('\n') && !imp.contains('\n'));
        writeln!(self.cases, "{}", case).unwrap();
        writeln!(self.imp, "{}", imp).unwrap();
        self.n_cases += 1;
        // keep the files current: if the real code kills the process (abort, stack overflow) the last case is on disk
        if self.n_cases % 16 == 0 {
            let _ = self.cases.flush();
            let _ = self.imp.flush();
            let _ = self.oracle.flush();
        }
    }
    /// a property-oracle failure on the real code (independent of the model); `case_no` is 1-based
    pub fn oracle_fail(&mut self, kind: &str, what: &str) {
        writeln!(
            self.oracle,
            "{}\t{}\t{}",
            self.n_cases,
            kind,
            what.replace('\n', " ").replace('\t', " ")
        )
        .unwrap();
        self.n_oracle_fail += 1;
    }
    pub fn stat(&mut self, k: &str) {
        *self.stats.entry(k.to_string()).or_insert(0) += 1;
    }
    pub fn stat_add(&mut self, k: &str, n: u64) {
        *self.stats.entry(k.to_string()).or_insert(0) += n;
    }
    pub fn finish(&mut self) {
        self.cases.flush().unwrap();
        self.imp.flush().unwrap();
        self.oracle.flush().unwrap();
        let mut s = String::from("{");
        for (i, (k, v)) in self.stats.iter().enumerate() {
            if i > 0 {
                s.push(',');
            }
            s.push_str(&format!("\"{}\":{}", k, v));
        }
        s.push('}');
        std::fs::write(format!("{}.stats", self.prefix), s).unwrap();
    }
}

/// run a closure, mapping a panic to None
pub fn no_panic<T>(f: impl FnOnce() -> T) -> Option<T> {
    std::panic::catch_unwind(std::panic::AssertUnwindSafe(f)).ok()
}
