// C01 / C04: the relay.  Two kinds of cases:
//  (a) scripted in-memory streams straight into the real copy_bidi (buffered path): exact event-level correspondence
//        B <bufsz> <c2s chunks> <s2c chunks> <read-ahead>     both directions end with EOF
//        A <bufsz> <c2s chunks> <ce> <s2c chunks> <se>        at least one direction is aborted (result only)
//  (b) real listeners + the real `direct` connector + a harness origin on loopback, splice on and off:
//        T <listener> <splice> <early> <c2s len> <s2c len> <who closes first / aborts>
use super::route::*;
use super::util::*;
use crate::context::{make_buffered_stream, ContextRef, Feature, TargetAddress};
use std::collections::VecDeque;
use std::pin::Pin;
use std::sync::{Arc, Mutex};
use std::task::{Context as TaskCx, Poll};
use tokio::io::{AsyncRead, AsyncReadExt, AsyncWrite, AsyncWriteExt, ReadBuf};
use tokio::net::{TcpListener, TcpStream};

#[derive(Clone, Debug, PartialEq)]
pub enum Ev {
    Data(Vec<u8>),
    Eof,
    Reset,
}

#[derive(Default)]
pub struct Obs {
    pub events: Vec<String>, // "d:<hex>" (coalesced between flushes), "f", "s"
    cur: Vec<u8>,
}

impl Obs {
    fn close_data(&mut self) {
        if !self.cur.is_empty() {
            let d = std::mem::take(&mut self.cur);
            self.events.push(format!("d:{}", hex(&d)));
        }
    }
}

/// reads return exactly the scripted chunks (with a Pending + self-wake before each, so the two directions and the
/// ticker interleave); writes accept a scripted number of bytes; every write / flush / shutdown is recorded
pub struct Stream {
    reads: VecDeque<Ev>,
    yielded: bool,
    accept: Vec<usize>,
    ai: usize,
    pub obs: Arc<Mutex<Obs>>,
}

impl Stream {
    pub fn new(reads: Vec<Ev>, accept: Vec<usize>) -> (Self, Arc<Mutex<Obs>>) {
        let obs = Arc::new(Mutex::new(Obs::default()));
        (Stream { reads: reads.into(), yielded: false, accept, ai: 0, obs: obs.clone() }, obs)
    }
}

impl AsyncRead for Stream {
    fn poll_read(mut self: Pin<&mut Self>, cx: &mut TaskCx<'_>, buf: &mut ReadBuf<'_>) -> Poll<std::io::Result<()>> {
        if !self.yielded {
            self.yielded = true;
            cx.waker().wake_by_ref();
            return Poll::Pending;
        }
        self.yielded = false;
        match self.reads.pop_front() {
            Some(Ev::Data(mut d)) => {
                let n = d.len().min(buf.remaining());
                buf.put_slice(&d[..n]);
                if n < d.len() {
                    d.drain(..n);
                    self.reads.push_front(Ev::Data(d));
                }
                Poll::Ready(Ok(()))
            }
            Some(Ev::Eof) => {
                self.reads.push_front(Ev::Eof);
                Poll::Ready(Ok(()))
            }
            Some(Ev::Reset) => {
                self.reads.push_front(Ev::Reset);
                Poll::Ready(Err(std::io::Error::from(std::io::ErrorKind::ConnectionReset)))
            }
            None => Poll::Pending, // never woken: the peer stays silent
        }
    }
}

impl AsyncWrite for Stream {
    fn poll_write(mut self: Pin<&mut Self>, _cx: &mut TaskCx<'_>, buf: &[u8]) -> Poll<std::io::Result<usize>> {
        let k = if self.accept.is_empty() { buf.len() } else { self.accept[self.ai % self.accept.len()].max(1).min(buf.len()) };
        self.ai += 1;
        self.obs.lock().unwrap().cur.extend_from_slice(&buf[..k]);
        Poll::Ready(Ok(k))
    }
    fn poll_flush(self: Pin<&mut Self>, _cx: &mut TaskCx<'_>) -> Poll<std::io::Result<()>> {
        let mut o = self.obs.lock().unwrap();
        o.close_data();
        // the drain before the relay flushes with nothing written: only flushes that follow data are events
        if o.events.last().map(|e| e.starts_with("d:")).unwrap_or(false) {
            o.events.push("f".into());
        }
        Poll::Ready(Ok(()))
    }
    fn poll_shutdown(self: Pin<&mut Self>, _cx: &mut TaskCx<'_>) -> Poll<std::io::Result<()>> {
        let mut o = self.obs.lock().unwrap();
        o.close_data();
        o.events.push("s".into());
        Poll::Ready(Ok(()))
    }
}

fn chunks_s(c: &[Vec<u8>]) -> String {
    if c.is_empty() {
        "-".into()
    } else {
        c.iter().map(|x| hex(x)).collect::<Vec<_>>().join(",")
    }
}

fn gen_chunks(rng: &mut Rng, maxn: usize, maxlen: usize) -> Vec<Vec<u8>> {
    (0..rng.below(maxn + 1)).map(|_| { let n = rng.range(1, maxlen); rng.bytes(n) }).collect()
}

/// run the real copy_bidi over two scripted streams; `readahead` bytes of the client's first chunk are consumed as a
/// "handshake" through the BufReader first, so that the rest of that chunk sits in the read-ahead buffer
async fn scripted_bidi(w: &World, bufsz: usize, c2s: &[Vec<u8>], ce: Ev, s2c: &[Vec<u8>], se: Ev, hs: usize, accept: Vec<usize>) -> (String, String, bool, u64, u64) {
    let mk = |chunks: &[Vec<u8>], end: Ev| {
        let mut v: Vec<Ev> = chunks.iter().cloned().map(Ev::Data).collect();
        v.push(end);
        v
    };
    let (cs, cobs) = Stream::new(mk(c2s, ce), accept.clone());
    let (ss, sobs) = Stream::new(mk(s2c, se), accept);
    let ctx = w.state.contexts.create_context("l".into(), "10.0.0.7:1".parse().unwrap()).await;
    let mut cbuf = make_buffered_stream(cs);
    for _ in 0..hs {
        let _ = cbuf.read_u8().await;
    }
    {
        let mut c = ctx.write().await;
        c.set_client_stream(cbuf).set_server_stream(make_buffered_stream(ss)).set_connector("x".into());
    }
    let params = crate::config::IoParams { buffer_size: bufsz, use_splice: true };
    let r = tokio::time::timeout(std::time::Duration::from_secs(5), crate::copy::copy_bidi(ctx.clone(), &params)).await;
    let ok = matches!(r, Ok(Ok(())));
    let props = ctx.read().await.props().clone();
    // the counters are private: read them the way the API serialises them
    let stat = |s: &crate::context::ContextStatistics| serde_json::to_value(s).ok().and_then(|v| v.get("read_bytes").and_then(|x| x.as_u64())).unwrap_or(u64::MAX);
    let cb = stat(&props.client_stat);
    let sb = stat(&props.server_stat);
    let to_server = { let mut o = sobs.lock().unwrap(); o.close_data(); o.events.join(" ") };
    let to_client = { let mut o = cobs.lock().unwrap(); o.close_data(); o.events.join(" ") };
    (to_server, to_client, ok, cb, sb)
}

fn concat(c: &[Vec<u8>]) -> Vec<u8> {
    c.iter().flatten().cloned().collect()
}

fn delivered_of(events: &str) -> Vec<u8> {
    events.split(' ').filter_map(|e| e.strip_prefix("d:")).flat_map(|h| unhex(h)).collect()
}

async fn scripted_cases(out: &mut Out, rng: &mut Rng, w: &World, n: usize, aborts: bool) {
    for i in 0..n {
        let bufsz = *rng.pick(&[1usize, 2, 7, 64, 4096, 65536]);
        let maxlen = if bufsz < 8 { 6 } else { 40 };
        let mut c2s = gen_chunks(rng, 4, maxlen);
        let s2c = gen_chunks(rng, 4, maxlen);
        let accept: Vec<usize> = if rng.chance(1, 2) { vec![] } else { (0..3).map(|_| rng.range(1, 9)).collect() };
        if !aborts || i % 3 == 0 {
            // a "handshake" of hs bytes is read from the client's first chunk through the BufReader first
            let hs = if !c2s.is_empty() && rng.chance(1, 2) { rng.range(1, c2s[0].len()) } else { 0 };
            let (ts, tc, ok, cb, sb) = scripted_bidi(w, bufsz, &c2s, Ev::Eof, &s2c, Ev::Eof, hs, accept).await;
            let case = format!("B {} {} {} {}", bufsz, chunks_s(&c2s), chunks_s(&s2c), hs);
            out.case(&case, &format!("srv=[{}] cli=[{}] ok={} cb={} sb={}", ts, tc, ok as u8, cb, sb));
            out.stat("scripted_both_eof");
            // oracle
            if hs > 0 {
                c2s[0].drain(..hs);
            }
            if delivered_of(&ts) != concat(&c2s) || delivered_of(&tc) != concat(&s2c) {
                out.oracle_fail("bytes-lost-or-changed", &format!("{}: server got {} client got {}", case, hex(&delivered_of(&ts)), hex(&delivered_of(&tc))));
            }
            if !ts.ends_with('s') || !tc.ends_with('s') || ts.matches(" s").count() + (ts == "s") as usize > 1 {
                out.oracle_fail("eof-not-relayed", &format!("{}: srv=[{}] cli=[{}]", case, ts, tc));
            }
            if !ok {
                out.oracle_fail("clean-close-reported-as-error", &case);
            }
        } else {
            let (ce, se) = match rng.below(3) {
                0 => (Ev::Reset, Ev::Eof),
                1 => (Ev::Eof, Ev::Reset),
                _ => (Ev::Reset, Ev::Reset),
            };
            let (ts, tc, ok, _, _) = scripted_bidi(w, bufsz, &c2s, ce.clone(), &s2c, se.clone(), 0, accept).await;
            let e = |x: &Ev| if *x == Ev::Eof { "eof" } else { "reset" };
            let case = format!("A {} {} {} {} {}", bufsz, chunks_s(&c2s), e(&ce), chunks_s(&s2c), e(&se));
            out.case(&case, &format!("ok={}", ok as u8));
            out.stat("scripted_abort");
            let is_prefix = |a: &[u8], b: &[u8]| a.len() <= b.len() && &b[..a.len()] == a;
            if !is_prefix(&delivered_of(&ts), &concat(&c2s)) || !is_prefix(&delivered_of(&tc), &concat(&s2c)) {
                out.oracle_fail("bytes-changed", &format!("{}: srv=[{}] cli=[{}]", case, ts, tc));
            }
            if ok {
                out.oracle_fail("abort-reported-as-clean", &case);
            }
            // a half that was aborted must not half-close its destination as if the stream had ended cleanly
            if ce == Ev::Reset && ts.ends_with('s') || se == Ev::Reset && tc.ends_with('s') {
                out.oracle_fail("abort-relayed-as-eof", &format!("{}: srv=[{}] cli=[{}]", case, ts, tc));
            }
        }
    }
}

// ------------------------------------------------------------------ end to end on loopback

struct Origin {
    port: u16,
}

/// what the origin does with each connection: read `expect` bytes (slowly when `slow`), then act
#[derive(Clone, Copy, Debug, PartialEq)]
enum Close {
    ClientFirst, // client half-closes; origin reads to EOF, then sends its data and closes
    OriginFirst, // origin sends its data and half-closes; client reads to EOF, then sends and closes
    ClientAbort, // client resets (SO_LINGER 0) after sending
    OriginAbort, // origin resets after sending
}

async fn read_all(cs: &mut TcpStream) -> (Vec<u8>, bool, bool) {
    let mut buf = vec![0u8; 65536];
    let mut got = vec![];
    let mut eof = false;
    let mut err = false;
    loop {
        match tokio::time::timeout(std::time::Duration::from_secs(6), cs.read(&mut buf)).await {
            Ok(Ok(0)) => {
                eof = true;
                break;
            }
            Ok(Ok(n)) => got.extend_from_slice(&buf[..n]),
            Ok(Err(_)) => {
                err = true;
                break;
            }
            Err(_) => break,
        }
    }
    (got, eof, err)
}

fn fnv(b: &[u8]) -> u64 {
    let mut h: u64 = 0xcbf29ce484222325;
    for x in b {
        h ^= *x as u64;
        h = h.wrapping_mul(0x100000001b3);
    }
    h
}

async fn e2e_world(use_splice: bool) -> (World, u16, u16) {
    let conns: Vec<(String, Vec<Feature>)> = vec![];
    let mut w = world(&conns, 50);
    {
        let st = Arc::get_mut(&mut w.state).unwrap();
        st.io_params = crate::config::IoParams { buffer_size: 65536, use_splice };
        let mut d = crate::connectors::from_value(&serde_yaml::from_str("name: direct\ntype: direct").unwrap()).unwrap();
        d.init().await.unwrap();
        st.connectors.insert("direct".into(), d.into());
    }
    set_rules(&w, &[("direct".into(), None)]).await.unwrap();
    let http = start_listener(&w, "name: http\ntype: http").await;
    let socks = start_listener(&w, "name: socks\ntype: socks").await;
    (w, http, socks)
}

async fn e2e_case(out: &mut Out, rng: &mut Rng, mode: &str, http: u16, socks: u16, listener: &str, splice: bool, early: usize, c2s: usize, s2c: usize, close: Close, slow: bool) {
    // origin
    let ol = TcpListener::bind("127.0.0.1:0").await.unwrap();
    let oport = ol.local_addr().unwrap().port();
    let down = rng.bytes(s2c);
    let down2 = down.clone();
    let origin = tokio::spawn(async move {
        let (mut s, _) = ol.accept().await.ok()?;
        let mut got = vec![];
        let mut saw_eof = false;
        let mut err = false;
        match close {
            Close::OriginFirst => {
                let _ = s.write_all(&down2).await;
                let _ = s.shutdown().await;
                let mut buf = vec![0u8; 8192];
                loop {
                    match tokio::time::timeout(std::time::Duration::from_secs(6), s.read(&mut buf)).await {
                        Ok(Ok(0)) => { saw_eof = true; break; }
                        Ok(Ok(n)) => got.extend_from_slice(&buf[..n]),
                        Ok(Err(_)) => { err = true; break; }
                        Err(_) => break,
                    }
                }
            }
            Close::OriginAbort => {
                let mut buf = vec![0u8; 8192];
                while got.len() < c2s {
                    match tokio::time::timeout(std::time::Duration::from_secs(6), s.read(&mut buf)).await {
                        Ok(Ok(0)) => { saw_eof = true; break; }
                        Ok(Ok(n)) => got.extend_from_slice(&buf[..n]),
                        _ => { err = true; break; }
                    }
                }
                let _ = s.write_all(&down2).await;
                tokio::time::sleep(std::time::Duration::from_millis(100)).await;
                let _ = s.set_linger(Some(std::time::Duration::from_secs(0)));
                drop(s);
                return Some((got, saw_eof, err));
            }
            _ => {
                let mut buf = vec![0u8; if slow { 1500 } else { 65536 }];
                loop {
                    if slow {
                        tokio::time::sleep(std::time::Duration::from_micros(300)).await;
                    }
                    match tokio::time::timeout(std::time::Duration::from_secs(6), s.read(&mut buf)).await {
                        Ok(Ok(0)) => { saw_eof = true; break; }
                        Ok(Ok(n)) => got.extend_from_slice(&buf[..n]),
                        Ok(Err(_)) => { err = true; break; }
                        Err(_) => break,
                    }
                }
                if saw_eof {
                    let _ = s.write_all(&down2).await;
                    let _ = s.shutdown().await;
                }
            }
        }
        Some((got, saw_eof, err))
    });
    // client
    let up = rng.bytes(c2s);
    let (port, hs, reply_len): (u16, Vec<u8>, usize) = if listener == "http" {
        (http, format!("CONNECT 127.0.0.1:{} HTTP/1.1\r\nHost: x\r\n\r\n", oport).into_bytes(), 39)
    } else {
        let mut r = vec![5u8, 1, 0, 5, 1, 0, 1, 127, 0, 0, 1];
        r.extend(oport.to_be_bytes());
        (socks, r, 12)
    };
    let mut cs = TcpStream::connect(("127.0.0.1", port)).await.unwrap();
    let early_n = early.min(up.len());
    let mut first = hs.clone();
    first.extend_from_slice(&up[..early_n]);
    let _ = cs.write_all(&first).await;
    let mut reply = vec![0u8; reply_len];
    let got_reply = tokio::time::timeout(std::time::Duration::from_secs(5), cs.read_exact(&mut reply)).await.map(|r| r.is_ok()).unwrap_or(false);
    let mut cgot = vec![];
    let mut c_eof = false;
    let mut c_err = false;
    let t0 = std::time::Instant::now();
    match close {
        Close::ClientFirst | Close::OriginAbort => {
            let _ = cs.write_all(&up[early_n..]).await;
            if close == Close::ClientFirst {
                let _ = cs.shutdown().await;
            }
            let (g, e, er) = read_all(&mut cs).await;
            cgot = g; c_eof = e; c_err = er;
        }
        Close::OriginFirst => {
            let (g, e, er) = read_all(&mut cs).await;
            cgot = g; c_eof = e; c_err = er;
            let _ = cs.write_all(&up[early_n..]).await;
            let _ = cs.shutdown().await;
        }
        Close::ClientAbort => {
            let _ = cs.write_all(&up[early_n..]).await;
            tokio::time::sleep(std::time::Duration::from_millis(100)).await;
            let _ = cs.set_linger(Some(std::time::Duration::from_secs(0)));
            drop(cs);
        }
    }
    let (ogot, o_eof, o_err) = tokio::time::timeout(std::time::Duration::from_secs(8), origin).await.ok().and_then(|r| r.ok()).flatten().unwrap_or((vec![], false, true));
    let elapsed = t0.elapsed().as_millis();
    let case = format!("T {} {} {} {} {} {:?}{}", listener, splice as u8, early_n, c2s, s2c, close, if slow { "+slow" } else { "" });
    // canonical outcome, as the theorems predict it: everything delivered, EOF seen after it, both closed
    let up_ok = ogot.len() == up.len() && fnv(&ogot) == fnv(&up);
    let down_ok = cgot.len() == down.len() && fnv(&cgot) == fnv(&down);
    let imp = match close {
        Close::ClientFirst | Close::OriginFirst => format!("reply={} up={} down={} origin_eof={} client_eof={}", got_reply as u8, up_ok as u8, down_ok as u8, o_eof as u8, c_eof as u8),
        Close::ClientAbort => format!("reply={} origin_closed={}", got_reply as u8, (o_eof || o_err) as u8),
        Close::OriginAbort => format!("reply={} client_closed={}", got_reply as u8, (c_eof || c_err) as u8),
    };
    out.case(&case, &imp);
    out.stat(&format!("e2e_{}_{}", mode, if splice { "splice" } else { "buffered" }));
    if !got_reply {
        out.oracle_fail("no-reply", &case);
        return;
    }
    match close {
        Close::ClientFirst | Close::OriginFirst => {
            if !up_ok {
                out.oracle_fail("client-to-origin-bytes", &format!("{}: origin received {} of {} bytes (hash {})", case, ogot.len(), up.len(), if fnv(&ogot) == fnv(&up) { "equal" } else { "differs" }));
            }
            if !down_ok {
                out.oracle_fail("origin-to-client-bytes", &format!("{}: client received {} of {} bytes", case, cgot.len(), down.len()));
            }
            if !o_eof || !c_eof {
                out.oracle_fail("eof-not-relayed", &format!("{}: origin saw EOF={} client saw EOF={} (waited {} ms)", case, o_eof, c_eof, elapsed));
            }
        }
        Close::ClientAbort => {
            if !(o_eof || o_err) {
                out.oracle_fail("abort-not-relayed", &format!("{}: origin socket still open 6 s after the client reset", case));
            }
        }
        Close::OriginAbort => {
            if !(c_eof || c_err) {
                out.oracle_fail("abort-not-relayed", &format!("{}: client socket still open 6 s after the origin reset", case));
            }
        }
    }
}

async fn e2e(out: &mut Out, rng: &mut Rng, mode: &str, thorough: bool) {
    for splice in [true, false] {
        let (_w, http, socks) = e2e_world(splice).await;
        let sizes: &[usize] = if thorough { &[0, 1, 1000, 65536, 70000, 300000, 2000000] } else { &[0, 1, 1000, 70000, 400000] };
        for listener in ["http", "socks"] {
            for &c2s in sizes {
                let closes: &[Close] = if mode == "c01" { &[Close::ClientFirst, Close::OriginFirst] } else { &[Close::ClientFirst, Close::OriginFirst, Close::ClientAbort, Close::OriginAbort] };
                for &close in closes {
                    let s2c = *rng.pick(sizes);
                    let early = *rng.pick(&[0usize, 0, 5, 1000, 100000]);
                    let slow = c2s >= 70000 && rng.chance(1, 2);
                    e2e_case(out, rng, mode, http, socks, listener, splice, early, c2s, s2c, close, slow).await;
                }
            }
        }
        // concurrent tunnels with distinct payloads: no byte of one connection in another (hash per tunnel)
        if mode == "c01" {
            let mut hs = vec![];
            for i in 0..(if thorough { 24 } else { 8 }) {
                let mut r2 = Rng(rng.next());
                let (http, socks) = (http, socks);
                hs.push(tokio::spawn(async move {
                    let mut o = Out::new(&format!("/tmp/.verif-c01-par-{}-{}", std::process::id(), i), &[]);
                    e2e_case(&mut o, &mut r2, "c01", http, socks, if i % 2 == 0 { "http" } else { "socks" }, splice, 7, 50000 + i * 1111, 30000 + i * 777, Close::ClientFirst, false).await;
                    let bad = o.n_oracle_fail;
                    let p = o.prefix.clone();
                    drop(o);
                    for ext in ["cases", "impl", "oracle"] {
                        let _ = std::fs::remove_file(format!("{}.{}", p, ext));
                    }
                    bad
                }));
            }
            let mut bad = 0;
            for h in hs {
                bad += h.await.unwrap_or(1);
            }
            out.case(&format!("PAR {} {}", splice as u8, if thorough { 24 } else { 8 }), if bad == 0 { "ok" } else { "bad" });
            if bad > 0 {
                out.oracle_fail("concurrent-tunnels", &format!("{} of the concurrent tunnels lost, changed or mixed bytes (splice={})", bad, splice));
            }
        }
    }
}

/// chained upstream over IPv6: client -> socks/http listener -> `http` connector (server ::1) -> fake upstream proxy that
/// answers 200 and then echoes the tunnel back until EOF.  The outgoing socket of the proxy is IPv6.
async fn chain_cases(out: &mut Out, rng: &mut Rng, thorough: bool) {
    let ul = match TcpListener::bind("[::1]:0").await {
        Ok(l) => l,
        Err(_) => {
            out.stat("chain_skipped_no_ipv6");
            return;
        }
    };
    let uport = ul.local_addr().unwrap().port();
    tokio::spawn(async move {
        loop {
            let (mut s, _) = match ul.accept().await {
                Ok(x) => x,
                Err(_) => return,
            };
            tokio::spawn(async move {
                let mut head = vec![];
                let mut b = [0u8; 1];
                while !head.ends_with(b"\r\n\r\n") {
                    match s.read(&mut b).await {
                        Ok(1) => head.push(b[0]),
                        _ => return,
                    }
                }
                let _ = s.write_all(b"HTTP/1.1 200 OK\r\n\r\n").await;
                let mut got = vec![];
                let _ = s.read_to_end(&mut got).await;
                let _ = s.write_all(&got).await;
                let _ = s.shutdown().await;
            });
        }
    });
    for splice in [true, false] {
        let mut w = world(&[], 50);
        {
            let st = Arc::get_mut(&mut w.state).unwrap();
            st.io_params = crate::config::IoParams { buffer_size: 65536, use_splice: splice };
            let mut d = crate::connectors::from_value(&serde_yaml::from_str(&format!("name: up\ntype: http\nserver: \"::1\"\nport: {}", uport)).unwrap()).unwrap();
            d.init().await.unwrap();
            st.connectors.insert("up".into(), d.into());
        }
        set_rules(&w, &[("up".into(), None)]).await.unwrap();
        let http = start_listener(&w, "name: http\ntype: http").await;
        let socks = start_listener(&w, "name: socks\ntype: socks").await;
        for proto in ["socks4", "socks4a", "socks5", "http"] {
            for &n in (if thorough { &[0usize, 1, 6, 7, 1000, 100000][..] } else { &[0usize, 6, 1000, 100000][..] }) {
                let payload = rng.bytes(n);
                let early = if rng.chance(1, 2) { n.min(5) } else { 0 };
                let (port, hs, reply_len): (u16, Vec<u8>, usize) = match proto {
                    "socks4" => (socks, vec![4, 1, 0, 80, 1, 2, 3, 4, b'u', 0], 8),
                    "socks4a" => {
                        let mut r = vec![4, 1, 0, 80, 0, 0, 0, 1, b'u', 0];
                        r.extend(b"origin.example");
                        r.push(0);
                        (socks, r, 8)
                    }
                    "socks5" => (socks, vec![5, 1, 0, 5, 1, 0, 1, 1, 2, 3, 4, 0, 80], 12),
                    _ => (http, b"CONNECT origin.example:80 HTTP/1.1\r\nHost: x\r\n\r\n".to_vec(), 39),
                };
                let mut cs = TcpStream::connect(("127.0.0.1", port)).await.unwrap();
                let mut first = hs.clone();
                first.extend_from_slice(&payload[..early]);
                let _ = cs.write_all(&first).await;
                let mut reply = vec![0u8; reply_len];
                let got_reply = tokio::time::timeout(std::time::Duration::from_secs(5), cs.read_exact(&mut reply)).await.map(|r| r.is_ok()).unwrap_or(false);
                let _ = cs.write_all(&payload[early..]).await;
                let _ = cs.shutdown().await;
                let (echo, eof, _) = read_all(&mut cs).await;
                let reply_ok = match proto {
                    "socks4" | "socks4a" => reply[0] == 0 && reply[1] == 90,
                    "socks5" => reply[..5] == [5, 0, 5, 0, 0],
                    _ => reply.starts_with(b"HTTP/1.1 200 "),
                };
                let ok = got_reply && reply_ok && echo == payload && eof;
                out.case(&format!("CH {} {} {} {}", proto, splice as u8, early, n), if ok { "ok" } else { "bad" });
                out.stat("chain_ipv6_http_upstream");
                if !ok {
                    out.oracle_fail("chained-tunnel", &format!("{} via http upstream on ::1 (splice={}): reply complete={} success={} echoed {} of {} bytes equal={} eof={}; first bytes {}", proto, splice, got_reply, reply_ok, echo.len(), payload.len(), echo == payload, eof, hex(&echo[..echo.len().min(12)])));
                }
            }
        }
    }
}

pub const PKI: &str = "/verif/harness/pki";

pub fn pem_certs(name: &str) -> Vec<tokio_rustls::rustls::Certificate> {
    let mut r = std::io::BufReader::new(std::fs::File::open(format!("{}/{}.crt", PKI, name)).unwrap());
    rustls_pemfile::certs(&mut r).unwrap().into_iter().map(tokio_rustls::rustls::Certificate).collect()
}
pub fn pem_key(name: &str) -> tokio_rustls::rustls::PrivateKey {
    let mut r = std::io::BufReader::new(std::fs::File::open(format!("{}/{}.key", PKI, name)).unwrap());
    tokio_rustls::rustls::PrivateKey(rustls_pemfile::pkcs8_private_keys(&mut r).unwrap().remove(0))
}
pub fn tls_client_cfg(alpn: Option<&[u8]>) -> tokio_rustls::rustls::ClientConfig {
    let mut roots = tokio_rustls::rustls::RootCertStore::empty();
    for c in pem_certs("ca") {
        roots.add(&c).unwrap();
    }
    let mut c = tokio_rustls::rustls::ClientConfig::builder().with_safe_defaults().with_root_certificates(roots).with_no_client_auth();
    if let Some(a) = alpn {
        c.alpn_protocols = vec![a.to_vec()];
    }
    c
}

/// pairings with TLS and QUIC on either hop: every client speaks CONNECT (plain / over TLS / over a QUIC stream), the
/// upstream hop is direct, an http upstream over TLS, or a QUIC upstream; the far end echoes the tunnel until EOF
async fn secure_pairings(out: &mut Out, rng: &mut Rng, thorough: bool) {
    use tokio_rustls::rustls;
    // echo origin (plain TCP)
    let ol = TcpListener::bind("127.0.0.1:0").await.unwrap();
    let origin = ol.local_addr().unwrap().port();
    tokio::spawn(async move {
        loop {
            if let Ok((mut s, _)) = ol.accept().await {
                tokio::spawn(async move {
                    let mut got = vec![];
                    let _ = s.read_to_end(&mut got).await;
                    let _ = s.write_all(&got).await;
                    let _ = s.shutdown().await;
                });
            }
        }
    });
    // TLS http upstream proxy: CONNECT -> 200, then echo until EOF
    let tls_up = {
        let cfg = rustls::ServerConfig::builder().with_safe_defaults().with_no_client_auth().with_single_cert(pem_certs("server"), pem_key("server")).unwrap();
        let acc = tokio_rustls::TlsAcceptor::from(Arc::new(cfg));
        let l = TcpListener::bind("127.0.0.1:0").await.unwrap();
        let port = l.local_addr().unwrap().port();
        tokio::spawn(async move {
            while let Ok((s, _)) = l.accept().await {
                let acc = acc.clone();
                tokio::spawn(async move {
                    if let Ok(mut t) = acc.accept(s).await {
                        let mut head = vec![];
                        let mut b = [0u8; 1];
                        while !head.ends_with(b"\r\n\r\n") {
                            match t.read(&mut b).await {
                                Ok(1) => head.push(b[0]),
                                _ => return,
                            }
                        }
                        let _ = t.write_all(b"HTTP/1.1 200 OK\r\n\r\n").await;
                        let _ = t.flush().await;
                        let mut got = vec![];
                        // the proxy's end of stream must be a clean TLS close: otherwise nothing is echoed (and the case fails)
                        if t.read_to_end(&mut got).await.is_err() {
                            return;
                        }
                        let _ = t.write_all(&got).await;
                        let _ = t.shutdown().await;
                    }
                });
            }
        });
        port
    };
    // second proxy instance B: quic listener -> direct (the QUIC upstream of instance A)
    let mk_world = |splice: bool| {
        let mut w = world(&[], 50);
        Arc::get_mut(&mut w.state).unwrap().io_params = crate::config::IoParams { buffer_size: 65536, use_splice: splice };
        w
    };
    let conn = |yaml: String| async move {
        let mut c = crate::connectors::from_value(&serde_yaml::from_str(&yaml).unwrap()).unwrap();
        c.init().await.unwrap();
        let c: Arc<dyn crate::connectors::Connector> = c.into();
        c
    };
    let mut wb = mk_world(false);
    Arc::get_mut(&mut wb.state).unwrap().connectors.insert("direct".into(), conn("name: direct\ntype: direct".into()).await);
    set_rules(&wb, &[("direct".into(), None)]).await.unwrap();
    let tls_yaml = format!("tls:\n  cert: {}/server.crt\n  key: {}/server.key", PKI, PKI);
    let b_quic = start_listener_udp(&wb, &format!("name: bq\ntype: quic\n{}", tls_yaml)).await;
    // instance A
    let mut wa = mk_world(true);
    {
        let st = Arc::get_mut(&mut wa.state).unwrap();
        st.connectors.insert("direct".into(), conn("name: direct\ntype: direct".into()).await);
        st.connectors.insert("tlsup".into(), conn(format!("name: tlsup\ntype: http\nserver: localhost\nport: {}\ntls:\n  ca: {}/ca.crt", tls_up, PKI)).await);
        st.connectors.insert("quicup".into(), conn(format!("name: quicup\ntype: quic\nserver: localhost\nport: {}\nbind: \"127.0.0.1:0\"\ntls:\n  ca: {}/ca.crt", b_quic, PKI)).await);
    }
    set_rules(&wa, &[("tlsup".into(), Some("request.target.port == 1".into())), ("quicup".into(), Some("request.target.port == 2".into())), ("direct".into(), None)]).await.unwrap();
    let a_http = start_listener(&wa, "name: http\ntype: http").await;
    let a_https = start_listener(&wa, &format!("name: https\ntype: http\n{}", tls_yaml)).await;
    let a_sockss = start_listener(&wa, &format!("name: sockss\ntype: socks\n{}", tls_yaml)).await;
    let a_quic = start_listener_udp(&wa, &format!("name: aq\ntype: quic\n{}", tls_yaml)).await;
    tokio::time::sleep(std::time::Duration::from_millis(100)).await;
    let sizes: &[usize] = if thorough { &[0, 1, 5, 1000, 70000, 400000] } else { &[0, 5, 1000, 200000] };
    for listener in ["http", "https", "socks+tls", "quic"] {
        for upstream in ["direct", "http+tls", "quic"] {
            for &n in sizes {
                let payload = rng.bytes(n);
                let early = if rng.chance(1, 2) { n.min(5) } else { 0 };
                // target: the port selects the upstream hop by rule; for `direct` it is the real origin
                let target = match upstream {
                    "direct" => format!("127.0.0.1:{}", origin),
                    "http+tls" => "origin.example:1".to_string(),
                    _ => format!("127.0.0.1:{}", origin), // via B (quic) -> direct: rule on port 2 cannot address the origin
                };
                // for the quic upstream the rule must fire although the target is the origin: use a dedicated listener name instead
                if upstream == "quic" {
                    set_rules(&wa, &[("quicup".into(), None)]).await.unwrap();
                } else {
                    set_rules(&wa, &[("tlsup".into(), Some("request.target.port == 1".into())), ("direct".into(), None)]).await.unwrap();
                }
                let head: Vec<u8> = if listener == "socks+tls" {
                    // SOCKS5 with a domain / ip target
                    let (host, port) = target.rsplit_once(':').unwrap();
                    let mut r = vec![5u8, 1, 0, 5, 1, 0, 3, host.len() as u8];
                    r.extend(host.as_bytes());
                    r.extend(port.parse::<u16>().unwrap().to_be_bytes());
                    r
                } else {
                    format!("CONNECT {} HTTP/1.1\r\nHost: x\r\n\r\n", target).into_bytes()
                };
                let reply_len = if listener == "socks+tls" { 2 + 4 } else { 39 };
                let mut first = head.clone();
                first.extend_from_slice(&payload[..early]);
                let result: Option<(Vec<u8>, Vec<u8>, bool)> = async {
                    match listener {
                        "quic" => {
                            let mut ep = quinn::Endpoint::client("127.0.0.1:0".parse().unwrap()).ok()?;
                            ep.set_default_client_config(quinn::ClientConfig::new(Arc::new(tls_client_cfg(Some(b"h11c")))));
                            let c = tokio::time::timeout(std::time::Duration::from_secs(5), ep.connect(format!("127.0.0.1:{}", a_quic).parse().unwrap(), "localhost").ok()?).await.ok()?.ok()?;
                            let (mut tx, mut rx) = c.open_bi().await.ok()?;
                            tx.write_all(&first).await.ok()?;
                            let mut reply = vec![0u8; reply_len];
                            tokio::time::timeout(std::time::Duration::from_secs(15), rx.read_exact(&mut reply)).await.ok()?.ok()?;
                            tx.write_all(&payload[early..]).await.ok()?;
                            tx.finish().await.ok()?;
                            let echo = tokio::time::timeout(std::time::Duration::from_secs(15), rx.read_to_end(10_000_000)).await.ok()?.ok()?;
                            c.close(0u32.into(), b"");
                            Some((reply, echo, true))
                        }
                        _ => {
                            let port = match listener {
                                "http" => a_http,
                                "https" => a_https,
                                _ => a_sockss,
                            };
                            let tcp = TcpStream::connect(("127.0.0.1", port)).await.ok()?;
                            if listener == "http" {
                                let mut s = tcp;
                                s.write_all(&first).await.ok()?;
                                let mut reply = vec![0u8; reply_len];
                                tokio::time::timeout(std::time::Duration::from_secs(15), s.read_exact(&mut reply)).await.ok()?.ok()?;
                                s.write_all(&payload[early..]).await.ok()?;
                                s.shutdown().await.ok()?;
                                let (echo, eof, _) = read_all(&mut s).await;
                                Some((reply, echo, eof))
                            } else {
                                let conn = tokio_rustls::TlsConnector::from(Arc::new(tls_client_cfg(None)));
                                let mut s = tokio::time::timeout(std::time::Duration::from_secs(5), conn.connect(rustls::ServerName::try_from("localhost").unwrap(), tcp)).await.ok()?.ok()?;
                                s.write_all(&first).await.ok()?;
                                s.flush().await.ok()?;
                                let mut reply = vec![0u8; reply_len];
                                tokio::time::timeout(std::time::Duration::from_secs(15), s.read_exact(&mut reply)).await.ok()?.ok()?;
                                if listener == "socks+tls" {
                                    // method reply (2) + ver rep rsv atyp; the bound address follows
                                    let rest = match reply[5] {
                                        1 => 6,
                                        4 => 18,
                                        3 => {
                                            let mut l = [0u8; 1];
                                            s.read_exact(&mut l).await.ok()?;
                                            l[0] as usize + 2
                                        }
                                        _ => return None,
                                    };
                                    let mut addr = vec![0u8; rest];
                                    tokio::time::timeout(std::time::Duration::from_secs(5), s.read_exact(&mut addr)).await.ok()?.ok()?;
                                }
                                s.write_all(&payload[early..]).await.ok()?;
                                s.flush().await.ok()?;
                                s.shutdown().await.ok()?;
                                let mut echo = vec![];
                                // a clean end of stream: the proxy's TLS side must close with close_notify (a bare FIN is a truncation to a TLS peer)
                                let eof = matches!(tokio::time::timeout(std::time::Duration::from_secs(15), s.read_to_end(&mut echo)).await, Ok(Ok(_)));
                                Some((reply, echo, eof))
                            }
                        }
                    }
                }
                .await;
                let (ok, detail) = match &result {
                    None => (false, "no reply / handshake failed".to_string()),
                    Some((reply, echo, eof)) => {
                        let reply_ok = if listener == "socks+tls" { reply[..2] == [5, 0] && reply[2..5] == [5, 0, 0] } else { reply.starts_with(b"HTTP/1.1 200 ") };
                        (reply_ok && *echo == payload && *eof, format!("success reply={} echoed {} of {} bytes equal={} eof={}", reply_ok, echo.len(), payload.len(), *echo == payload, eof))
                    }
                };
                out.case(&format!("SP {} {} {} {}", listener, upstream, early, n), if ok { "ok" } else { "bad" });
                out.stat(&format!("secure_{}_{}", listener.replace('+', "_"), upstream.replace('+', "_")));
                if !ok {
                    out.oracle_fail("secure-pairing", &format!("{} client -> {} upstream, {} bytes ({} early): {}", listener, upstream, n, early, detail));
                }
            }
        }
    }
}

/// like start_listener but for a UDP (QUIC) listener
pub async fn start_listener_udp(w: &World, yaml_without_bind: &str) -> u16 {
    use crate::listeners::Listener;
    for _ in 0..20 {
        let port = std::net::UdpSocket::bind("127.0.0.1:0").unwrap().local_addr().unwrap().port();
        let yaml = format!("{}\nbind: 127.0.0.1:{}", yaml_without_bind, port);
        let mut l = crate::listeners::from_value(&serde_yaml::from_str(&yaml).unwrap()).expect("listener config");
        if l.init().await.is_err() {
            continue;
        }
        let l: Arc<dyn Listener> = l.into();
        let (tx, mut rx) = tokio::sync::mpsc::channel(100);
        if l.listen(w.state.clone(), tx).await.is_err() {
            continue;
        }
        let st = w.state.clone();
        tokio::spawn(async move {
            while let Some(ctx) = rx.recv().await {
                tokio::spawn(crate::process_request(ctx, st.clone()));
            }
        });
        return port;
    }
    panic!("no free port");
}

/// a tunnel that dies while the relay holds undelivered bytes (its destination resets), then a fresh tunnel in the same
/// process: the fresh tunnel's two byte streams must be exactly its own (buffered path and splice path)
async fn cross_connection(out: &mut Out, rng: &mut Rng, thorough: bool) {
    for splice in [false, true] {
        let mut w = world(&[], 50);
        Arc::get_mut(&mut w.state).unwrap().io_params = crate::config::IoParams { buffer_size: 65536, use_splice: splice };
        {
            let mut c = crate::connectors::from_value(&serde_yaml::from_str("name: direct\ntype: direct").unwrap()).unwrap();
            c.init().await.unwrap();
            Arc::get_mut(&mut w.state).unwrap().connectors.insert("direct".into(), c.into());
        }
        set_rules(&w, &[("direct".into(), None)]).await.unwrap();
        {
            // a short idle period: a tunnel that is stuck in a write towards a peer that never reads is ended by the idle timer
            let st = Arc::get_mut(&mut w.state).unwrap();
            if let Some(c) = Arc::get_mut(&mut st.contexts) {
                c.default_timeout = 1;
            }
        }
        let http = start_listener(&w, "name: http\ntype: http").await;
        // origin S: accepts and never reads
        let sl = TcpListener::bind("127.0.0.1:0").await.unwrap();
        let sport = sl.local_addr().unwrap().port();
        tokio::spawn(async move {
            let mut keep = vec![];
            while let Ok((s, _)) = sl.accept().await {
                keep.push(s);
            }
        });
        // origin R: reads a little, then resets the connection while the client keeps sending
        let rl = TcpListener::bind("127.0.0.1:0").await.unwrap();
        let rport = rl.local_addr().unwrap().port();
        tokio::spawn(async move {
            while let Ok((mut s, _)) = rl.accept().await {
                tokio::spawn(async move {
                    let mut b = [0u8; 16];
                    let _ = s.read(&mut b).await;
                    let _ = s.set_linger(Some(std::time::Duration::from_secs(0)));
                    drop(s);
                });
            }
        });
        // origin E: echo until EOF
        let el = TcpListener::bind("127.0.0.1:0").await.unwrap();
        let eport = el.local_addr().unwrap().port();
        tokio::spawn(async move {
            while let Ok((mut s, _)) = el.accept().await {
                tokio::spawn(async move {
                    let mut got = vec![];
                    let _ = s.read_to_end(&mut got).await;
                    let _ = s.write_all(&got).await;
                    let _ = s.shutdown().await;
                });
            }
        });
        tokio::time::sleep(std::time::Duration::from_millis(50)).await;
        for round in 0..(if thorough { 12 } else { 4 }) {
            // tunnel A: the secret goes towards an origin that resets
            let secret: Vec<u8> = std::iter::repeat(b"A-PRIVATE-".iter().copied()).flatten().take(40_000 + 1000 * round).collect();
            if let Ok(mut a) = TcpStream::connect(("127.0.0.1", http)).await {
                let _ = a.write_all(format!("CONNECT 127.0.0.1:{} HTTP/1.1\r\nHost: x\r\n\r\n", rport).as_bytes()).await;
                let mut r = vec![0u8; 39];
                let _ = tokio::time::timeout(std::time::Duration::from_secs(3), a.read_exact(&mut r)).await;
                for chunk in secret.chunks(4096) {
                    if a.write_all(chunk).await.is_err() {
                        break;
                    }
                    tokio::time::sleep(std::time::Duration::from_millis(1)).await;
                }
                let mut sink = vec![];
                let _ = tokio::time::timeout(std::time::Duration::from_millis(300), a.read_to_end(&mut sink)).await;
            }
            // tunnel A': the secret goes towards an origin that never reads; the relay is stuck in the write until the idle timer ends it
            if round % 2 == 0 {
                if let Ok(mut a) = TcpStream::connect(("127.0.0.1", http)).await {
                    let _ = a.write_all(format!("CONNECT 127.0.0.1:{} HTTP/1.1\r\nHost: x\r\n\r\n", sport).as_bytes()).await;
                    let mut r = vec![0u8; 39];
                    let _ = tokio::time::timeout(std::time::Duration::from_secs(3), a.read_exact(&mut r)).await;
                    let big: Vec<u8> = std::iter::repeat(b"A-PRIVATE-".iter().copied()).flatten().take(1 << 20).collect();
                    for _ in 0..16 {
                        if tokio::time::timeout(std::time::Duration::from_millis(150), a.write_all(&big)).await.is_err() {
                            break;
                        }
                    }
                    // wait for the proxy to give the tunnel up (idle period 1 s + 1 s tick)
                    let mut sink = vec![0u8; 64];
                    let _ = tokio::time::timeout(std::time::Duration::from_millis(3500), a.read(&mut sink)).await;
                }
            }
            // tunnels B1, B2: distinct payloads, echoed
            for k in 0..2 {
                let n = *rng.pick(&[1usize, 100, 5000, 70000]);
                let payload: Vec<u8> = (0..n).map(|i| b'a' + ((i + k + round) % 23) as u8).collect();
                let res: Option<Vec<u8>> = async {
                    let mut b = TcpStream::connect(("127.0.0.1", http)).await.ok()?;
                    b.write_all(format!("CONNECT 127.0.0.1:{} HTTP/1.1\r\nHost: x\r\n\r\n", eport).as_bytes()).await.ok()?;
                    let mut r = vec![0u8; 39];
                    tokio::time::timeout(std::time::Duration::from_secs(3), b.read_exact(&mut r)).await.ok()?.ok()?;
                    b.write_all(&payload).await.ok()?;
                    b.shutdown().await.ok()?;
                    let (echo, _, _) = read_all(&mut b).await;
                    Some(echo)
                }
                .await;
                let ok = res.as_deref() == Some(&payload[..]);
                out.case(&format!("XC {} {} {} {}", splice as u8, round, k, n), if ok { "ok" } else { "bad" });
                out.stat("cross_connection_after_failure");
                if !ok {
                    let e = res.unwrap_or_default();
                    let foreign = e.windows(9).any(|w| w == b"A-PRIVATE");
                    out.oracle_fail(
                        if foreign { "bytes-of-another-connection" } else { "bytes-lost" },
                        &format!("splice={} round {}: after tunnels that died with undelivered bytes (origin reset; origin not reading until the idle timer fired), a fresh tunnel sent {} bytes and got back {} bytes ({}), starting with {:?}", splice, round, payload.len(), e.len(), if foreign { "containing bytes of the dead tunnel" } else { "not its own bytes" }, String::from_utf8_lossy(&e[..e.len().min(40)])),
                    );
                }
            }
        }
    }
}

/// the upstream proxy's success reply and the first bytes of the origin (a banner: the origin speaks first) arrive in ONE
/// segment at the http / socks connector: the banner must reach the client
async fn glued_reply(out: &mut Out) {
    const BANNER: &[u8] = b"220 mail.example.org ESMTP ready\r\n";
    // fake http upstream
    let hl = TcpListener::bind("127.0.0.1:0").await.unwrap();
    let hport = hl.local_addr().unwrap().port();
    tokio::spawn(async move {
        while let Ok((mut s, _)) = hl.accept().await {
            tokio::spawn(async move {
                let mut head = vec![];
                let mut b = [0u8; 1];
                while !head.ends_with(b"\r\n\r\n") {
                    match s.read(&mut b).await {
                        Ok(1) => head.push(b[0]),
                        _ => return,
                    }
                }
                let mut reply = b"HTTP/1.1 200 Connection established\r\n\r\n".to_vec();
                reply.extend_from_slice(BANNER);
                let _ = s.write_all(&reply).await;
                let mut buf = [0u8; 4096];
                while let Ok(n) = s.read(&mut buf).await {
                    if n == 0 || s.write_all(&buf[..n]).await.is_err() {
                        break;
                    }
                }
            });
        }
    });
    // fake SOCKS5 upstream
    let sl = TcpListener::bind("127.0.0.1:0").await.unwrap();
    let sport = sl.local_addr().unwrap().port();
    tokio::spawn(async move {
        while let Ok((mut s, _)) = sl.accept().await {
            tokio::spawn(async move {
                let mut h = [0u8; 2];
                if s.read_exact(&mut h).await.is_err() {
                    return;
                }
                let mut methods = vec![0u8; h[1] as usize];
                let _ = s.read_exact(&mut methods).await;
                let _ = s.write_all(&[5, 0]).await;
                let mut r = [0u8; 4];
                if s.read_exact(&mut r).await.is_err() {
                    return;
                }
                let rest = match r[3] {
                    1 => 6,
                    4 => 18,
                    _ => {
                        let mut l = [0u8; 1];
                        let _ = s.read_exact(&mut l).await;
                        l[0] as usize + 2
                    }
                };
                let mut a = vec![0u8; rest];
                let _ = s.read_exact(&mut a).await;
                let mut reply = vec![5u8, 0, 0, 1, 0, 0, 0, 0, 0, 0];
                reply.extend_from_slice(BANNER);
                let _ = s.write_all(&reply).await;
                let mut buf = [0u8; 4096];
                while let Ok(n) = s.read(&mut buf).await {
                    if n == 0 || s.write_all(&buf[..n]).await.is_err() {
                        break;
                    }
                }
            });
        }
    });
    for splice in [false, true] {
        let mut w = world(&[], 20);
        {
            let st = Arc::get_mut(&mut w.state).unwrap();
            st.io_params = crate::config::IoParams { buffer_size: 65536, use_splice: splice };
            for (name, yaml) in [("hup", format!("name: hup\ntype: http\nserver: 127.0.0.1\nport: {}", hport)), ("sup", format!("name: sup\ntype: socks\nserver: 127.0.0.1\nport: {}", sport))] {
                let mut c = crate::connectors::from_value(&serde_yaml::from_str(&yaml).unwrap()).unwrap();
                c.init().await.unwrap();
                st.connectors.insert(name.into(), c.into());
            }
        }
        set_rules(&w, &[("hup".into(), Some("request.target.port == 1".into())), ("sup".into(), None)]).await.unwrap();
        let http = start_listener(&w, "name: http\ntype: http").await;
        tokio::time::sleep(std::time::Duration::from_millis(50)).await;
        for (kind, tport) in [("http", 1u16), ("socks", 2)] {
            let res: Option<(Vec<u8>, bool)> = async {
                let mut c = TcpStream::connect(("127.0.0.1", http)).await.ok()?;
                c.write_all(format!("CONNECT origin.example:{} HTTP/1.1\r\nHost: x\r\n\r\n", tport).as_bytes()).await.ok()?;
                let mut r = vec![0u8; 39];
                tokio::time::timeout(std::time::Duration::from_secs(3), c.read_exact(&mut r)).await.ok()?.ok()?;
                let mut banner = vec![0u8; BANNER.len()];
                let got = tokio::time::timeout(std::time::Duration::from_secs(2), c.read_exact(&mut banner)).await;
                if !matches!(got, Ok(Ok(_))) {
                    return Some((vec![], false));
                }
                c.write_all(b"ping").await.ok()?;
                let mut e = [0u8; 4];
                let echoed = matches!(tokio::time::timeout(std::time::Duration::from_secs(2), c.read_exact(&mut e)).await, Ok(Ok(_))) && &e == b"ping";
                Some((banner, echoed))
            }
            .await;
            let ok = matches!(&res, Some((b, true)) if b == BANNER);
            out.case(&format!("GB {} {}", kind, splice as u8), if ok { "ok" } else { "bad" });
            out.stat("glued_reply");
            if !ok {
                out.oracle_fail("bytes-lost", &format!("{} connector (splice={}): the origin's first bytes arrived in the same segment as the upstream's success reply and did not reach the client: {:?}", kind, splice, res.map(|x| (String::from_utf8_lossy(&x.0).to_string(), x.1))));
            }
        }
    }
}

pub async fn run_c01(out: &mut Out) {
    let mut rng = Rng(out.seed() ^ 0xC01);
    let thorough = out.tier_thorough();
    let w = world(&[], 10);
    scripted_cases(out, &mut rng, &w, if thorough { 6000 } else { 800 }, false).await;
    e2e(out, &mut rng, "c01", thorough).await;
    chain_cases(out, &mut rng, thorough).await;
    secure_pairings(out, &mut rng, thorough).await;
    cross_connection(out, &mut rng, thorough).await;
    glued_reply(out).await;
}

pub async fn run_c04(out: &mut Out) {
    let mut rng = Rng(out.seed() ^ 0xC04);
    let thorough = out.tier_thorough();
    let w = world(&[], 10);
    scripted_cases(out, &mut rng, &w, if thorough { 6000 } else { 900 }, true).await;
    e2e(out, &mut rng, "c04", thorough).await;
    // half-close over TLS and QUIC legs: the client half-closes, the far end answers after seeing EOF, the answer and a
    // clean end of stream must reach the client
    secure_pairings(out, &mut rng, thorough).await;
}
