// C17: load-balancer selection laws, on the real LoadBalanceConnector (built through connectors::from_value + init +
// verify) with recording members.
//   RR  <n> <k>            k sequential selections on a fresh balancer        -> member indices  "0,1,2,0"
//   RRC <n> <tasks> <per>  tasks*per selections from concurrent tasks         -> per-member counts "k,k,k"
//   H   <n> <key hex> <h>  hash-by: the key value of this request and its DefaultHasher hash (sampled here) -> member index
//   RND <n> <draws>        random: only members, every member seen            -> ok
use super::c08::{props_of, req_pool, Req};
use super::route::*;
use super::util::*;
use crate::connectors::Connector;
use crate::context::{Feature, TargetAddress};
use milu::script::Evaluatable;
use std::sync::Arc;

/// a member that does nothing (for the high-rate concurrent run)
struct NullConn(String);
#[async_trait::async_trait]
impl Connector for NullConn {
    async fn connect(self: Arc<Self>, _s: Arc<crate::GlobalState>, _c: crate::context::ContextRef) -> Result<(), easy_error::Error> {
        Err(easy_error::err_msg("null"))
    }
    fn name(&self) -> &str {
        &self.0
    }
}

async fn lb_world(n: usize, algo: &str) -> (World, Arc<dyn Connector>) {
    let names: Vec<String> = (0..n).map(|i| format!("m{}", i)).collect();
    let conns: Vec<(String, Vec<Feature>)> = names.iter().map(|s| (s.clone(), vec![Feature::TcpForward])).collect();
    let mut w = world(&conns, 10);
    for c in w.conns.iter() {
        c.fail.store(true, std::sync::atomic::Ordering::SeqCst); // selection only: no relay
    }
    let yaml = format!("name: lb\ntype: loadbalance\nconnectors: [{}]\n{}", names.join(", "), algo);
    let v: serde_yaml::Value = serde_yaml::from_str(&yaml).unwrap();
    let mut lb = crate::connectors::from_value(&v).expect("lb config");
    lb.init().await.expect("lb init");
    let lb: Arc<dyn Connector> = lb.into();
    Arc::get_mut(&mut w.state).unwrap().connectors.insert("lb".into(), lb.clone());
    lb.verify(w.state.clone()).await.expect("lb verify");
    (w, lb)
}

/// a world with `leaves` recording members m0.. and several round-robin balancers (defined in order: a balancer may list
/// an earlier balancer as a member)
async fn multi_lb_world(leaves: usize, lbs: &[(&str, Vec<String>)]) -> (World, Vec<Arc<dyn Connector>>) {
    let names: Vec<String> = (0..leaves).map(|i| format!("m{}", i)).collect();
    let conns: Vec<(String, Vec<Feature>)> = names.iter().map(|s| (s.clone(), vec![Feature::TcpForward])).collect();
    let mut w = world(&conns, 10);
    for c in w.conns.iter() {
        c.fail.store(true, std::sync::atomic::Ordering::SeqCst);
    }
    let mut out = vec![];
    for (name, members) in lbs {
        let yaml = format!("name: {}\ntype: loadbalance\nconnectors: [{}]", name, members.join(", "));
        let v: serde_yaml::Value = serde_yaml::from_str(&yaml).unwrap();
        let mut lb = crate::connectors::from_value(&v).expect("lb config");
        lb.init().await.expect("lb init");
        let lb: Arc<dyn Connector> = lb.into();
        Arc::get_mut(&mut w.state).unwrap().connectors.insert(name.to_string(), lb.clone());
        out.push(lb);
    }
    for lb in out.iter() {
        lb.verify(w.state.clone()).await.expect("lb verify");
    }
    (w, out)
}

/// one selection: returns (index of the member whose connect() was invoked, connector name recorded on the context)
async fn select(w: &World, lb: &Arc<dyn Connector>, r: &Req) -> (Vec<String>, Option<String>) {
    let ctx = w.state.contexts.create_context(r.listener.clone(), r.source).await;
    {
        let mut c = ctx.write().await;
        c.set_target(r.target.clone()).set_feature(r.feature);
    }
    let before = w.log.lock().unwrap().connects.len();
    let _ = lb.clone().connect(w.state.clone(), ctx.clone()).await;
    let called: Vec<String> = w.log.lock().unwrap().connects[before..].to_vec();
    let rec = ctx.read().await.props().connector.clone();
    (called, rec)
}

fn idx_of(name: &str) -> usize {
    name.trim_start_matches('m').parse().unwrap_or(999)
}

pub async fn run(out: &mut Out) {
    let mut rng = Rng(out.seed() ^ 0xC17);
    let thorough = out.tier_thorough();
    let reqs = req_pool();
    // ---- round robin, sequential
    for n in 1..=7usize {
        for k in [1usize, n, 2 * n + 1, 5 * n, if thorough { 1000 } else { 100 }] {
            let (w, lb) = lb_world(n, if n % 2 == 0 { "algorithm: roundRobin" } else { "" }).await;
            let mut seq = vec![];
            for _ in 0..k {
                let (called, rec) = select(&w, &lb, &reqs[0]).await;
                if called.len() != 1 || rec.as_deref() != Some(called[0].as_str()) {
                    out.oracle_fail("recorded-not-used", &format!("connect() invoked on {:?}, context records {:?}", called, rec));
                }
                seq.push(called.first().map(|s| idx_of(s)).unwrap_or(999));
            }
            out.case(&format!("RR {} {}", n, k), &seq.iter().map(|x| x.to_string()).collect::<Vec<_>>().join(","));
            out.stat("rr_sequential");
            // oracle: every window of j*n consecutive selections has each member exactly j times
            for j in 1..=(k / n).min(3) {
                for start in 0..=(k - j * n) {
                    let win = &seq[start..start + j * n];
                    for m in 0..n {
                        if win.iter().filter(|&&x| x == m).count() != j {
                            out.oracle_fail("rr-unfair", &format!("n={} window {}..{} selects member {} {} times, expected {}", n, start, start + j * n, m, win.iter().filter(|&&x| x == m).count(), j));
                        }
                    }
                }
            }
        }
    }
    // ---- several balancers in one process: each keeps its own rotation (two side by side; one nested in another)
    for (na, nb) in [(2usize, 2usize), (2, 3), (3, 2), (1, 4), (4, 4)] {
        let a: Vec<String> = (0..na).map(|i| format!("m{}", i)).collect();
        let b: Vec<String> = (na..na + nb).map(|i| format!("m{}", i)).collect();
        let (w, lbs) = multi_lb_world(na + nb, &[("lba", a), ("lbb", b)]).await;
        let k = if thorough { 60 } else { 24 };
        // the schedule: which balancer gets the next request (alternating, with runs)
        let sched: Vec<usize> = (0..k).map(|i| if rng.chance(1, 4) { rng.below(2) } else { i % 2 }).collect();
        let mut seqs: [Vec<usize>; 2] = [vec![], vec![]];
        for &which in sched.iter() {
            let (called, rec) = select(&w, &lbs[which], &reqs[0]).await;
            if called.len() != 1 || rec.as_deref() != Some(called[0].as_str()) {
                out.oracle_fail("recorded-not-used", &format!("connect() invoked on {:?}, context records {:?}", called, rec));
            }
            seqs[which].push(called.first().map(|s| idx_of(s)).unwrap_or(999));
        }
        let show = |v: &Vec<usize>| v.iter().map(|x| x.to_string()).collect::<Vec<_>>().join(",");
        out.case(&format!("RR2 {} {} {}", na, nb, sched.iter().map(|x| x.to_string()).collect::<String>()), &format!("{} | {}", show(&seqs[0]), show(&seqs[1])));
        out.stat("rr_two_balancers");
        for (which, (n, base)) in [(na, 0usize), (nb, na)].iter().enumerate() {
            let seq = &seqs[which];
            if seq.len() >= *n {
                for start in 0..=(seq.len() - n) {
                    for m in *base..(base + n) {
                        let c = seq[start..start + n].iter().filter(|&&x| x == m).count();
                        if c != 1 {
                            out.oracle_fail("rr-unfair", &format!("two balancers (sizes {} and {}) used alternately: balancer {} selects member {} {} times in {} consecutive selections of its own: {:?}", na, nb, which, m, c, n, &seq[start..start + n]));
                        }
                    }
                }
            }
        }
    }
    {
        // nested: outer = [in1, in2], in1 = [m0, m1], in2 = [m2, m3]
        let (w, lbs) = multi_lb_world(4, &[("in1", vec!["m0".into(), "m1".into()]), ("in2", vec!["m2".into(), "m3".into()]), ("outer", vec!["in1".into(), "in2".into()])]).await;
        let k = 16;
        let mut seq = vec![];
        for _ in 0..k {
            let (called, _rec) = select(&w, &lbs[2], &reqs[0]).await;
            seq.push(called.first().map(|s| idx_of(s)).unwrap_or(999));
        }
        out.case(&format!("RRN {}", k), &seq.iter().map(|x| x.to_string()).collect::<Vec<_>>().join(","));
        out.stat("rr_nested");
        for start in 0..=(k - 4) {
            for m in 0..4 {
                let c = seq[start..start + 4].iter().filter(|&&x| x == m).count();
                if c != 1 {
                    out.oracle_fail("rr-unfair", &format!("nested balancers outer=[in1,in2] in1=[m0,m1] in2=[m2,m3]: leaf m{} selected {} times in 4 consecutive selections {:?}", m, c, &seq[start..start + 4]));
                }
            }
        }
    }
    // ---- round robin, concurrent (multi-thread runtime): counts must be exactly equal
    for n in 2..=5usize {
        let tasks = 8usize;
        let per = n * (if thorough { 100000 } else { 20000 });
        let (mut w, _) = lb_world(n, "algo: rr").await;
        // replace the recording members by do-nothing members and build a fresh balancer over them
        {
            let st = Arc::get_mut(&mut w.state).unwrap();
            for i in 0..n {
                st.connectors.insert(format!("m{}", i), Arc::new(NullConn(format!("m{}", i))));
            }
        }
        let yaml = format!("name: lb\ntype: loadbalance\nalgo: rr\nconnectors: [{}]", (0..n).map(|i| format!("m{}", i)).collect::<Vec<_>>().join(", "));
        let mut lb = crate::connectors::from_value(&serde_yaml::from_str(&yaml).unwrap()).unwrap();
        lb.init().await.unwrap();
        let lb: Arc<dyn Connector> = lb.into();
        let w = Arc::new(w);
        let mut hs = vec![];
        for _ in 0..tasks {
            let (w, lb) = (w.clone(), lb.clone());
            hs.push(tokio::spawn(async move {
                let mut counts = vec![0usize; 8];
                let ctx = w.state.contexts.create_context("l".into(), "10.0.0.7:1".parse().unwrap()).await;
                for _ in 0..per {
                    let _ = lb.clone().connect(w.state.clone(), ctx.clone()).await;
                    let rec = ctx.read().await.props().connector.clone();
                    if let Some(c) = rec {
                        counts[idx_of(&c).min(7)] += 1;
                    }
                }
                counts
            }));
        }
        let mut total = vec![0usize; 8];
        for h in hs {
            for (i, c) in h.await.unwrap().iter().enumerate() {
                total[i] += c;
            }
        }
        let counts = &total[..n];
        out.case(&format!("RRC {} {} {}", n, tasks, per), &counts.iter().map(|x| x.to_string()).collect::<Vec<_>>().join(","));
        out.stat("rr_concurrent");
        let want = tasks * per / n;
        if counts.iter().any(|&c| c != want) || total[n..].iter().any(|&c| c != 0) {
            out.oracle_fail("rr-unfair-concurrent", &format!("n={} {} concurrent selections: counts {:?}, expected {} each", n, tasks * per, counts, want));
        }
    }
    // ---- hash-by
    let keys = ["request.target", "request.target.host", "request.source.host", "request.listener", "to_string(request.target.port)", "strcat([request.listener, request.target.host])", "request.source"];
    // requests whose key renders identically although the request is represented differently
    let mut hreqs: Vec<Req> = req_pool();
    let sa = |s: &str| s.parse::<std::net::SocketAddr>().unwrap();
    for (h, p) in [("10.0.0.1", 8001u16), ("10.1.2.3", 80), ("1.2.3.4", 443)] {
        hreqs.push(Req { listener: "http".into(), connector: None, feature: Feature::TcpForward, source: sa("10.0.0.7:40000"), target: TargetAddress::DomainPort(h.into(), p) });
        hreqs.push(Req { listener: "http".into(), connector: None, feature: Feature::TcpForward, source: sa("10.0.0.7:40000"), target: TargetAddress::SocketAddr(sa(&format!("{}:{}", h, p))) });
    }
    for _ in 0..(if thorough { 200 } else { 30 }) {
        let host: String = (0..rng.range(1, 12)).map(|_| (b'a' + rng.below(26) as u8) as char).collect();
        hreqs.push(Req { listener: rng.pick(&["http", "socks"]).to_string(), connector: None, feature: Feature::TcpForward, source: sa("10.0.0.7:40000"), target: TargetAddress::DomainPort(host, rng.below(65536) as u16) });
    }
    // degenerate key values (empty string: empty listener name, empty host), several requests each, spread over the run
    for i in 0..4u16 {
        let at = (i as usize * 7 + 3) % (hreqs.len() + 1);
        hreqs.insert(at, Req { listener: "".into(), connector: None, feature: Feature::TcpForward, source: sa("10.0.0.7:40000"), target: TargetAddress::DomainPort("".into(), 443 + i) });
    }
    // every request twice: equal keys must meet again after other selections
    let again = hreqs.clone();
    hreqs.extend(again);
    for key in keys.iter() {
        for n in [2usize, 3, 5, 7] {
            let (w, lb) = lb_world(n, &format!("algorithm:\n  hashBy: '{}'", key)).await;
            let mut seen: std::collections::HashMap<String, usize> = Default::default();
            for r in hreqs.iter() {
                // the key value, evaluated independently of the balancer, and its std hash (the model's parameter h)
                let v = {
                    let ctx = crate::rules::script_ext::create_context(props_of(r));
                    milu::parser::parse(key).unwrap().real_value_of(ctx.into())
                };
                let v = match v {
                    Ok(v) => v,
                    Err(_) => continue,
                };
                let ks = v.to_string();
                let hash = {
                    use std::hash::{Hash, Hasher};
                    let mut h = std::collections::hash_map::DefaultHasher::new();
                    v.hash(&mut h);
                    h.finish()
                };
                let (called, rec) = select(&w, &lb, r).await;
                let m = called.first().map(|s| idx_of(s)).unwrap_or(999);
                out.case(&format!("H {} {} {}", n, hex(ks.as_bytes()), hash), &m.to_string());
                out.stat("hash_by");
                if called.len() != 1 || rec.as_deref() != Some(called[0].as_str()) {
                    out.oracle_fail("recorded-not-used", &format!("connect() invoked on {:?}, context records {:?}", called, rec));
                }
                if m >= n {
                    out.oracle_fail("not-a-member", &format!("hash-by selected {:?}", called));
                }
                if let Some(prev) = seen.insert(ks.clone(), m) {
                    if prev != m {
                        out.oracle_fail("hash-not-sticky", &format!("key `{}` = {} selected member {} and then member {} (n={})", key, ks, prev, m, n));
                    }
                }
            }
        }
    }
    // ---- random
    for n in 1..=6usize {
        let draws = 200 * n;
        let (w, lb) = lb_world(n, "algorithm: random").await;
        let mut counts = vec![0usize; n];
        let mut bad = false;
        for _ in 0..draws {
            let (called, rec) = select(&w, &lb, &reqs[0]).await;
            let m = called.first().map(|s| idx_of(s)).unwrap_or(999);
            if m >= n || called.len() != 1 || rec.as_deref() != Some(called[0].as_str()) {
                bad = true;
                out.oracle_fail("random-not-member-or-unrecorded", &format!("called {:?} recorded {:?}", called, rec));
            } else {
                counts[m] += 1;
            }
        }
        let all_seen = counts.iter().all(|&c| c > 0);
        out.case(&format!("RND {} {}", n, draws), if !bad && all_seen { "ok" } else { "bad" });
        out.stat("random");
        if !all_seen {
            out.oracle_fail("random-member-never-selected", &format!("n={} draws={} counts={:?}", n, draws, counts));
        }
    }
}
