// C12: stream decoders are insensitive to segmentation; truncated input is an error.
use super::codec::*;
use super::util::*;
use crate::context::TargetAddress;

#[derive(Clone, Copy, PartialEq, Debug)]
enum Kind {
    SReq(bool),
    SResp,
    HReq,
    HResp,
    FStream,
    HeadFramesC, // connector side: CONNECT response head + inline frames
    HeadFramesL, // listener side: CONNECT request head + inline frames
    WSReq, // client side of the SOCKS5 negotiation reads the server's replies
}

async fn run_one(out: &mut Out, k: Kind, segs: &[Vec<u8>], tbl: &str) -> String {
    let (case, imp) = match k {
        Kind::SReq(req) => {
            let r = op_sreq(req, segs).await;
            (r.0, r.1)
        }
        Kind::SResp => {
            let r = op_sresp(segs).await;
            (r.0, r.1)
        }
        Kind::HReq => {
            let r = op_hreq(segs, tbl).await;
            (r.0, r.1)
        }
        Kind::HResp => {
            let r = op_hresp(segs).await;
            (r.0, r.1)
        }
        Kind::FStream => {
            let r = op_fstream(segs).await;
            (r.0, r.1)
        }
        Kind::HeadFramesC => op_h11cf(&TargetAddress::DomainPort("example.com".into(), 53), segs).await,
        Kind::HeadFramesL => op_hhsf(segs).await,
        Kind::WSReq => {
            let t = TargetAddress::DomainPort("example.com".into(), 443);
            let r = op_wsreq(5, 1, &t, &Some(("user".into(), "pw".into())), segs).await;
            (r.0, r.1)
        }
    };
    out.case(&case, &imp);
    if imp.starts_with("panic") {
        out.oracle_fail("decoder-panic", &format!("{:?} panicked", k));
    }
    imp
}

/// one message: all / random segmentations must agree; every truncation must be an error
async fn check_message(out: &mut Out, rng: &mut Rng, k: Kind, msg: &[u8], tail: &[u8], tbl: &str, exhaustive_limit: usize) {
    let mut full = msg.to_vec();
    full.extend_from_slice(tail);
    let reference = run_one(out, k, &[full.clone()], tbl).await;
    out.stat(&format!("{:?}_messages", k).replace("(true)", "_req").replace("(false)", "_opt"));
    if !reference.starts_with("ok") && k != Kind::FStream {
        out.stat("reference_not_ok");
    }
    let segsets: Vec<Vec<Vec<u8>>> = if full.len() <= exhaustive_limit {
        out.stat("exhaustive_segmentation_messages");
        all_cuts(&full)
    } else {
        (0..6).map(|_| random_cuts(rng, &full)).collect()
    };
    for segs in segsets.iter() {
        if segs.len() <= 1 {
            continue;
        }
        let r = run_one(out, k, segs, tbl).await;
        out.stat("segmentations");
        if r != reference {
            out.oracle_fail(
                "segmentation-dependent",
                &format!("{:?}: one segment gives `{}`, segmentation {} gives `{}`", k, trunc(&reference), segs_s(segs), trunc(&r)),
            );
        }
    }
    // truncation: every proper prefix of the message itself (no tail)
    let step = if msg.len() > 80 { msg.len() / 40 } else { 1 };
    let mut cut = 0;
    while cut < msg.len() {
        let prefix = msg[..cut].to_vec();
        let segs = if rng.chance(1, 2) { vec![prefix.clone()] } else { random_cuts(rng, &prefix) };
        let r = run_one(out, k, &segs, tbl).await;
        out.stat("truncations");
        let bad = match k {
            Kind::FStream => !(r.ends_with("eof") || r.ends_with("err")) || r.matches('[').count() > full_frames_before(msg, cut),
            Kind::HeadFramesC | Kind::HeadFramesL => {
                // a truncated head is an error; a truncated frame part yields only the complete frames, then eof / err
                let head = msg.windows(4).position(|w| w == b"\r\n\r\n").map(|p| p + 4).unwrap_or(msg.len());
                if cut < head {
                    r.starts_with("ok")
                } else {
                    !(r.ends_with("eof") || r.ends_with("err")) || r.matches('[').count() > full_frames_before(&msg[head..], cut - head)
                }
            }
            Kind::WSReq => r.starts_with("ok"),
            _ => r.starts_with("ok"),
        };
        if bad {
            out.oracle_fail("truncated-accepted", &format!("{:?}: {} of {} bytes then end of stream gives `{}`", k, cut, msg.len(), trunc(&r)));
        }
        cut += step;
    }
}

fn trunc(s: &str) -> String {
    if s.len() > 160 {
        format!("{}…", &s[..160])
    } else {
        s.to_string()
    }
}

/// how many complete RPFM frames lie within the first `cut` bytes
fn full_frames_before(msg: &[u8], cut: usize) -> usize {
    let mut pos = 0;
    let mut n = 0;
    while pos + 12 <= msg.len() {
        let a = u16::from_be_bytes([msg[pos + 8], msg[pos + 9]]) as usize;
        let b = u16::from_be_bytes([msg[pos + 10], msg[pos + 11]]) as usize;
        let end = pos + 12 + a + b;
        if end <= cut {
            n += 1;
            pos = end;
        } else {
            break;
        }
    }
    n
}

pub async fn run(out: &mut Out) {
    let mut rng = Rng(out.seed() ^ 0xC12);
    let thorough = out.tier_thorough();
    let n = if thorough { 400 } else { 60 };
    let exh = if thorough { 13 } else { 11 };

    for i in 0..n {
        let tail = match rng.below(3) {
            0 => vec![],
            1 => rng.bytes(1),
            _ => {
                let l = rng.range(2, 5);
                rng.bytes(l)
            }
        };
        // --- SOCKS5 request (no auth / user+pass)
        let t = if i % 3 == 0 { TargetAddress::DomainPort("a".into(), 80) } else { gen_plain_target(&mut rng) };
        let (req, msg) = match rng.below(4) {
            0 => (false, socks5_req_bytes(&[0], None, 5, 1, &t)),
            1 => (false, socks5_req_bytes(&[2, 0], None, 5, 3, &t)),
            2 => (true, socks5_req_bytes(&[0, 2], Some((b"u", b"p")), 5, 1, &t)),
            _ => (true, socks5_req_bytes(&[2], Some((&rng.bytes(3).iter().map(|b| b & 0x7f).collect::<Vec<u8>>(), b"")), 5, 2, &t)),
        };
        check_message(out, &mut rng, Kind::SReq(req), &msg, &tail, "tbl=-", exh).await;
        // --- SOCKS4 / 4a request
        let t4 = match &t {
            TargetAddress::SocketAddr(std::net::SocketAddr::V6(_)) => TargetAddress::DomainPort("h".into(), 1),
            x => x.clone(),
        };
        // ip < 0x100 is read as 4a: use only addresses >= 0x100 for the plain v4 form
        let t4 = match &t4 {
            TargetAddress::SocketAddr(std::net::SocketAddr::V4(a)) if u32::from(*a.ip()) < 0x100 => v4(0x0a000001, a.port()),
            x => x.clone(),
        };
        let uid: Vec<u8> = if rng.chance(1, 2) { vec![] } else { b"id".to_vec() };
        let msg = socks4_req_bytes(1, &t4, &uid);
        check_message(out, &mut rng, Kind::SReq(false), &msg, &tail, "tbl=-", exh).await;
        // --- SOCKS responses
        let rt = gen_plain_target(&mut rng);
        let msg = socks_resp_bytes(if rng.chance(1, 3) { 4 } else { 5 }, *rng.pick(&[0u8, 1, 90, 91]), &rt);
        check_message(out, &mut rng, Kind::SResp, &msg, &tail, "tbl=-", exh).await;
        // --- client side of the SOCKS5 negotiation: method reply (+ auth reply)
        let msg = if rng.chance(1, 2) { vec![5, 0] } else { vec![5, 2, 1, 0] };
        check_message(out, &mut rng, Kind::WSReq, &msg, &[], "tbl=-", exh).await;
        // --- HTTP request / response heads
        let tt = t.to_string();
        let tbl = tbl_s(&[t.clone()], &[]);
        let first = format!("{} {} HTTP/1.{}", rng.pick(&["CONNECT", "connect", "GET"]), tt, rng.below(2));
        let msg = http_head_bytes(&first, &gen_headers(&mut rng));
        check_message(out, &mut rng, Kind::HReq, &msg, &tail, &tbl, exh).await;
        let first = format!("HTTP/1.1 {} {}", rng.pick(&["200", "503", "407", "+200", "0200"]), rng.pick(&["OK", "Connection established", "Service unavailable", ""]));
        let msg = http_head_bytes(&first, &gen_headers(&mut rng));
        check_message(out, &mut rng, Kind::HResp, &msg, &tail, "tbl=-", exh).await;
        // --- RPFM frame streams: 1..5 frames, frames spanning reads, several frames per read
        let nf = rng.range(1, 5);
        let mut msg = vec![];
        for _ in 0..nf {
            let a = if rng.chance(1, 4) { None } else { Some(gen_plain_target(&mut rng)) };
            let bl = match rng.below(4) {
                0 => 0,
                1 => 1,
                _ => rng.range(2, 30),
            };
            let body = rng.bytes(bl);
            msg.extend_from_slice(&rpfm_bytes(rng.next() as u32, &a, &body));
        }
        check_message(out, &mut rng, Kind::FStream, &msg, &[], "tbl=-", 0).await;
    }
    // --- UDP over CONNECT, inline channel: the head and the first frames share segments (both sides)
    for i in 0..(if thorough { 40 } else { 8 }) {
        let nf = rng.range(1, 3);
        let mut frames = vec![];
        for _ in 0..nf {
            let a = if rng.chance(1, 4) { None } else { Some(gen_plain_target(&mut rng)) };
            let bl = rng.range(0, 6);
            let body = rng.bytes(bl);
            frames.extend_from_slice(&rpfm_bytes(rng.next() as u32, &a, &body));
        }
        let sid = rng.below(1000);
        let mut c = format!("HTTP/1.1 200 Connection established\r\nSession-Id: {}\r\n\r\n", sid).into_bytes();
        c.extend_from_slice(&frames);
        // exhaustive single cuts (every position) are part of `all_cuts` only for short messages: do the single cuts here
        let reference = run_one(out, Kind::HeadFramesC, &[c.clone()], "tbl=-").await;
        if !reference.starts_with("ok [") {
            out.oracle_fail("segmentation-dependent", &format!("HeadFramesC: head and frames in one segment give `{}`", trunc(&reference)));
        }
        for cut in 1..c.len() {
            if !thorough && i > 1 && cut % 5 != 0 {
                continue;
            }
            let r = run_one(out, Kind::HeadFramesC, &[c[..cut].to_vec(), c[cut..].to_vec()], "tbl=-").await;
            out.stat("head_frames_cuts");
            if r != reference {
                out.oracle_fail("segmentation-dependent", &format!("HeadFramesC: one segment gives `{}`, cut at {} gives `{}`", trunc(&reference), cut, trunc(&r)));
            }
        }
        check_message(out, &mut rng, Kind::HeadFramesC, &c, &[], "tbl=-", 0).await;
        let t = gen_plain_target(&mut rng);
        let mut l = format!("CONNECT {} HTTP/1.1\r\nHost: x\r\nProxy-Protocol: udp\r\nProxy-Channel: inline\r\n\r\n", t).into_bytes();
        l.extend_from_slice(&frames);
        let reference = run_one(out, Kind::HeadFramesL, &[l.clone()], "tbl=-").await;
        if !reference.starts_with("ok [") {
            out.oracle_fail("segmentation-dependent", &format!("HeadFramesL: head and frames in one segment give `{}`", trunc(&reference)));
        }
        for cut in 1..l.len() {
            if !thorough && i > 1 && cut % 5 != 0 {
                continue;
            }
            let r = run_one(out, Kind::HeadFramesL, &[l[..cut].to_vec(), l[cut..].to_vec()], "tbl=-").await;
            out.stat("head_frames_cuts");
            if r != reference {
                out.oracle_fail("segmentation-dependent", &format!("HeadFramesL: one segment gives `{}`, cut at {} gives `{}`", trunc(&reference), cut, trunc(&r)));
            }
        }
        check_message(out, &mut rng, Kind::HeadFramesL, &l, &[], "tbl=-", 0).await;
    }
    // a short frame stream, exhaustively segmented (12-byte header + empty attr + 1 byte body = 13 bytes)
    let msg = rpfm_bytes(7, &None, &[0x55]);
    check_message(out, &mut rng, Kind::FStream, &msg, &[], "tbl=-", 13).await;
    // the C12a seed shape: long frame cut right after its header, completion segment carries a shorter frame
    let mut msg = rpfm_bytes(1, &Some(v4(0x01020304, 1)), b"0123456789");
    msg.extend_from_slice(&rpfm_bytes(1, &Some(v4(0x01020304, 1)), b"ab"));
    for c1 in 1..msg.len() {
        for c2 in (c1 + 1)..msg.len() {
            if !thorough && (c2 - c1) % 3 != 0 {
                continue;
            }
            let segs = vec![msg[..c1].to_vec(), msg[c1..c2].to_vec(), msg[c2..].to_vec()];
            let r = run_one(out, Kind::FStream, &segs, "tbl=-").await;
            if r.matches('[').count() != 2 || !r.ends_with("eof") {
                out.oracle_fail("segmentation-dependent", &format!("two frames cut at {},{} give `{}`", c1, c2, trunc(&r)));
            }
            out.stat("two_frame_two_cut");
        }
    }
}
