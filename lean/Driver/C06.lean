import Redproxy.Model.Reply
import Driver.Codec
/-! Model side of the C06 line protocol (see harness/c06.rs). -/
namespace Redproxy.Driver.C06
open Redproxy Redproxy.Reply Redproxy.Route Redproxy.Driver.Codec

def protoOf (s : String) : Option Proto :=
  if s == "http" then some .http else if s == "socks4" then some .socks4 else if s == "socks5" then some .socks5 else none

def step (line : String) : String :=
  match line.trimAscii.toString.splitOn " " with
  | ["P", p, t, cls, m] =>
    match protoOf p, parseAddr t, bytesOfHex m with
    | some p, some (some t), some msg =>
      let c : MiluEval.Str := ['u', 'p']
      let effs : Option (List Eff × Nat) :=
        if cls == "ok" then some ([.setConnecting c, .connect c, .onConnect, .relay, .terminated, .onFinish], 1)
        else if cls == "upfail" then some ([.setConnecting c, .connect c, .onError], 1)
        else if cls == "refused" then some ([.onError], 0)
        else none
      match effs with
      | some (effs, up) => s!"client={hexOrDash (clientSees p t msg effs)} eof=1 upstream={up}"
      | none => "bad-op"
    | _, _, _ => "bad-op"
  | _ => "bad-op"

partial def loop (h : IO.FS.Stream) (out : IO.FS.Stream) : IO Unit := do
  let line ← h.getLine
  if line.isEmpty then return ()
  out.putStrLn (step line)
  loop h out

def main : IO Unit := do loop (← IO.getStdin) (← IO.getStdout)
end Redproxy.Driver.C06
