import Redproxy.Model.MiluEval
import Redproxy.Model.Cidr
import Redproxy.Model.Core
/-! Model side of the C08 line protocol (see harness/c08.rs). -/
namespace Redproxy.Driver.C08
open Redproxy Redproxy.MiluEval

def strOfHex (h : String) : Option String := do
  let b ← bytesOfHex h
  String.fromUTF8? (ByteArray.mk (b.map (·.toUInt8)).toArray)

/-- the regular expressions the generators use: literal characters, `.`, `\.`, `^` at the start, `$` at the end;
    anything else is reported as not compiling (the generator's invalid patterns are `(`, `[a`, `*a`) -/
inductive Tok | lit (c : Char) | dot
def reToks : List Char → Option (List Tok)
  | [] => some []
  | '\\' :: '.' :: r => (reToks r).map (Tok.lit '.' :: ·)
  | '.' :: r => (reToks r).map (Tok.dot :: ·)
  | c :: r =>
    if c.isAlphanum || c == ' ' || c == '_' || c == ':' || c == '-' || c == ',' || c == '/' then (reToks r).map (Tok.lit c :: ·) else none

def matchHere : List Tok → List Char → Bool → Bool
  | [], s, toEnd => !toEnd || s.isEmpty
  | _ :: _, [], _ => false
  | .lit c :: ts, d :: s, e => c == d && matchHere ts s e
  | .dot :: ts, d :: s, e => d != '\n' && matchHere ts s e

def anyPos (ts : List Tok) (toEnd : Bool) : List Char → Bool
  | [] => matchHere ts [] toEnd
  | c :: s => matchHere ts (c :: s) toEnd || anyPos ts toEnd s

def simpleRe (s p : List Char) : Option Bool :=
  let (anchS, p1) := match p with | '^' :: r => (true, r) | r => (false, r)
  let (anchE, p2) := match p1.reverse with | '$' :: r => (true, r.reverse) | _ => (false, p1)
  match reToks p2 with
  | none => none
  | some ts => some (if anchS then matchHere ts s anchE else anyPos ts anchE s)

def ext : Ext := { re := simpleRe, cidr := Cidr.cidrMatch }

def parseReq (s : String) : Option Req :=
  match s.splitOn "," with
  | [l, c, f, sh, sp, st, sx, th, tp, tt, tx] => do
    some { listener := (← strOfHex l).toList, connector := (← strOfHex c).toList, feature := (← strOfHex f).toList,
           srcHost := (← strOfHex sh).toList, srcPort := (← sp.toNat?), srcType := (← strOfHex st).toList, srcText := (← strOfHex sx).toList,
           tgtHost := (← strOfHex th).toList, tgtPort := (← tp.toNat?), tgtType := (← strOfHex tt).toList, tgtText := (← strOfHex tx).toList }
  | _ => none

partial def showTy : Ty → String
  | .str => "string" | .int => "integer" | .bool => "boolean"
  | .arr t => "[" ++ showTy t ++ "]"
  | .tup ts => "(" ++ String.intercalate "," (ts.map showTy) ++ ")"
  | .any => "any"
  | _ => "native"

def hexOfStr (s : List Char) : String := hexOrDash ((String.ofList s).toUTF8.toList.map (·.toNat))

def showVal : Val → String
  | .str s => if ((String.ofList s).splitOn "<opaque>").length > 1 then "s:<opaque>" else "s:" ++ hexOfStr s
  | .request | .target | .source | .sb _ _ | .callable _ => "native"
  | v => "v:" ++ hexOfStr v.show

def showEK : EK → String
  | .overflow => "overflow" | .div => "div" | .shift => "shift" | .index => "index" | .regex => "regex"
  | .parseInt => "parseInt" | .type => "type" | .undefined => "undefined" | .tupleIndex => "tupleIndex"

def fuelFor (n : Nat) : Nat := 8 * n + 200

def runProgram (q : Req) (src : List Char) : String :=
  match Milu.parse src with
  | .ok a _ =>
    (match ofAst a with
     | none => "unsupported"
     | some e =>
       let fuel := fuelFor src.length
       match typeOf fuel [] e with
       | .err _ => "T=err"
       | .panic _ => "T=panic"
       | .fuel => "T=fuel"
       | .ok t =>
         let v := match valueOf ext q fuel [] e with
           | .ok v => showVal v
           | .err k => "err:" ++ showEK k
           | .panic _ => "panic"
           | .fuel => "fuel"
         "T=" ++ showTy t ++ " V=" ++ v)
  | .err => "syntax"
  | .fatal => "syntax"
  | .unsupported => "unsupported"

def step (line : String) : String :=
  match line.trimAscii.toString.splitOn " " with
  | ["E", r, h] =>
    match parseReq r, strOfHex h with
    | some q, some s => runProgram q s.toList
    | _, _ => "bad-op"
  | _ => "bad-op"

partial def loop (h : IO.FS.Stream) (out : IO.FS.Stream) : IO Unit := do
  let line ← h.getLine
  if line.isEmpty then return ()
  out.putStrLn (step line)
  loop h out

def main : IO Unit := do loop (← IO.getStdin) (← IO.getStdout)
end Redproxy.Driver.C08
