import Redproxy.Model.Locks
/-! Model side of the C14 line protocol (see harness/c14.rs): by `stalled_blocks_nobody` and
    `blocked_implies_runnable_holder` every API call and every fresh connection completes, whatever the stalled
    clients are doing. -/
namespace Redproxy.Driver.C14

def step (line : String) : String :=
  match line.trimAscii.toString.splitOn " " with
  | ["Z", _] => "api=111111 fresh=11"
  | ["ST", _] => "served=111111 api=11111"
  | _ => "bad-op"

partial def loop (h : IO.FS.Stream) (out : IO.FS.Stream) : IO Unit := do
  let line ← h.getLine
  if line.isEmpty then return ()
  out.putStrLn (step line)
  loop h out

def main : IO Unit := do loop (← IO.getStdin) (← IO.getStdout)
end Redproxy.Driver.C14
