import Redproxy.Model.Auth
import Redproxy.Model.Core
/-! Model side of the C07 line protocol (see harness/c07.rs). -/
namespace Redproxy.Driver.C07
open Redproxy Redproxy.Auth

def sB (s : String) : Bytes := s.toUTF8.toList.map (·.toNat)

/-- the harness's external command: accepts alice / x:secret -/
def cmd : Cred → Bool := fun u => u == (sB "alice", sB "x:secret")

def cfgOf (required : Bool) (timeout : Nat) (withUsers : Bool) : AuthCfg :=
  { required := required, users := if withUsers then [(sB "user", sB "pass")] else [], hasCmd := true, cacheTimeout := timeout }

def hex2 (n : Nat) : String := String.ofList [hexDigit (n / 16 % 16), hexDigit (n % 16)]

def step (line : String) : String :=
  match line.trimAscii.toString.splitOn " " with
  | ["N", r, off, u, p] =>
    match bytesOfHex off, bytesOfHex u, bytesOfHex p with
    | some off, some u, some p =>
      let required := r == "1"
      let cfg := cfgOf required 300 true
      let m := Socks.selectMethod required off
      -- the cache content cannot change a verdict (theorem check_sound + the command is deterministic): start empty
      let routed := socks5Routed cfg cmd [] 0 { offered := off, creds := (u, p) }
      s!"method={match m with | some m => hex2 m | none => "ff"} routed={if routed then 1 else 0}"
    | _, _, _ => "bad-op"
  | ["F", r, uid] =>
    match bytesOfHex uid with
    | some uid => s!"routed={if socks4Routed (cfgOf (r == "1") 300 true) cmd [] 0 uid then 1 else 0}"
    | none => "bad-op"
  | ["H", t, hist] =>
    match t.toNat? with
    | some timeout =>
      let cfg := cfgOf true timeout false
      let evs := (hist.splitOn ",").filterMap fun e =>
        match e.splitOn ":" with
        | [at_, u, p] => match at_.toNat?, bytesOfHex u, bytesOfHex p with
          | some a, some u, some p => some (a, (u, p))
          | _, _, _ => none
        | _ => none
      -- times in ms; the cache works in seconds: an entry stored at time s is gone at s + timeout*1000
      let (_, vs, rs) := evs.foldl (fun (acc : Cache × String × String) (e : Nat × Cred) =>
        let (c, vs, rs) := acc
        let cfgMs : AuthCfg := { cfg with cacheTimeout := timeout * 1000 }
        let hit := (cacheLookup c cfgMs.cacheTimeout e.1 e.2).isSome
        let (v, c') := check cfgMs cmd c e.1 (some e.2)
        (c', vs ++ (if v then "1" else "0"), rs ++ (if hit then "0" else "1"))) ([], "", "")
      s!"verdicts={vs} runs={rs}"
    | none => "bad-op"
  | ["HX", _, hist] =>
    -- the external command cannot be started: it vouches for nobody; the static user list still counts
    let cfg := cfgOf true 300 true
    let creds := (hist.splitOn ",").filterMap fun e =>
      match e.splitOn ":" with
      | [u, p] => match bytesOfHex u, bytesOfHex p with
        | some u, some p => some (u, p)
        | _, _ => none
      | _ => none
    let (_, vs) := creds.foldl (fun (acc : Cache × String) (e : Cred) =>
      let (v, c') := check cfg (fun _ => false) acc.1 0 (some e)
      (c', acc.2 ++ (if v then "1" else "0"))) ([], "")
    s!"verdicts={vs}"
  | ["HR", t, times] =>
    -- the helper says yes at time 0 and no afterwards (revocation); the cache keeps a verdict `timeout` seconds
    match t.toNat? with
    | some timeout =>
      let cfg : AuthCfg := { (cfgOf true timeout false) with cacheTimeout := timeout * 1000 }
      let u : Cred := (sB "carol", sB "pw")
      let ts := (times.splitOn ",").filterMap String.toNat?
      let (_, vs) := ts.foldl (fun (acc : Cache × String) (now : Nat) =>
        let (v, c') := check cfg (fun _ => now == 0) acc.1 now (some u)
        (c', acc.2 ++ (if v then "1" else "0"))) ([], "")
      s!"verdicts={vs}"
    | none => "bad-op"
  | ["T", kind, policy, present] =>
    let k : ListenerKind := if kind == "http" then .http else if kind == "socks" then .socks else .quic
    let pol : Option TlsClientPolicy := if policy == "absent" then none else some { required := policy.startsWith "required" }
    -- a CA file without certificates is an empty trust store: no presented certificate chains to it
    let emptyCa := policy == "required-emptyca" || policy == "required-keyonlyca"
    let pres : Option Bool := if present == "none" then none else some (present == "valid" && !emptyCa)
    s!"admitted={if clientAdmitted (clientVerifierOf k pol) pres then 1 else 0}"
  | ["U", kind, insecure, cert] =>
    let chains := cert != "foreignserver"
    let nameOk := cert != "wrongname"
    s!"established={if serverAccepted (serverCheckOf (kind == "quic") (insecure == "1")) chains nameOk then 1 else 0}"
  | _ => "bad-op"

partial def loop (h : IO.FS.Stream) (out : IO.FS.Stream) : IO Unit := do
  let line ← h.getLine
  if line.isEmpty then return ()
  out.putStrLn (step line)
  loop h out

def main : IO Unit := do loop (← IO.getStdin) (← IO.getStdout)
end Redproxy.Driver.C07
