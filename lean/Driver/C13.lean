import Redproxy.Model.Idle
/-! Model side of the C13 line protocol (see harness/c13.rs). -/
namespace Redproxy.Driver.C13
open Redproxy.Idle

def parseEvs (s : String) : Option (List Ev) :=
  if s == "-" then some [] else
  (s.splitOn ",").mapM fun e =>
    match e.toList with
    | 'c' :: r => (String.ofList r).toNat?.map (Ev.data true)
    | 's' :: r => (String.ofList r).toNat?.map (Ev.data false)
    | _ => none

def ins (e : Ev) : List Ev → List Ev
  | [] => [e]
  | x :: xs => if e.time ≤ x.time then e :: x :: xs else x :: ins e xs

def optNat (s : String) : Option (Option Nat) := if s == "-" then some none else s.toNat?.map some

def step (line : String) : String :=
  match line.trimAscii.toString.splitOn " " with
  | ["W", i, u] =>
    match optNat i, optNat u with
    | some i, some u =>
      let cfg : Timeouts := { idle := i.getD 600, udp := u.getD 600 }
      s!"tcp={tcpTunnelTimeout cfg} udp={udpSessionTimeout cfg}"
    | _, _ => "bad-op"
  | ["I", t, _, evs] =>
    match t.toNat?, parseEvs evs with
    | some t, some evs =>
      -- the two last-data stamps start at the context's creation (time 0); the relay and its 1-second ticker start a
      -- little later (d ms: accept -> handshake -> upstream connect), and the harness' offsets count from there too
      let d := 5
      let ticks := (List.range 14).map (fun k => Ev.tick (d + k * 1000))
      let evs := evs.map fun
        | .data c t => Ev.data c (t + d)
        | e => e
      let all := (evs ++ ticks).foldr ins []
      match (run t { lastC := 0, lastS := 0 } all).closedAt with
      | some c => s!"closed k={c / 1000}"
      | none => "open"
    | _, _ => "bad-op"
  | ["H", _, _] => "reply-delivered"     -- never_early: the client's direction carried data 1.3 s ago, period 2 s
  | _ => "bad-op"

partial def loop (h : IO.FS.Stream) (out : IO.FS.Stream) : IO Unit := do
  let line ← h.getLine
  if line.isEmpty then return ()
  out.putStrLn (step line)
  loop h out

def main : IO Unit := do loop (← IO.getStdin) (← IO.getStdout)
end Redproxy.Driver.C13
