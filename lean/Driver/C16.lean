import Redproxy.Model.Registry
/-! Model side of the C16 line protocol (see harness/c16.rs). -/
namespace Redproxy.Driver.C16
open Redproxy.Registry

structure S where
  st : St := { historySize := 0 }
  held : Option Nat := none

def showIds (l : List Nat) : String := "[" ++ String.intercalate "," (l.map toString) ++ "]"

def repeatN (n : Nat) (f : St → St) (s : St) : St := (List.range n).foldl (fun acc _ => f acc) s

def step (s : S) (line : String) : S × String :=
  match line.trimAscii.toString.splitOn " " with
  | ["N", h] => match h.toNat? with
    | some h => ({ st := { historySize := h }, held := none }, "ok")
    | none => (s, "bad-op")
  | ["K", n] => match n.toNat? with
    | some n => ({ s with st := repeatN n (fun t => let (t', id) := create t; dropCtx t' id) s.st }, "ok")
    | none => (s, "bad-op")
  | ["O"] => let (t, id) := create s.st; ({ st := t, held := some id }, "ok")
  | ["X"] => match s.held with
    | some id => ({ st := dropCtx s.st id, held := none }, "ok")
    | none => (s, "bad-op")
  | ["G"] =>
    let t := gcTick s.st
    ({ s with st := t }, s!"live={showIds (live t).reverse} hist={showIds t.terminated} log={showIds t.logged}")
  | _ => (s, "bad-op")

partial def loop (h : IO.FS.Stream) (out : IO.FS.Stream) (s : S) : IO Unit := do
  let line ← h.getLine
  if line.isEmpty then return ()
  let (s', o) := step s line
  out.putStrLn o
  loop h out s'

def main : IO Unit := do loop (← IO.getStdin) (← IO.getStdout) {}
end Redproxy.Driver.C16
