import Redproxy.Model.Socks
import Redproxy.Model.Http
import Redproxy.Model.Frames
import Redproxy.Model.Fragment
import Redproxy.Model.Accept
import Redproxy.Gen.AcceptSites
/-! Model side of the codec line protocol (see harness/codec.rs for the formats). -/
namespace Redproxy.Driver.Codec
open Redproxy Redproxy.Socks

def fuel : Nat := 1000000

def parseSegs (s : String) : Option (List Bytes) :=
  if s == "-" then some [] else (s.splitOn ",").mapM bytesOfHex

def showAddr : Addr → String
  | .domain h p => s!"D:{hexOrDash h}:{p}"
  | .v4 ip p => s!"4:{ip}:{p}"
  | .v6 ip p => s!"6:{hexOrDash ip}:{p}"
  | .unknown => "U"

def showAddrOpt : Option Addr → String
  | some a => showAddr a
  | none => "N"

def parseAddr (s : String) : Option (Option Addr) :=
  match s.splitOn ":" with
  | ["D", h, p] => do some (some (.domain (← bytesOfHex h) (← p.toNat?)))
  | ["4", ip, p] => do some (some (.v4 (← ip.toNat?) (← p.toNat?)))
  | ["6", ip, p] => do some (some (.v6 (← bytesOfHex ip) (← p.toNat?)))
  | ["U"] => some (some .unknown)
  | ["N"] => some none
  | _ => none

def parseAuth (s : String) : Option (Option (Bytes × Bytes)) :=
  if s == "N" then some none else
  match s.splitOn "/" with
  | [u, p] => do some (some (← bytesOfHex u, ← bytesOfHex p))
  | _ => none

def showAuth : Option (Bytes × Bytes) → String
  | none => "N"
  | some (u, p) => s!"{hexOrDash u}/{hexOrDash p}"

def parseTbl (s : String) : Option V6Tbl :=
  match s.splitOn "=" with
  | "tbl" :: rest =>
    let body := String.intercalate "=" rest
    if body == "-" then some [] else
    (body.splitOn ";").mapM fun e =>
      match e.splitOn "=" with
      | [t, v] => match v.splitOn ":" with
        | [ip, p] => do some (← bytesOfHex t, (← bytesOfHex ip, ← p.toNat?))
        | _ => none
      | _ => none
  | _ => none

def showW (w : W) : String := s!"w={hexOrDash w.flushed}/{hexOrDash w.pending}"

def showHeaders (hs : List (Bytes × Bytes)) : String :=
  if hs.isEmpty then "-" else String.intercalate ";" (hs.map fun (k, v) => s!"{hexOrDash k}={hexOrDash v}")

def showFrame (f : UFrame) : String := s!"sid={f.sessionId} a={showAddrOpt f.addr} b={hexOrDash f.body}"

def mkSS (segs : List Bytes) : SS := { buf := [], wire := segs }

def showFeature : Http.Feature → String
  | .tcp => "TcpForward"
  | .udpForward => "UdpForward"
  | .udpBind => "UdpBind"

/-- the `FSTREAM` loop: read frames until end of stream or error -/
def streamAll (n : Nat) (rem : Bytes) (s : SS) (acc : String) : String :=
  match n with
  | 0 => acc ++ "toomany"
  | n + 1 =>
    match Frames.streamRead fuel rem s with
    | (.ok (some f), rem', s') => streamAll n rem' s' (acc ++ s!"[{showFrame f}] ")
    | (.ok none, _, _) => acc ++ "eof"
    | (.err _, _, _) => acc ++ "err"
    | (.panic _, _, _) => "panic"

/-- `ST <stage>`: three clients stalled on one listener instance, then a fresh client per listener instance.  The
prediction comes from the accept-loop model applied to the loop shapes regenerated from the source. -/
def stallServed (stage : String) : String :=
  let waitsOf (file : String) : List (List Accept.Wait) :=
    (Gen.acceptSites.filter (fun s => s.1 == file)).map (fun s => s.2.2.map (fun a =>
      match a.2 with | .source => Accept.Wait.source | .peer => .peer | .squeue => .squeue | .local => .localWait))
  let probes : List (String × String) :=      -- (instance prefix of the stage names, source file)
    [("http-", "src/listeners/http.rs"), ("https-", "src/listeners/http.rs"), ("socks-", "src/listeners/socks.rs"),
     ("sockss-", "src/listeners/socks.rs"), ("quic-", "src/listeners/quic.rs"), ("rudp-", "src/listeners/reverse.rs")]
  let bits := probes.map (fun (pre, file) =>
    let cs : List Accept.Stalls := if stage.startsWith pre then [true, true, true, false] else [false]
    let k := cs.length - 1
    if (waitsOf file).all (fun ws => Accept.served ws cs k) && !(waitsOf file).isEmpty then "1" else "0")
  "served=" ++ String.join bits

def step (line : String) : String :=
  match line.trimAscii.toString.splitOn " " with
  | ["ST", stage] => stallServed stage
  | ["SREQ", req, segs] =>
    match parseSegs segs with
    | some segs =>
      match runSeg (readRequest (req == "1")) (mkSS segs) {} with
      | (.ok r, s, w) => s!"ok v={r.version} cmd={r.cmd} t={showAddr r.target} auth={showAuth r.auth} rest={hexOrDash s.flat} {showW w}"
      | (.err _, _, w) => s!"err {showW w}"
      | (.panic _, _, _) => "panic"
    | none => "bad-op"
  | ["SRESP", segs] =>
    match parseSegs segs with
    | some segs =>
      match runSeg readResponse (mkSS segs) {} with
      | (.ok r, s, _) => s!"ok v={r.version} cmd={r.cmd} t={showAddr r.target} rest={hexOrDash s.flat}"
      | (.err _, _, _) => "err"
      | (.panic _, _, _) => "panic"
    | none => "bad-op"
  | ["HREQ", segs, _tbl] =>
    match parseSegs segs with
    | some segs =>
      match runSeg (Http.readRequest fuel) (mkSS segs) {} with
      | (.ok r, s, _) => s!"ok m={hexOrDash r.method} r={hexOrDash r.resource} v={hexOrDash r.version} h={showHeaders r.headers} rest={hexOrDash s.flat}"
      | (.err _, _, _) => "err"
      | (.panic _, _, _) => "panic"
    | none => "bad-op"
  | ["HRESP", segs] =>
    match parseSegs segs with
    | some segs =>
      match runSeg (Http.readResponse fuel) (mkSS segs) {} with
      | (.ok r, s, _) => s!"ok v={hexOrDash r.version} c={r.code} s={hexOrDash r.status} h={showHeaders r.headers} rest={hexOrDash s.flat}"
      | (.err _, _, _) => "err"
      | (.panic _, _, _) => "panic"
    | none => "bad-op"
  | ["WSREQ", ver, cmd, addr, auth, segs] =>
    match ver.toNat?, cmd.toNat?, parseAddr addr, parseAuth auth, parseSegs segs with
    | some ver, some cmd, some (some a), some auth, some segs =>
      match runSeg (writeRequest { version := ver, cmd := cmd, target := a, auth := auth }) (mkSS segs) {} with
      | (.ok _, s, w) => s!"ok {showW w} rest={hexOrDash s.flat}"
      | (.err _, _, w) => s!"err {showW w}"
      | (.panic _, _, _) => "panic"
    | _, _, _, _, _ => "bad-op"
  | ["WSRESP", ver, cmd, addr] =>
    match ver.toNat?, cmd.toNat?, parseAddr addr with
    | some ver, some cmd, some (some a) =>
      match runSeg (writeResponse { version := ver, cmd := cmd, target := a }) (mkSS []) {} with
      | (.ok _, _, w) => s!"ok {showW w}"
      | (.err _, _, w) => s!"err {showW w}"
      | (.panic _, _, _) => "panic"
    | _, _, _ => "bad-op"
  | ["H11C", fc, addr, segs, tbl] =>
    match parseAddr addr, parseSegs segs, parseTbl tbl with
    | some (some a), some segs, some tbl =>
      let feature := if fc == "t" then Http.Feature.tcp else if fc == "u" then .udpForward else .udpBind
      match runSeg (Http.connectExchange tbl a feature (strBytes "inline") (strBytes "1.2.3.4:5") fuel) (mkSS segs) {} with
      | (.ok _, _, w) => s!"ok w={hexOrDash w.flushed}"
      | (.err _, _, w) => s!"err w={hexOrDash w.flushed}"
      | (.panic _, _, _) => "panic"
    | _, _, _ => "bad-op"
  | ["H11CF", addr, segs, tbl] =>
    match parseAddr addr, parseSegs segs, parseTbl tbl with
    | some (some a), some segs, some tbl =>
      match runSeg (Http.connectExchange tbl a .udpForward (strBytes "inline") (strBytes "1.2.3.4:5") fuel) (mkSS segs) {} with
      | (.ok _, s, _) => "ok " ++ streamAll 1002 [] s ""     -- the frame reader continues on the same buffered stream
      | (.err _, _, _) => "err"
      | (.panic _, _, _) => "panic"
    | _, _, _ => "bad-op"
  | ["HHSF", segs, tbl] =>
    match parseSegs segs, parseTbl tbl with
    | some segs, some tbl =>
      match runSeg (Http.readRequest fuel) (mkSS segs) {} with
      | (.ok r, s, _) =>
        match Http.interpret tbl r with
        | .tcp _ => "tcp"
        | .udp _ true _ => "ok " ++ streamAll 1002 [] s ""
        | _ => "err"
      | (.err _, _, _) => "err"
      | (.panic _, _, _) => "panic"
    | _, _ => "bad-op"
  | ["HHS", segs, tbl] =>
    match parseSegs segs, parseTbl tbl with
    | some segs, some tbl =>
      match runSeg (Http.readRequest fuel) (mkSS segs) {} with
      | (.ok r, _, _) =>
        match Http.interpret tbl r with
        | .tcp t => s!"ok enq=1 t={showAddr t} f=TcpForward bind=- w=-"
        | .udp t true src =>
          s!"ok enq=1 t={showAddr t} f={if src = [] then "UdpForward" else "UdpBind"} bind={hexOrDash src} w=-"
        | .udp _ false src =>
          -- non-inline channel: the harness's create_frames fails => "create frames" error, nothing enqueued
          s!"err enq=0 t=- f={if src = [] then "UdpForward" else "UdpBind"} bind={hexOrDash src} w=-"
        | .reply400 =>
          match runSeg (Http.writeResponse { version := strBytes "HTTP/1.1", code := 400, status := strBytes "Bad Request", headers := [] }) (mkSS []) {} with
          | (_, _, w) => s!"err enq=0 t=- f=TcpForward bind=- w={hexOrDash w.flushed}"
        | .error => "err enq=0 t=- f=TcpForward bind=- w=-"
      | (.err _, _, _) => "err enq=0 t=- f=TcpForward bind=- w=-"
      | (.panic _, _, _) => "panic"
    | _, _ => "bad-op"
  | ["ADDRPARSE", h, tbl] =>
    match bytesOfHex h, parseTbl tbl with
    | some b, some tbl =>
      if !utf8Valid b then "err" else
      match Addr.parse tbl b with
      | some a => s!"ok {showAddr a}"
      | none => "err"
    | _, _ => "bad-op"
  | ["ADDRSHOW", a, tbl] =>
    match parseAddr a, parseTbl tbl with
    | some (some a), some tbl => s!"ok {hexOrDash (a.toText tbl)}"
    | _, _ => "bad-op"
  | ["FBUF", h] =>
    match bytesOfHex h with
    | some b => match Frames.fromBuffer b with
      | .ok f => s!"ok {showFrame f}"
      | .err _ => "err"
      | .panic _ => "panic"
    | none => "bad-op"
  | ["FHEAD", h] =>
    match bytesOfHex h with
    | some b => match Frames.readHead b with
      | .ok none => "ok none"
      | .ok (some n) => s!"ok {n}"
      | .err _ => "err"
      | .panic _ => "panic"
    | none => "bad-op"
  | ["FSER", sid, a, body] =>
    match sid.toNat?, parseAddr a, bytesOfHex body with
    | some sid, some a, some body =>
      match Frames.serialize { addr := a, sessionId := sid, body := body } with
      | some b => s!"ok {hexOrDash b}"
      | none => "err"
    | _, _, _ => "bad-op"
  | ["FSTREAM", segs] =>
    match parseSegs segs with
    | some segs => streamAll 1001 [] (mkSS segs) ""
    | none => "bad-op"
  | ["RFR", ds] =>
    match (if ds == "none" then some [] else if ds == "-" then some [[]] else parseSegs ds) with
    | some ds =>
      let (_, outs) := ds.foldl (fun (acc : Fragment.St × List String) d =>
        let (st', o) := Fragment.reassemble 3600000 acc.1 0 d
        let s := match o with
          | .none => "none"
          | .panic _ => "panic"
          | .frame b => match Frames.fromBuffer b with
            | .ok f => s!"[{showFrame f}]"
            | .err _ => "none"
            | .panic _ => "panic"
        (st', acc.2 ++ [s])) (({} : Fragment.St), ([] : List String))
      String.intercalate " " outs
    | none => "bad-op"
  | ["UDEC", h] =>
    match bytesOfHex h with
    | some b => match decodeUdp b with
      | .ok (a, body) => s!"ok a={showAddr a} b={hexOrDash body}"
      | .err _ => "err"
      | .panic _ => "panic"
    | none => "bad-op"
  | ["UENC", a, body] =>
    match parseAddr a, bytesOfHex body with
    | some a, some body => match encodeUdp a body with
      | .ok b => s!"ok {hexOrDash b}"
      | .err _ => "err"
      | .panic _ => "panic"
    | _, _ => "bad-op"
  | _ => "bad-op"

partial def loop (h : IO.FS.Stream) (out : IO.FS.Stream) : IO Unit := do
  let line ← h.getLine
  if line.isEmpty then return ()
  out.putStrLn (step line)
  loop h out

def main : IO Unit := do loop (← IO.getStdin) (← IO.getStdout)

end Redproxy.Driver.Codec
