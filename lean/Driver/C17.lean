import Redproxy.Model.Lb
/-! Model side of the C17 line protocol (see harness/c17.rs). -/
namespace Redproxy.Driver.C17
open Redproxy.Lb

def countsOf (n : Nat) (xs : List Nat) : List Nat := (List.range n).map (fun m => xs.count m)

def step (line : String) : String :=
  match line.trimAscii.toString.splitOn " " with
  | ["RR", n, k] => match n.toNat?, k.toNat? with
    | some n, some k => String.intercalate "," ((rrSeq 0 n k).map toString)
    | _, _ => "bad-op"
  | ["RRC", n, t, p] => match n.toNat?, t.toNat?, p.toNat? with
    | some n, some t, some p => String.intercalate "," ((countsOf n (rrSeq 0 n (t * p))).map toString)
    | _, _, _ => "bad-op"
  | ["H", n, _, h] => match n.toNat?, h.toNat? with
    | some n, some h => toString (hashPick (fun (x : Nat) => x) h n)
    | _, _ => "bad-op"
  | ["RR2", na, nb, sched] => match na.toNat?, nb.toNat? with
    | some na, some nb =>
      -- two balancers, each with its own counter (Lb.multiRr; balancers_independent): balancer 0 over members
      -- 0..na-1, balancer 1 over na..na+nb-1
      let sched := sched.toList.map (fun c => if c == '1' then 1 else 0)
      let picks := multiRr (fun b => if b == 0 then na else nb) (fun _ => 0) sched
      let sa := (picks.filter (·.1 == 0)).map (fun p => toString p.2)
      let sb := (picks.filter (·.1 == 1)).map (fun p => toString (na + p.2))
      String.intercalate "," sa ++ " | " ++ String.intercalate "," sb
    | _, _ => "bad-op"
  | ["RRN", k] => match k.toNat? with
    | some k =>
      -- outer alternates between the two inner balancers; inner balancer j is used every second time and alternates itself
      let outer := rrSeq 0 2 k
      let leaves := outer.zipIdx.map (fun (o, i) => 2 * o + (i / 2) % 2)
      String.intercalate "," (leaves.map toString)
    | none => "bad-op"
  | ["RND", _, _] => "ok"
  | _ => "bad-op"

partial def loop (h : IO.FS.Stream) (out : IO.FS.Stream) : IO Unit := do
  let line ← h.getLine
  if line.isEmpty then return ()
  out.putStrLn (step line)
  loop h out

def main : IO Unit := do loop (← IO.getStdin) (← IO.getStdout)
end Redproxy.Driver.C17
