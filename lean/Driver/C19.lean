import Redproxy.Model.QuicCache
/-! Model side of the C19 line protocol (see harness/c19.rs). -/
namespace Redproxy.Driver.C19
open Redproxy.QuicCache

structure S where
  cache : Cache := none
  rr : Nat := 0          -- the round-robin counter of the load balancer in the `L` cases

def showO : Outcome → String
  | .ok => "ok" | .failFast => "failFast" | .timedOut => "failFast" | .hang => "hang"

def step (s : S) (line : String) : S × String :=
  match line.trimAscii.toString.splitOn " " with
  | ["R", _, phase] =>
    -- stateless connectors: the outcome depends only on whether the upstream is up
    (s, showO (statelessAttempt (!phase.startsWith "down")))
  | ["L", ups, k] =>
    -- round robin over two stateless members: the member whose turn it is decides the outcome, nothing is remembered
    match k.toNat? with
    | some k =>
      let up (m : Nat) : Bool := (ups.toList.getD m '0') == '1'
      let os := (List.range k).map (fun i => showO (lbAttempt up 2 (s.rr + i)))
      ({ s with rr := s.rr + k }, String.intercalate "," os)
    | none => (s, "bad-op")
  | ["X", _, _] => (s, "before=11 open-tunnel-error=1 client-closed=1 other-tunnel-alive=1")
  | ["Q", what] =>
    if what == "initial" || what == "reuse" then
      let (c, o) := attempt true s.cache
      ({ s with cache := c }, showO o)
    else if what.startsWith "during-outage" then
      -- SIGKILL: the endpoint has not noticed; the upstream is down
      let (c, _) := attempt false (outage false s.cache)
      ({ s with cache := c }, "fails")
    else if what == "silent-origin" then
      -- one tunnel to a healthy origin is open on the shared connection; a request to a silent origin times out
      let (c1, o1) := attempt true s.cache
      let sh : Shared := { cache := c1, tunnels := if o1 == Outcome.ok then 1 else 0 }
      let (sh2, o2) := silentOrigin false sh
      let (c3, o3) := attempt true sh2.cache
      ({ s with cache := c3 }, s!"slow-request={showO o2} healthy-tunnel={sh.tunnels}{sh2.tunnels} next={showO o3}")
    else if what.startsWith "after-orderly-close" then
      -- CONNECTION_CLOSE reached the connector: the endpoint knows
      let (c, os) := attempts attempt true 2 (outage true s.cache)
      ({ s with cache := c }, s!"recovered={if os.contains Outcome.ok then 1 else 0} attempts<=2:1 hang={if os.contains Outcome.hang then 1 else 0}")
    else if what.startsWith "after-restart" then
      let c0 := outage false s.cache
      let (c, os) := attempts attempt true 2 c0
      let firstOk := os.head? == some Outcome.ok
      let _ := firstOk
      ({ s with cache := c }, s!"recovered={if os.contains Outcome.ok then 1 else 0} attempts<=2:1 hang={if os.contains Outcome.hang then 1 else 0}")
    else (s, "bad-op")
  | _ => (s, "bad-op")

partial def loop (h : IO.FS.Stream) (out : IO.FS.Stream) (s : S) : IO Unit := do
  let line ← h.getLine
  if line.isEmpty then return ()
  let (s', o) := step s line
  out.putStrLn o
  loop h out s'

def main : IO Unit := do loop (← IO.getStdin) (← IO.getStdout) {}
end Redproxy.Driver.C19
