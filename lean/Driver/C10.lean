import Redproxy.Model.Udp
/-! Model side of the C10 line protocol (see harness/c10.rs): the model routes every datagram through the session table
    and the (identity) echo, and prints what each client gets back. -/
namespace Redproxy.Driver.C10
open Redproxy Redproxy.Udp

/-- history entries `client:len:hash`: the payload is represented by its (len, hash) signature -/
def parseHist (s : String) : Option (List (Nat × String)) :=
  if s == "-" then some [] else
  (s.splitOn ",").mapM fun e =>
    match e.splitOn ":" with
    | [c, l, h] => c.toNat?.map (fun c => (c, l ++ ":" ++ h))
    | _ => none

def step (line : String) : String :=
  match line.trimAscii.toString.splitOn " " with
  | ["R", n, h] =>
    match n.toNat?, parseHist h with
    | some n, some hist =>
      -- sessions keyed by client; each session's frames are echoed back to that client, in order
      let idx := hist.zipIdx
      let sess := run (idx.map fun ((c, _), i) => { src := c, payload := [i] })
      let sigs := hist.map (·.2)
      let outs := (List.range n).map fun c =>
        let q := queueOf sess c
        if q.isEmpty then "-" else String.intercalate "," (q.map fun p => sigs.getD (p.headD 0) "?")
      String.intercalate " | " outs
    | _, _ => "bad-op"
  | ["S", _, sent] => if sent == "-" then "no-association" else sent ++ " labelled=1"
  | ["E", _] => "none-extra"
  | _ => "bad-op"

partial def loop (h : IO.FS.Stream) (out : IO.FS.Stream) : IO Unit := do
  let line ← h.getLine
  if line.isEmpty then return ()
  out.putStrLn (step line)
  loop h out

def main : IO Unit := do loop (← IO.getStdin) (← IO.getStdout)
end Redproxy.Driver.C10
