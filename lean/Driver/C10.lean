import Redproxy.Model.Udp
/-! Model side of the C10 line protocol (see harness/c10.rs): the model routes every datagram through the session table
    and the (identity) echo, and prints what each client gets back. -/
namespace Redproxy.Driver.C10
open Redproxy Redproxy.Udp

/-- history entries `client:len:hash`: the payload is represented by its (len, hash) signature -/
def parseHist (s : String) : Option (List (Nat × String)) :=
  if s == "-" then some [] else
  (s.splitOn ",").mapM fun e =>
    match e.splitOn ":" with
    | [c, l, h] => c.toNat?.map (fun c => (c, l ++ ":" ++ h))
    | _ => none

def step (line : String) : String :=
  match line.trimAscii.toString.splitOn " " with
  | ["R", n, h] =>
    match n.toNat?, parseHist h with
    | some n, some hist =>
      -- sessions keyed by client; each session's frames are echoed back to that client, in order
      let idx := hist.zipIdx
      let sess := run (idx.map fun ((c, _), i) => { src := c, payload := [i] })
      let sigs := hist.map (·.2)
      let outs := (List.range n).map fun c =>
        let q := queueOf sess c
        if q.isEmpty then "-" else String.intercalate "," (q.map fun p => sigs.getD (p.headD 0) "?")
      String.intercalate " | " outs
    | _, _ => "bad-op"
  | ["S", _, sent] =>
    if sent == "-" then "no-association" else
    match parseHist sent with
    | some hist =>
      -- the association's session echoes per destination; what comes back from each origin is what was addressed to it, in order
      -- (through the relay model: frame i of the history carries its index as body, relayFrames decides what arrives)
      let idx := hist.zipIdx
      let arrived := relayFrames (idx.map (fun ((k, _), i) => Res.ok (some ({ addr := some k, body := [i] } : Frame))))
      let per (k : Nat) := let q := (arrived.filter (·.addr == some k)).map (fun f => (hist.getD (f.body.headD 0) (0, "?")).2)
                           if q.isEmpty then "-" else String.intercalate "," q
      per 0 ++ " | " ++ per 1 ++ " labelled=1 routed=1"
    | none => "bad-op"
  | ["E", _] => "none-extra"
  | ["Q", "sweep", _, _] => "missing=0 wrong=0"     -- every length is one frame: Props.C11 (fragmentation is exact for every size and MTU)
  | _ => "bad-op"

partial def loop (h : IO.FS.Stream) (out : IO.FS.Stream) : IO Unit := do
  let line ← h.getLine
  if line.isEmpty then return ()
  out.putStrLn (step line)
  loop h out

def main : IO Unit := do loop (← IO.getStdin) (← IO.getStdout)
end Redproxy.Driver.C10
