import Redproxy.Model.Route
import Redproxy.Model.Core
import Driver.C08
/-! Model side of the C02 / C15 line protocol (see harness/c02.rs, harness/route.rs). -/
namespace Redproxy.Driver.C02
open Redproxy Redproxy.MiluEval Redproxy.Route Redproxy.Driver.C08

structure S where
  conns : List Conn := []
  rules : List CRule := []

def parseConns (s : String) : Option (List Conn) :=
  if s == "-" then some [] else
  (s.splitOn ";").mapM fun e =>
    match e.splitOn ":" with
    | [n, fs] => do some { name := (← strOfHex n).toList, features := (fs.splitOn "+").map String.toList }
    | _ => none

def parseRules (s : String) : Option (List RuleCfg) :=
  if s == "-" then some [] else
  (s.splitOn ";").mapM fun e =>
    match e.splitOn "=" with
    | [t, f] => do
      let t ← strOfHex t
      if f == "N" then some { target := t.toList, filter := none }
      else some { target := t.toList, filter := some (← strOfHex f).toList }
    | _ => none

def evalFuel : Nat := 4000

def hexS (s : Str) : String := hexOfStr s

def step (s : S) (line : String) : S × String :=
  match line.trimAscii.toString.splitOn " " with
  | ["W", cs, rs] =>
    match parseConns cs, parseRules rs with
    | some conns, some cfgs =>
      let (rules, ok) := setRules conns [] cfgs
      ({ conns := conns, rules := rules }, if ok then "ok" else "rejected")
    | _, _ => (s, "bad-op")
  | ["S", rs] =>      -- replace the rule list of the current world (C15)
    match parseRules rs with
    | some cfgs =>
      let (rules, ok) := setRules s.conns s.rules cfgs
      ({ s with rules := rules }, if ok then "ok" else "rejected")
    | none => (s, "bad-op")
  | ["G"] =>
    let (rules, ok) := setRules s.conns s.rules (s.rules.map (·.src))
    ({ s with rules := rules }, if ok then "ok" else "rejected")
  | ["C", _] => (s, "ok")      -- theorem decided_by_one_version: never a mixture
  | ["Q", r, payload, failing] =>
    match parseReq r with
    | some q =>
      let fl := if failing == "-" then [] else failing.splitOn ","
      let out := match route ext q evalFuel s.conns s.rules with
        | .refuse .unsupportedFeature => "refuse:unsupported nconnect=0 up=- ev=on_error"
        | .refuse _ => "refuse:denied nconnect=0 up=- ev=on_error"
        | .connect c =>
          if fl.contains (hexS c) then s!"connect:{hexS c} nconnect=1 up=- ev=on_error"
          else s!"connect:{hexS c} nconnect=1 up={hexS c}<{payload} ev=on_connect+on_finish"
      (s, out)
    | none => (s, "bad-op")
  | ["K", ip, cidr] =>
    match strOfHex ip, strOfHex cidr with
    | some ip, some cidr => (s, if Cidr.cidrMatch ip.toList cidr.toList then "true" else "false")
    | _, _ => (s, "bad-op")
  | _ => (s, "bad-op")

partial def loop (h : IO.FS.Stream) (out : IO.FS.Stream) (s : S) : IO Unit := do
  let line ← h.getLine
  if line.isEmpty then return ()
  let (s', o) := step s line
  out.putStrLn o
  loop h out s'

def main : IO Unit := do loop (← IO.getStdin) (← IO.getStdout) {}
end Redproxy.Driver.C02
