import Redproxy.Model.Fragment
import Driver.Codec
namespace Redproxy.Driver.C11
open Redproxy Redproxy.Fragment

structure S where
  st : St := {}
  timeout : Nat := 0
  id : Nat := 0

def showOut : Out → String
  | .none => "none"
  | .frame b => "frame " ++ hexOrDash b
  | .panic _ => "panic"

def step (s : S) (line : String) : S × String :=
  match line.trimAscii.toString.splitOn " " with
  | ["new", t] => match t.toNat? with
    | some t => ({ timeout := t }, "ok")
    | none => (s, "bad-op")
  | ["setid", i] => match i.toNat? with
    | some i => ({ s with id := i % 65536 }, "ok")
    | none => (s, "bad-op")
  | ["M", mtu, h] => match mtu.toNat?, bytesOfHex h with
    | some mtu, some buf =>
      let s' := { s with id := nextId s.id }
      match makeFragments mtu s.id buf with
      | .panic _ => (s', "panic")
      | .err _ => (s', "err")
      | .ok fr =>
        if tooLarge mtu buf then (s', "toolarge")
        else (s', "frags " ++ String.intercalate "," (fr.map hexOrDash))
    | _, _ => (s, "bad-op")
  | ["R", now, h] => match now.toNat?, bytesOfHex h with
    | some now, some d =>
      let (st', o) := reassemble s.timeout s.st now d
      ({ s with st := st' }, showOut o)
    | _, _ => (s, "bad-op")
  | ["T", now] => match now.toNat? with
    | some now => ({ s with st := timer s.st now }, "ok")
    | none => (s, "bad-op")
  | ["S", _] => (s, "ok")
  | ["RFR", _] => (s, Redproxy.Driver.Codec.step line)
  | _ => (s, "bad-op")

partial def loop (h : IO.FS.Stream) (out : IO.FS.Stream) (s : S) : IO Unit := do
  let line ← h.getLine
  if line.isEmpty then return ()
  let (s', o) := step s line
  out.putStrLn o
  loop h out s'

def main : IO Unit := do loop (← IO.getStdin) (← IO.getStdout) {}

end Redproxy.Driver.C11
