import Redproxy.Model.MiluParser
import Redproxy.Model.Core
namespace Redproxy.Driver.C09
open Redproxy Redproxy.Milu

def step (line : String) : String :=
  match line.trimAscii.toString.splitOn " " with
  | ["P", h] =>
    match bytesOfHex h with
    | some b =>
      match String.fromUTF8? (ByteArray.mk (b.map (·.toUInt8)).toArray) with
      | some s =>
        match parse s.toList with
        | .ok a _ => "ok " ++ a.render
        | .err => "err"
        | .fatal => "err"
        | .unsupported => "unsupported"
      | none => "bad-utf8"
    | none => "bad-op"
  | _ => "bad-op"

partial def loop (h : IO.FS.Stream) (out : IO.FS.Stream) : IO Unit := do
  let line ← h.getLine
  if line.isEmpty then return ()
  out.putStrLn (step line)
  loop h out

def main : IO Unit := do loop (← IO.getStdin) (← IO.getStdout)
end Redproxy.Driver.C09
