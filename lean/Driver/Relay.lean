import Redproxy.Model.Relay
import Redproxy.Model.Core
/-! Model side of the C01 / C04 line protocol (see harness/relay.rs). -/
namespace Redproxy.Driver.Relay
open Redproxy Redproxy.Relay

def parseChunks (s : String) : Option (List Bytes) :=
  if s == "-" then some [] else (s.splitOn ",").mapM bytesOfHex

/-- re-split a chunk list at the relay's buffer size (a read returns at most `bufsz` bytes) -/
def splitAt (bufsz : Nat) (fuel : Nat) (c : Bytes) : List Bytes :=
  match fuel with
  | 0 => [c]
  | fuel + 1 => if c.length ≤ bufsz then [c] else c.take bufsz :: splitAt bufsz fuel (c.drop bufsz)

def rechunk (bufsz : Nat) (cs : List Bytes) : List Bytes := cs.flatMap (fun c => splitAt (max bufsz 1) c.length c)

def showOuts (o : List Out) : String :=
  String.intercalate " " (o.map fun
    | .data b => "d:" ++ hexOrDash b
    | .flush => "f"
    | .shutdown => "s")

def endOf (s : String) : Option End := if s == "eof" then some .eof else if s == "reset" then some .reset else none

def step (line : String) : String :=
  match line.trimAscii.toString.splitOn " " with
  | ["B", bufsz, c2s, s2c, hs] =>
    match bufsz.toNat?, parseChunks c2s, parseChunks s2c, hs.toNat? with
    | some bufsz, some c2s, some s2c, some hs =>
      -- the first `hs` bytes of the client's first chunk were consumed by the handshake; the BufReader holds the rest
      let (buf, wire) : Bytes × List Bytes := match c2s with
        | [] => ([], [])
        | c :: r => if hs = 0 then ([], c :: r) else (c.drop hs, r)
      let a := afterHandshake { buf := buf, wire := rechunk bufsz wire } .eof
      let a := if hs = 0 then copyHalf (rechunk bufsz c2s) .eof else { a with outs := a.outs.filter (· != Out.data []) }
      let b := copyHalf (rechunk bufsz s2c) .eof
      let srv := if hs = 0 then a.outs else (if buf.isEmpty then a.outs.drop 1 else a.outs)
      s!"srv=[{showOuts srv}] cli=[{showOuts b.outs}] ok={if a.ok && b.ok then 1 else 0} cb={a.count} sb={b.count}"
    | _, _, _, _ => "bad-op"
  | ["A", bufsz, c2s, ce, s2c, se] =>
    match bufsz.toNat?, parseChunks c2s, endOf ce, parseChunks s2c, endOf se with
    | some _, some c2s, some ce, some s2c, some se => s!"ok={if (copyBidi c2s ce s2c se).ok then 1 else 0}"
    | _, _, _, _, _ => "bad-op"
  | "T" :: _ :: _ :: _ :: _ :: _ :: [cl] =>
    -- theorems relay_buffered_fidelity / relay_splice_fidelity / handover_exact / eof_after_all_bytes / abort_closes_both
    if cl.startsWith "ClientFirst" || cl.startsWith "OriginFirst" then "reply=1 up=1 down=1 origin_eof=1 client_eof=1"
    else if cl.startsWith "ClientAbort" then "reply=1 origin_closed=1"
    else "reply=1 client_closed=1"
  | ["PAR", _, _] => "ok"
  | ["CH", _, _, _, _] => "ok"
  | ["SP", _, _, _, _] => "ok"
  | ["XC", _, _, _, _] => "ok"
  | ["GB", _, _] => "ok"               -- handover_exact: what the handshake reader leaves unread is delivered first      -- relay_noninterference: a tunnel's output is a function of its own input only      -- the same theorems; TLS records and QUIC streams are transports (not modelled)      -- handover_exact on both hops + relay fidelity
  | _ => "bad-op"

partial def loop (h : IO.FS.Stream) (out : IO.FS.Stream) : IO Unit := do
  let line ← h.getLine
  if line.isEmpty then return ()
  out.putStrLn (step line)
  loop h out

def main : IO Unit := do loop (← IO.getStdin) (← IO.getStdout)
end Redproxy.Driver.Relay
