import Redproxy.Model.Config
/-! Model side of the C18 line protocol (see harness/c18.rs). -/
namespace Redproxy.Driver.C18
open Redproxy Redproxy.Config

def specY (s : String) : Option (Option Y) :=
  if s == "absent" then some none
  else if s == "num" then some (some (.num 1))
  else if s == "bool" then some (some (.bool true))
  else if s == "null" then some (some .null)
  else if s == "seq" then some (some (.seq [.str "a"]))
  else if s == "map" then some (some (.map [("a", .str "b")]))
  else if s.startsWith "str:" then some (some (.str (s.drop 4).toString))
  else none

/-- the harness's documents satisfy every kind's struct: the per-kind parser succeeds and returns the entry's name -/
def kp (_t : String) (v : Y) : Res String :=
  match (v.get "name").bind Y.asStr with
  | some n => .ok n
  | none => .ok "?"       -- a non-string name on a connector (serde then rejects it: `name: String`)

/-- a connector struct has `name: String`: serde rejects any other shape -/
def kpConn (t : String) (v : Y) : Res String :=
  match (v.get "name").bind Y.asStr with
  | some n => .ok n
  | none => let _ := t; .err "invalid type: expected a string"

def showRes : Res String → String
  | .ok _ => "ok"
  | .err _ => "err"
  | .panic _ => "panic"

def mkEntry (n t : Option Y) : Y :=
  .map ((match n with | some y => [("name", y)] | none => []) ++ (match t with | some y => [("type", y)] | none => []))

def parseGraph (s : String) : Option Graph :=
  (s.splitOn ",").mapM fun e =>
    match e.splitOn ">" with
    | [n, ms] => some (n, if ms == "-" then [] else ms.splitOn "+")
    | _ => none

def step (line : String) : String :=
  match line.trimAscii.toString.splitOn " " with
  | ["V", kind, n, t] =>
    match specY n, specY t with
    | some n, some t =>
      let v := mkEntry n t
      if kind == "conn" then showRes (connectorFromValue kpConn v) else showRes (listenerFromValue kp v)
    | _, _ => "bad-op"
  | ["D", kind, names] =>
    let ns := if names == "-" then [] else names.splitOn ","
    let docs := ns.map fun n => mkEntry (some (.str n)) (some (.str (if kind == "conn" then "direct" else "http")))
    let fv := if kind == "conn" then connectorFromValue kpConn else listenerFromValue kp
    match fromConfig fv docs [] with
    | .ok _ => "ok"
    | .err _ => "err"
    | .panic _ => "panic"
  | ["L", leaves, g] =>
    match parseGraph g with
    | some lbs =>
      let graph : Graph := lbs ++ (leaves.splitOn "+").map (fun l => (l, []))
      String.intercalate " " (lbs.map fun (n, _) =>
        let acc := lbVerify graph n
        s!"{n}:{if acc then "acc" else "rej"}:{if acc then "served" else "-"}")
    | none => "bad-op"
  | ["M", _] => "no-panic-or-see-oracle"
  | ["A", _] => "no-panic"
  | ["B", what] =>
    -- the expectation table of the harness (oracle); the model side restates it for the loader-level cases it covers
    if what.startsWith "empty-rule" then "accepted up=1 served=0 alive=1" else
    if what == "valid" || what == "log-format-dynamic-error" || what == "rule-filter-min-mod" || what.startsWith "timeouts-" || what.startsWith "io-" then "accepted up=1 served=3 alive=1" else "rejected"
  | _ => "bad-op"

partial def loop (h : IO.FS.Stream) (out : IO.FS.Stream) : IO Unit := do
  let line ← h.getLine
  if line.isEmpty then return ()
  out.putStrLn (step line)
  loop h out

def main : IO Unit := do loop (← IO.getStdin) (← IO.getStdout)
end Redproxy.Driver.C18
