import Mathlib.Data.List.SplitBy
import Redproxy.Model.Http
/-! `split_ascii_whitespace` on a request line (uses Mathlib's `List.splitBy_flatten`; proof file only). -/
namespace Redproxy.HttpLine
open Redproxy
theorem noWs_chain (m : Bytes) (h : ∀ x ∈ m, isAsciiWs x = false) :
    m.IsChain fun a b => (!isAsciiWs a && !isAsciiWs b) = true := by
  induction m with
  | nil => exact List.isChain_nil
  | cons a m ih =>
    cases m with
    | nil => exact List.isChain_singleton a
    | cons b m =>
      refine List.isChain_cons_cons.2 ⟨by simp [h a (by simp), h b (by simp)], ih (fun x hx => h x (by simp [hx]))⟩

theorem splitAsciiWs_three (m r v : Bytes) (hm : m ≠ []) (hr : r ≠ []) (hv : v ≠ [])
    (hmw : ∀ x ∈ m, isAsciiWs x = false) (hrw : ∀ x ∈ r, isAsciiWs x = false) (hvw : ∀ x ∈ v, isAsciiWs x = false) :
    splitAsciiWs (m ++ [0x20] ++ r ++ [0x20] ++ v) = [m, r, v] := by
  have hsp : (m ++ [0x20] ++ r ++ [0x20] ++ v).splitBy (fun a b => !isAsciiWs a && !isAsciiWs b) = [m, [0x20], r, [0x20], v] := by
    have := List.splitBy_flatten (r := fun a b => !isAsciiWs a && !isAsciiWs b) (l := [m, [0x20], r, [0x20], v])
      (by simp [hm.symm, hr.symm, hv.symm])
      (by
        intro x hx
        simp only [List.mem_cons, List.not_mem_nil, or_false] at hx
        rcases hx with rfl|rfl|rfl|rfl|rfl
        · exact noWs_chain _ hmw
        · exact List.isChain_singleton _
        · exact noWs_chain _ hrw
        · exact List.isChain_singleton _
        · exact noWs_chain _ hvw)
      (by
        refine List.isChain_cons_cons.2 ⟨⟨hm, by simp, by simp [isAsciiWs]⟩, List.isChain_cons_cons.2 ⟨⟨by simp, hr, ?_⟩,
          List.isChain_cons_cons.2 ⟨⟨hr, by simp, by simp [isAsciiWs]⟩, List.isChain_cons_cons.2 ⟨⟨by simp, hv, ?_⟩, List.isChain_singleton _⟩⟩⟩⟩
        · simp [isAsciiWs]
        · simp [isAsciiWs])
    simpa [List.append_assoc] using this
  have na : ∀ t : Bytes, t ≠ [] → (∀ x ∈ t, isAsciiWs x = false) → t.all isAsciiWs = false := by
    intro t ht hw
    cases t with
    | nil => exact absurd rfl ht
    | cons a t => simp [hw a (by simp)]
  unfold splitAsciiWs
  rw [hsp]
  simp [List.filter, na m hm hmw, na r hr hrw, na v hv hvw, isAsciiWs]

end Redproxy.HttpLine
