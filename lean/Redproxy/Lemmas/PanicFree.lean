import Redproxy.Lemmas.Rd
/-! A reader program without a reachable `panic` node never panics, on any input. -/
namespace Redproxy

inductive PanicFree {α : Type} : Rd α → Prop where
  | pure (a : α) : PanicFree (.pure a)
  | fail (e : String) : PanicFree (.fail e)
  | byteOpt (k : Option Nat → Rd α) : (∀ o, PanicFree (k o)) → PanicFree (.byteOpt k)
  | untilD (d : Nat) (k : Bytes → Rd α) : (∀ b, PanicFree (k b)) → PanicFree (.untilD d k)
  | write (b : Bytes) (k : Rd α) : PanicFree k → PanicFree (.write b k)
  | flush (k : Rd α) : PanicFree k → PanicFree (.flush k)

theorem PanicFree.runFlat {α : Type} {p : Rd α} (h : PanicFree p) (s : Bytes) (w : W) :
    ∀ site, (Redproxy.runFlat p s w).1 ≠ Res.panic site := by
  induction h generalizing s w with
  | pure a => intro site; simp [Redproxy.runFlat]
  | fail e => intro site; simp [Redproxy.runFlat]
  | byteOpt k _ ih =>
    intro site
    cases s with
    | nil => simp only [Redproxy.runFlat]; exact ih none [] w site
    | cons b r => simp only [Redproxy.runFlat]; exact ih (some b) r w site
  | untilD d k _ ih => intro site; simp only [Redproxy.runFlat]; exact ih _ _ w site
  | write b k _ ih => intro site; simp only [Redproxy.runFlat]; exact ih s _ site
  | flush k _ ih => intro site; simp only [Redproxy.runFlat]; exact ih s _ site

theorem PanicFree.runSeg {α : Type} {p : Rd α} (h : PanicFree p) (s : SS) (w : W) :
    ∀ site, (Redproxy.runSeg p s w).1 ≠ Res.panic site := by
  intro site
  have := runSeg_eq_runFlat p s w
  have h2 := h.runFlat s.flat w site
  rw [this] at h2
  exact h2

theorem PanicFree.bind {α β : Type} {p : Rd α} {f : α → Rd β} (hp : PanicFree p) (hf : ∀ a, PanicFree (f a)) :
    PanicFree (p >>= f) := by
  induction hp with
  | pure a => exact hf a
  | fail e => exact .fail e
  | byteOpt k _ ih => exact .byteOpt _ ih
  | untilD d k _ ih => exact .untilD d _ ih
  | write b k _ ih => exact .write b _ ih
  | flush k _ ih => exact .flush _ ih

theorem PanicFree.pure' {α : Type} (a : α) : PanicFree (Pure.pure a : Rd α) := .pure a

theorem PanicFree.u8 : PanicFree Rd.u8 := by
  unfold Rd.u8
  apply PanicFree.byteOpt
  intro o; cases o <;> constructor

theorem PanicFree.u16 : PanicFree Rd.u16 := by
  unfold Rd.u16
  exact .bind .u8 fun _ => .bind .u8 fun _ => .pure' _

theorem PanicFree.u32 : PanicFree Rd.u32 := by
  unfold Rd.u32
  exact .bind .u8 fun _ => .bind .u8 fun _ => .bind .u8 fun _ => .bind .u8 fun _ => .pure' _

theorem PanicFree.exact (n : Nat) : PanicFree (Rd.exact n) := by
  induction n with
  | zero => exact .pure' _
  | succ n ih => unfold Rd.exact; exact .bind .u8 fun _ => .bind ih fun _ => .pure' _

theorem PanicFree.wr (b : Bytes) : PanicFree (Rd.wr b) := .write b _ (.pure ())
theorem PanicFree.fl : PanicFree Rd.fl := .flush _ (.pure ())
theorem PanicFree.failWith {α : Type} (e : String) : PanicFree (Rd.failWith e : Rd α) := .fail e

end Redproxy
