import Redproxy.Model.Addr
/-! Helper lemmas for the text form of a `TargetAddress`: decimal rendering and its inverse, splitting at separators. -/
namespace Redproxy
namespace AddrText

/-! ### decimal digits -/

theorem decDigits_spec (fuel n : Nat) (acc : Bytes) (hf : n < fuel) :
    ∃ ds : Bytes, decDigits fuel n acc = ds ++ acc ∧ ds ≠ [] ∧ ds.all isDigit = true ∧ decVal ds = n ∧
      (ds.length = 1 ∨ ds.head? ≠ some 0x30) ∧ (n < 10 → ds.length = 1) ∧ (n < 100 → ds.length ≤ 2) ∧ (n < 1000 → ds.length ≤ 3) := by
  induction fuel generalizing n acc with
  | zero => omega
  | succ fuel ih =>
    unfold decDigits
    by_cases h : n < 10
    · refine ⟨[0x30 + n], by simp [h], by simp, ?_, ?_, by simp, by simp, by simp, by simp⟩
      · simp [isDigit]; omega
      · simp [decVal]
    · simp only [h, ↓reduceIte]
      have hlt : n / 10 < fuel := by omega
      obtain ⟨ds, he, hne, hall, hval, hlead, h1, h2, h3⟩ := ih (n / 10) ((0x30 + n % 10) :: acc) hlt
      refine ⟨ds ++ [0x30 + n % 10], by simp [he], by simp, ?_, ?_, ?_, ?_, ?_, ?_⟩
      · simp [List.all_append, hall, isDigit]; omega
      · simp only [decVal, List.foldl_append, List.foldl_cons, List.foldl_nil] at *
        rw [hval]; omega
      · right
        cases ds with
        | nil => exact absurd rfl hne
        | cons d ds' =>
          simp only [List.cons_append, List.head?_cons]
          rcases hlead with hl | hl
          · -- a single leading digit d = value n/10 ≥ 1
            simp only [List.length_cons, Nat.add_eq_right, List.length_eq_zero_iff] at hl
            subst hl
            simp only [decVal, List.foldl_cons, List.foldl_nil] at hval
            simp only [List.all_cons, List.all_nil, Bool.and_true, isDigit, Bool.and_eq_true, decide_eq_true_eq] at hall
            intro hc
            simp only [Option.some.injEq] at hc
            omega
          · simpa using hl
      · intro hh; first | exact hh.elim | omega
      · intro hh
        have := h1 (by omega)
        simp [this]
      · intro hh
        have := h2 (by omega)
        simp; omega

theorem showNat_spec (n : Nat) :
    showNat n ≠ [] ∧ (showNat n).all isDigit = true ∧ decVal (showNat n) = n ∧
      ((showNat n).length = 1 ∨ (showNat n).head? ≠ some 0x30) ∧ (n < 1000 → (showNat n).length ≤ 3) := by
  obtain ⟨ds, he, hne, hall, hval, hlead, _, _, h3⟩ := decDigits_spec (n + 1) n [] (by omega)
  unfold showNat
  rw [he]
  simp only [List.append_nil]
  exact ⟨hne, hall, hval, hlead, h3⟩

theorem digit_not (sep : Nat) (hs : isDigit sep = false) (l : Bytes) (h : l.all isDigit = true) : sep ∉ l := by
  intro hm
  have := List.all_eq_true.mp h sep hm
  rw [hs] at this
  exact absurd this (by decide)

theorem parseUnsigned_digits (max : Nat) (l : Bytes) (hne : l ≠ []) (hall : l.all isDigit = true) (hle : decVal l ≤ max) :
    parseUnsigned max l = some (decVal l) := by
  cases l with
  | nil => exact absurd rfl hne
  | cons c r =>
    have hc : c ≠ 0x2B := by
      intro e
      have := List.all_eq_true.mp hall c (by simp)
      rw [e] at this
      exact absurd this (by decide)
    unfold parseUnsigned
    split
    · next r' heq =>
      simp only [List.cons.injEq] at heq
      exact absurd heq.1 hc
    · simp [hall, hle]

/-! ### splitting -/

theorem splitOnce_single_notin (sep : Nat) (l : Bytes) (h : sep ∉ l) : splitOnce [sep] l = none := by
  induction l with
  | nil => simp [splitOnce]
  | cons b r ih =>
    have hb : b ≠ sep := fun e => h (by simp [e])
    have hr : sep ∉ r := fun m => h (by simp [m])
    simp only [splitOnce, List.isPrefixOf, List.cons.injEq, beq_iff_eq]
    have : (sep == b) = false := by simp [Ne.symm hb]
    simp [this, ih hr]

theorem splitOnce_single (sep : Nat) (a r : Bytes) (h : sep ∉ a) :
    splitOnce [sep] (a ++ sep :: r) = some (a, r) := by
  induction a with
  | nil => simp [splitOnce, List.isPrefixOf]
  | cons b a ih =>
    have hb : b ≠ sep := fun e => h (by simp [e])
    have ha : sep ∉ a := fun m => h (by simp [m])
    have : (sep == b) = false := by simp [Ne.symm hb]
    simp [splitOnce, List.isPrefixOf, this, ih ha]

/-- the text `host:digits` splits at its last colon -/
theorem rsplitColon_append (h p : Bytes) (hp : 0x3A ∉ p) :
    rsplitColon (h ++ [0x3A] ++ p) = some (h, p) := by
  unfold rsplitColon
  have : (h ++ [0x3A] ++ p).reverse = p.reverse ++ 0x3A :: h.reverse := by simp
  rw [this, splitOnce_single 0x3A p.reverse h.reverse (by simpa using hp)]
  simp

theorem splitAll_notin (sep : Nat) (l : Bytes) (h : sep ∉ l) : Addr.splitAll sep l = [l] := by
  induction l with
  | nil => simp [Addr.splitAll]
  | cons b r ih =>
    have hb : b ≠ sep := fun e => h (by simp [e])
    have hr : sep ∉ r := fun m => h (by simp [m])
    have := ih hr
    unfold Addr.splitAll at *
    simp only [List.foldr_cons, hb, ↓reduceIte, this]

theorem splitAll_append (sep : Nat) (a r : Bytes) (h : sep ∉ a) :
    Addr.splitAll sep (a ++ sep :: r) = a :: Addr.splitAll sep r := by
  induction a with
  | nil => simp [Addr.splitAll]
  | cons b a ih =>
    have hb : b ≠ sep := fun e => h (by simp [e])
    have ha : sep ∉ a := fun m => h (by simp [m])
    have := ih ha
    unfold Addr.splitAll at *
    simp only [List.cons_append, List.foldr_cons, hb, ↓reduceIte, this]

end AddrText
end Redproxy
