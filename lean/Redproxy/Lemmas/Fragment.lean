import Redproxy.Model.Fragment
/-! Helper lemmas for the fragment model (association map, chunking, bitmap arithmetic). -/
namespace Redproxy.Fragment

/-! ### AMap -/
namespace AMap
variable {β : Type}

@[simp] theorem get_erase_self (m : AMap β) (i : Nat) : (erase m i).get i = none := by
  induction m with
  | nil => rfl
  | cons kv m ih =>
    obtain ⟨k, v⟩ := kv
    by_cases h : k = i <;> simp [erase, get, h, ih]

theorem get_erase_ne (m : AMap β) {i j : Nat} (h : j ≠ i) : (erase m i).get j = m.get j := by
  induction m with
  | nil => rfl
  | cons kv m ih =>
    obtain ⟨k, v⟩ := kv
    by_cases hk : k = i
    · have : k ≠ j := by omega
      simp [erase, get, hk, ih]; omega
    · by_cases hj : k = j
      · subst hj; simp [erase, get, hk]
      · simp [erase, get, hk, hj, ih]

@[simp] theorem get_set_self (m : AMap β) (i : Nat) (v : β) : (set m i v).get i = some v := by
  simp [set, get]

theorem get_set_ne (m : AMap β) {i j : Nat} (v : β) (h : j ≠ i) : (set m i v).get j = m.get j := by
  have : i ≠ j := fun e => h e.symm
  simp [set, get, this, get_erase_ne m h]

end AMap

/-! ### chunks -/

theorem chunks_nil (size : Nat) : chunks size [] = [] := by
  unfold chunks; simp

theorem chunks_cons (size : Nat) (buf : Bytes) (hs : 0 < size) (hb : buf ≠ []) :
    chunks size buf = buf.take size :: chunks size (buf.drop size) := by
  rw [chunks]
  have : ¬ (size = 0 ∨ buf = []) := by
    intro h; cases h with
    | inl h => omega
    | inr h => exact hb h
  simp [this]

theorem chunks_flatten (size : Nat) (hs : 0 < size) (buf : Bytes) : (chunks size buf).flatten = buf := by
  induction h : buf.length using Nat.strongRecOn generalizing buf with
  | _ n ih =>
    by_cases hb : buf = []
    · subst hb; simp [chunks_nil]
    · rw [chunks_cons size buf hs hb]
      have hl : 0 < buf.length := List.length_pos_iff.mpr hb
      have := ih (buf.drop size).length (by simp [List.length_drop]; omega) (buf.drop size) rfl
      simp [this]

theorem divCeil_eq (a b : Nat) (hb : 0 < b) : divCeil a b = (a + b - 1) / b := by
  unfold divCeil
  by_cases h : a % b > 0
  · simp [h, hb]
    have h1 : a = b * (a / b) + a % b := (Nat.div_add_mod a b).symm
    have hlt : a % b < b := Nat.mod_lt a hb
    have h2 : a + b - 1 = b * (a / b + 1) + (a % b - 1) := by
      rw [Nat.mul_add, Nat.mul_one]; omega
    rw [h2, Nat.mul_add_div hb]
    have : (a % b - 1) / b = 0 := Nat.div_eq_of_lt (by omega)
    omega
  · have h0 : a % b = 0 := by omega
    simp [h0]
    have h1 : a = b * (a / b) := by
      have := (Nat.div_add_mod a b).symm; omega
    have h2 : a + b - 1 = b * (a / b) + (b - 1) := by omega
    rw [h2, Nat.mul_add_div hb]
    have : (b - 1) / b = 0 := Nat.div_eq_of_lt (by omega)
    omega

theorem chunks_length (size : Nat) (hs : 0 < size) (buf : Bytes) :
    (chunks size buf).length = divCeil buf.length size := by
  induction h : buf.length using Nat.strongRecOn generalizing buf with
  | _ n ih =>
    subst h
    by_cases hb : buf = []
    · subst hb; simp [chunks_nil, divCeil]
    · rw [chunks_cons size buf hs hb]
      have hl : 0 < buf.length := List.length_pos_iff.mpr hb
      have := ih (buf.drop size).length (by simp [List.length_drop]; omega) (buf.drop size) rfl
      simp only [List.length_cons, this, List.length_drop]
      rw [divCeil_eq _ _ hs, divCeil_eq _ _ hs]
      by_cases hle : buf.length ≤ size
      · have e1 : buf.length - size = 0 := by omega
        rw [e1]
        have : (0 + size - 1) / size = 0 := Nat.div_eq_of_lt (by omega)
        rw [this]
        have h2 : buf.length + size - 1 = size * 1 + (buf.length - 1) := by omega
        rw [h2, Nat.mul_add_div hs]
        have : (buf.length - 1) / size = 0 := Nat.div_eq_of_lt (by omega)
        omega
      · have h2 : buf.length + size - 1 = size * 1 + (buf.length - size + size - 1) := by omega
        rw [h2, Nat.mul_add_div hs]; omega

theorem chunks_bound (size : Nat) (hs : 0 < size) (buf : Bytes) :
    ∀ c ∈ chunks size buf, c ≠ [] ∧ c.length ≤ size := by
  induction h : buf.length using Nat.strongRecOn generalizing buf with
  | _ n ih =>
    subst h
    by_cases hb : buf = []
    · subst hb; simp [chunks_nil]
    · rw [chunks_cons size buf hs hb]
      have hl : 0 < buf.length := List.length_pos_iff.mpr hb
      have := ih (buf.drop size).length (by simp [List.length_drop]; omega) (buf.drop size) rfl
      intro c hc
      simp only [List.mem_cons] at hc
      cases hc with
      | inl e =>
        subst e
        refine ⟨?_, by simp [List.length_take]; omega⟩
        intro e
        have : (buf.take size).length = 0 := by rw [e]; rfl
        rw [List.length_take] at this; omega
      | inr hc => exact this c hc

/-! ### withHeaders -/

theorem withHeaders_length (id total s : Nat) (cs : List Bytes) :
    (withHeaders id total s cs).length = cs.length := by
  induction cs generalizing s with
  | nil => rfl
  | cons c cs ih => simp [withHeaders, ih]

theorem withHeaders_getElem? (id total s : Nat) (cs : List Bytes) (i : Nat) :
    (withHeaders id total s cs)[i]? = (cs[i]?).map (fun c => header id total (s + i) ++ c) := by
  induction cs generalizing s i with
  | nil => simp [withHeaders]
  | cons c cs ih =>
    cases i with
    | zero => simp [withHeaders]
    | succ i =>
      simp only [withHeaders, List.getElem?_cons_succ, ih]
      have : s + 1 + i = s + (i + 1) := by omega
      rw [this]

/-! ### bitmap -/

theorem testBit_ge_128 {b j : Nat} (hb : b < 2 ^ 128) (hj : 128 ≤ j) : b.testBit j = false := by
  apply Nat.testBit_lt_two_pow
  exact Nat.lt_of_lt_of_le hb (Nat.pow_le_pow_right (by decide) hj)

theorem testBit_full128 (j : Nat) : full128.testBit j = decide (j < 128) :=
  Nat.testBit_two_pow_sub_one 128 j

theorem eq_full128_iff {b : Nat} (hb : b < 2 ^ 128) :
    b = full128 ↔ ∀ j, j < 128 → b.testBit j = true := by
  constructor
  · intro e j hj
    subst e
    rw [testBit_full128]; simp [hj]
  · intro h
    apply Nat.eq_of_testBit_eq
    intro i
    by_cases hi : i < 128
    · rw [h i hi, testBit_full128]; simp [hi]
    · rw [testBit_ge_128 hb (by omega), testBit_full128]; simp [hi]

theorem testBit_setbit (b i j : Nat) : (b ||| (1 <<< i)).testBit j = (b.testBit j || decide (i = j)) := by
  rw [Nat.testBit_or, Nat.one_shiftLeft, Nat.testBit_two_pow]

theorem setbit_lt {b i : Nat} (hb : b < 2 ^ 128) (hi : i < 128) : b ||| (1 <<< i) < 2 ^ 128 := by
  apply Nat.or_lt_two_pow hb
  rw [Nat.one_shiftLeft]
  exact Nat.pow_lt_pow_right (by decide) hi

theorem testBit_newmap (total i j : Nat) (hj : j < 128) :
    (((full128 <<< total) % 2 ^ 128) ||| (1 <<< i)).testBit j = (decide (total ≤ j) || decide (i = j)) := by
  rw [testBit_setbit, Nat.testBit_mod_two_pow, Nat.testBit_shiftLeft, testBit_full128]
  have : j - total < 128 := by omega
  simp [hj, this]

theorem newmap_lt (total i : Nat) (hi : i < 128) :
    ((full128 <<< total) % 2 ^ 128) ||| (1 <<< i) < 2 ^ 128 :=
  setbit_lt (Nat.mod_lt _ (by decide)) hi

end Redproxy.Fragment
