import Redproxy.Model.Rd
/-! Segmentation insensitivity of the `Rd` interpreters. -/
namespace Redproxy

theorem SS.nextWire_none (w : List Bytes) (h : SS.nextWire w = none) : w.flatten = [] := by
  induction w with
  | nil => rfl
  | cons seg w ih =>
    cases seg with
    | nil => simp [SS.nextWire] at h; simp [ih h]
    | cons b r => simp [SS.nextWire] at h

theorem SS.nextWire_some (w : List Bytes) (b : Nat) (s' : SS) (h : SS.nextWire w = some (b, s')) :
    w.flatten = b :: s'.flat := by
  induction w with
  | nil => simp [SS.nextWire] at h
  | cons seg w ih =>
    cases seg with
    | nil => simp [SS.nextWire] at h; simp [ih h]
    | cons c r =>
      simp [SS.nextWire] at h
      obtain ⟨h1, h2⟩ := h
      subst h1; subst h2
      simp [SS.flat]

theorem SS.next_none (s : SS) (h : s.next = none) : s.flat = [] := by
  unfold SS.next at h
  cases hb : s.buf with
  | nil => rw [hb] at h; simp [SS.flat, hb, SS.nextWire_none _ h]
  | cons b r => rw [hb] at h; simp at h

theorem SS.next_some (s : SS) (b : Nat) (s' : SS) (h : s.next = some (b, s')) : s.flat = b :: s'.flat := by
  unfold SS.next at h
  cases hb : s.buf with
  | nil => rw [hb] at h; simp [SS.flat, hb, SS.nextWire_some _ _ _ h]
  | cons c r =>
    rw [hb] at h
    simp at h
    obtain ⟨h1, h2⟩ := h
    subst h1; subst h2
    simp [SS.flat, hb]

theorem SS.takeUntil_flat (d : Nat) (fuel : Nat) (s : SS) (acc : Bytes) (hf : s.flat.length < fuel) :
    (SS.takeUntil d fuel s acc).1 = acc.reverse ++ (flatUntil d s.flat).1 ∧
    (SS.takeUntil d fuel s acc).2.flat = (flatUntil d s.flat).2 := by
  induction fuel generalizing s acc with
  | zero => omega
  | succ fuel ih =>
    unfold SS.takeUntil
    cases hn : s.next with
    | none =>
      have := SS.next_none s hn
      simp [this, flatUntil]
    | some p =>
      obtain ⟨b, s'⟩ := p
      have hfl := SS.next_some s b s' hn
      simp only []
      by_cases hbd : b = d
      · simp [hbd, hfl, flatUntil]
      · have hlen : s'.flat.length < fuel := by
          rw [hfl] at hf; simp at hf; omega
        have := ih s' (b :: acc) hlen
        simp only [hbd, if_false, hfl, flatUntil]
        constructor
        · rw [this.1]; simp
        · rw [this.2]

/-- MAIN (C12): for every reader program, every buffered-reader state / segmentation of the wire and
    every writer state, the segmented run and the flat run over the concatenated bytes produce the same
    result, the same bytes written/flushed, and leave the same bytes unread. -/
theorem runSeg_eq_runFlat {α : Type} (p : Rd α) (s : SS) (w : W) :
    runFlat p s.flat w = ((runSeg p s w).1, (runSeg p s w).2.1.flat, (runSeg p s w).2.2) := by
  induction p generalizing s w with
  | pure a => simp [runSeg, runFlat]
  | fail e => simp [runSeg, runFlat]
  | panic e => simp [runSeg, runFlat]
  | byteOpt k ih =>
    unfold runSeg
    cases hn : s.next with
    | none =>
      have := SS.next_none s hn
      simp only []
      rw [← ih none s w, this]
      simp [runFlat]
    | some p =>
      obtain ⟨b, s'⟩ := p
      have hfl := SS.next_some s b s' hn
      simp only []
      rw [← ih (some b) s' w, hfl]
      simp [runFlat]
  | untilD d k ih =>
    unfold runSeg
    have := SS.takeUntil_flat d (s.flat.length + 1) s [] (by omega)
    simp only []
    rw [← ih]
    simp only [runFlat]
    rw [this.2, this.1]
    simp
  | write b k ih => simp only [runSeg, runFlat]; exact ih s _
  | flush k ih => simp only [runSeg, runFlat]; exact ih s _

end Redproxy
