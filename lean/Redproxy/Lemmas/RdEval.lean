import Redproxy.Lemmas.Rd
import Redproxy.Model.Socks
/-! Evaluation lemmas for reader programs over the flat interpreter. -/
namespace Redproxy

theorem runFlat_bind {α β : Type} (p : Rd α) (f : α → Rd β) (s : Bytes) (w : W) :
    runFlat (p >>= f) s w =
      match runFlat p s w with
      | (.ok a, s', w') => runFlat (f a) s' w'
      | (.err e, s', w') => (.err e, s', w')
      | (.panic e, s', w') => (.panic e, s', w') := by
  show runFlat (Rd.bind p f) s w = _
  induction p generalizing s w with
  | pure a => simp [Rd.bind, runFlat]
  | fail e => simp [Rd.bind, runFlat]
  | panic e => simp [Rd.bind, runFlat]
  | byteOpt k ih =>
    cases s with
    | nil => simp only [Rd.bind, runFlat]; exact ih none [] w
    | cons b r => simp only [Rd.bind, runFlat]; exact ih (some b) r w
  | untilD d k ih => simp only [Rd.bind, runFlat]; exact ih _ _ w
  | write b k ih => simp only [Rd.bind, runFlat]; exact ih s _
  | flush k ih => simp only [Rd.bind, runFlat]; exact ih s _

@[simp] theorem runFlat_pure {α : Type} (a : α) (s : Bytes) (w : W) :
    runFlat (pure a : Rd α) s w = (.ok a, s, w) := rfl

@[simp] theorem runFlat_pure' {α : Type} (a : α) (s : Bytes) (w : W) :
    runFlat (Rd.pure a : Rd α) s w = (.ok a, s, w) := rfl

@[simp] theorem runFlat_u8_cons (b : Nat) (r : Bytes) (w : W) : runFlat Rd.u8 (b :: r) w = (.ok b, r, w) := rfl
@[simp] theorem runFlat_u8_nil (w : W) : runFlat Rd.u8 [] w = (.err "eof", [], w) := rfl

@[simp] theorem runFlat_u16 (a b : Nat) (r : Bytes) (w : W) :
    runFlat Rd.u16 (a :: b :: r) w = (.ok (a * 256 + b), r, w) := by
  simp [Rd.u16, runFlat_bind]

@[simp] theorem runFlat_u32 (a b c d : Nat) (r : Bytes) (w : W) :
    runFlat Rd.u32 (a :: b :: c :: d :: r) w = (.ok (((a * 256 + b) * 256 + c) * 256 + d), r, w) := by
  simp [Rd.u32, runFlat_bind]

theorem runFlat_exact (d rest : Bytes) (w : W) : runFlat (Rd.exact d.length) (d ++ rest) w = (.ok d, rest, w) := by
  induction d with
  | nil => simp [Rd.exact]
  | cons b d ih => simp [Rd.exact, runFlat_bind, ih]

@[simp] theorem runFlat_wr (b s : Bytes) (w : W) :
    runFlat (Rd.wr b) s w = (.ok (), s, { w with pending := w.pending ++ b }) := rfl
@[simp] theorem runFlat_fl (s : Bytes) (w : W) :
    runFlat Rd.fl s w = (.ok (), s, { flushed := w.flushed ++ w.pending, pending := [] }) := rfl
@[simp] theorem runFlat_failWith {α : Type} (e : String) (s : Bytes) (w : W) :
    runFlat (Rd.failWith e : Rd α) s w = (.err e, s, w) := rfl

theorem flatUntil_delim (d : Nat) (x rest : Bytes) (h : d ∉ x) :
    flatUntil d (x ++ d :: rest) = (x ++ [d], rest) := by
  induction x with
  | nil => simp [flatUntil]
  | cons b x ih =>
    have hb : b ≠ d := fun e => h (by simp [e])
    have hx : d ∉ x := fun e => h (by simp [e])
    simp [flatUntil, hb, ih hx]

namespace Socks

theorem runFlat_readLenString (d rest : Bytes) (w : W) (hl : d.length < 256) (hu : utf8Valid d = true) :
    runFlat readLenString (d.length :: (d ++ rest)) w = (.ok d, rest, w) := by
  simp [readLenString, runFlat_bind, runFlat_exact, hu]

theorem runFlat_readNulString (d rest : Bytes) (w : W) (h0 : 0 ∉ d) (hu : utf8Valid d = true) :
    runFlat readNulString (d ++ 0 :: rest) w = (.ok d, rest, w) := by
  simp [readNulString, runFlat, flatUntil_delim 0 d rest h0, hu]

end Socks
end Redproxy
