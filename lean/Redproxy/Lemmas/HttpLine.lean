import Redproxy.Model.Http
/-! `str::trim_end` on a CRLF-terminated line (helper lemmas for C03's line framing theorems). -/
namespace Redproxy.HttpLine
open Redproxy

/-- no White_Space encoding ends in a printable ASCII byte -/
theorem no_ws_suffix (b : Nat) (t : Bytes) (hb : 0x20 < b ∧ b < 0x80) :
    wsRev.findSome? (fun p => stripPrefix? p (b :: t)) = none := by
  rw [List.findSome?_eq_none_iff]
  intro p hp
  simp only [wsRev, List.mem_cons, List.not_mem_nil, or_false] at hp
  rcases hp with rfl|rfl|rfl|rfl|rfl|rfl|rfl|rfl|rfl|rfl|rfl|rfl|rfl|rfl|rfl|rfl|rfl|rfl|rfl|rfl|rfl|rfl|rfl|rfl|rfl <;>
    simp [stripPrefix?, List.isPrefixOf] <;> omega

theorem trimRev_printable (fuel b : Nat) (t : Bytes) (hb : 0x20 < b ∧ b < 0x80) : trimRev fuel (b :: t) = b :: t := by
  cases fuel with
  | zero => rfl
  | succ f => simp [trimRev, no_ws_suffix b t hb]

/-- `trim_end` removes exactly the CRLF from a line whose content ends in a printable ASCII byte -/
theorem trimEnd_crlf (x : Bytes) (b : Nat) (hb : 0x20 < b ∧ b < 0x80) :
    trimEnd (x ++ [b] ++ [13, 10]) = x ++ [b] := by
  have h1 : ∀ t : Bytes, wsRev.findSome? (fun p => stripPrefix? p (10 :: t)) = some t := by
    intro t; simp [wsRev, List.findSome?, stripPrefix?, List.isPrefixOf]
  have h2 : ∀ t : Bytes, wsRev.findSome? (fun p => stripPrefix? p (13 :: t)) = some t := by
    intro t; simp [wsRev, List.findSome?, stripPrefix?, List.isPrefixOf]
  unfold trimEnd
  have hr : (x ++ [b] ++ [13, 10]).reverse = 10 :: 13 :: b :: x.reverse := by simp
  have hl : (x ++ [b] ++ [13, 10]).length = (x.length + 1) + 1 + 1 := by simp
  rw [hr, hl]
  simp only [trimRev, h1, h2, no_ws_suffix b _ hb]
  simp

/-- the blank line that ends a head -/
theorem trimEnd_blank : trimEnd [13, 10] = [] := by decide

end Redproxy.HttpLine

namespace Redproxy.HttpLine
open Redproxy

/-- `split_once(": ")` finds the first separator: a key without a colon is recovered exactly -/
theorem splitOnce_key (a c : Nat) (k v : Bytes) (hk : a ∉ k) :
    splitOnce [a, c] (k ++ [a, c] ++ v) = some (k, v) := by
  induction k with
  | nil => simp [splitOnce, List.isPrefixOf]
  | cons b k ih =>
    have hb : b ≠ a := fun e => hk (by simp [e])
    have hk' : a ∉ k := fun e => hk (by simp [e])
    have := ih hk'
    simp only [List.append_assoc, List.cons_append, List.nil_append] at this ⊢
    simp [splitOnce, List.isPrefixOf, this]
    intro e; exact absurd e.symm hb

end Redproxy.HttpLine
