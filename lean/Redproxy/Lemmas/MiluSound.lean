import Redproxy.Model.MiluEval
/-! Helper lemmas for the type-soundness theorem of the scalar fragment of milu (Props/C08). -/
namespace Redproxy.MiluEval

/-- a runtime value inhabits a (non-`any`) type -/
def wt : Val → Ty → Bool
  | .int n, .int => inRange n
  | .bool _, .bool => true
  | .str _, .str => true
  | .target, .target => true
  | .source, .source => true
  | .request, .request => true
  | _, _ => false

/-- the outcome the property allows for an expression accepted with type `τ`: a value of type `τ`, or one of
    the inherently dynamic errors; never a panic, never a type error.  (`fuel` = the model ran out of fuel.) -/
def Good (r : R Val) (τ : Ty) : Prop :=
  match r with
  | .ok v => wt v τ = true
  | .err k => k.dynamic = true
  | .panic _ => False
  | .fuel => True

/-- the scalar fragment: literals, request attributes, unary / binary operators, conditionals, and the
    string / integer / CIDR functions — no `let`, arrays, tuples, indexing or membership -/
def scalar : Expr → Bool
  | .int n => inRange n
  | .bool _ => true
  | .str _ => true
  | .un _ a => scalar a
  | .bin _ a b => scalar a && scalar b
  | .ite c y n => scalar c && scalar y && scalar n
  | .access (.ident r) (.ident _) => r == "request".toList
  | .access (.access (.ident r) (.ident _)) (.ident _) => r == "request".toList
  | .call f [a] => (f == "to_string".toList || f == "to_integer".toList) && scalar a
  | .call f [a, b] => f == "cidr_match".toList && scalar a && scalar b
  | _ => false

theorem bind_ok {α β} {r : R α} {f : α → R β} {b : β} (h : (r >>= f) = .ok b) :
    ∃ a, r = .ok a ∧ f a = .ok b := by
  cases r <;> simp [bind] at h ⊢
  exact h

theorem good_err_dyn {k : EK} {τ} (h : k.dynamic = true) : Good (.err k : R Val) τ := h

theorem good_bind {r : R Val} {f : Val → R Val} {σ τ : Ty}
    (hr : Good r σ) (hf : ∀ v, wt v σ = true → Good (f v) τ) : Good (r >>= f) τ := by
  cases r with
  | ok v => simpa [bind] using hf v hr
  | err k => simpa [bind, Good] using hr
  | panic s => simp [Good] at hr
  | fuel => simp [bind, Good]

theorem wt_int {v} (h : wt v .int = true) : ∃ n, v = .int n ∧ inRange n = true := by
  cases v <;> simp [wt] at h
  exact ⟨_, rfl, h⟩
theorem wt_bool {v} (h : wt v .bool = true) : ∃ b, v = .bool b := by
  cases v <;> simp [wt] at h
  exact ⟨_, rfl⟩
theorem wt_str {v} (h : wt v .str = true) : ∃ s, v = .str s := by
  cases v <;> simp [wt] at h
  exact ⟨_, rfl⟩
theorem wt_any {v} : wt v .any = false := by cases v <;> rfl

/-- `t == d` in the sense of the checker, for a declared scalar type: `t` is `d` itself or `any` -/
theorem compat_int {t} (h : Ty.compat t .int = true) : t = .int ∨ t = .any := by
  cases t <;> simp [Ty.compat] at h ⊢
theorem compat_bool {t} (h : Ty.compat t .bool = true) : t = .bool ∨ t = .any := by
  cases t <;> simp [Ty.compat] at h ⊢
theorem compat_str {t} (h : Ty.compat t .str = true) : t = .str ∨ t = .any := by
  cases t <;> simp [Ty.compat] at h ⊢
theorem compat_bool' {t} (h : Ty.compat .bool t = true) : t = .bool ∨ t = .any := by
  cases t <;> simp [Ty.compat] at h ⊢

theorem inRange_iff (n : Int) : inRange n = true ↔ (-9223372036854775808 ≤ n ∧ n ≤ 9223372036854775807) := by
  unfold inRange i64min i64max
  simp only [Bool.and_eq_true, decide_eq_true_eq]

theorem good_int {n : Int} (h : inRange n = true) : Good (.ok (.int n)) .int := by
  simpa [Good, wt] using h

theorem chk_good (n : Int) (k : EK) (hk : k.dynamic = true) : Good (chk n k) .int := by
  unfold chk
  split
  · exact good_int (by assumption)
  · exact hk

theorem toInt_inRange (b : BitVec 64) : inRange b.toInt = true := by
  have h1 : b.toInt < 2 ^ 63 := BitVec.toInt_lt (x := b)
  have h2 : -2 ^ 63 ≤ b.toInt := BitVec.le_toInt b
  have e : (2 : Int) ^ 63 = 9223372036854775808 := by decide
  rw [e] at h1 h2
  rw [inRange_iff]
  omega

theorem tmod_inRange (a b : Int) (ha : inRange a = true) : inRange (Int.tmod a b) = true := by
  rw [inRange_iff] at *
  have h1 : (Int.tmod a b).natAbs ≤ a.natAbs := by
    rw [Int.natAbs_tmod]
    exact Nat.mod_le _ _
  by_cases h : 0 ≤ a
  · have := Int.tmod_nonneg b h
    omega
  · have h3 : 0 ≤ (-a).tmod b := Int.tmod_nonneg b (by omega)
    rw [Int.neg_tmod] at h3
    omega

/-- every arithmetic / bit / shift operator on two i64 values yields an i64 value or a dynamic error -/
theorem arith_good (op : BinOp) (a b : Int) (hk : op.kind = .arith) (ha : inRange a = true) :
    Good (arith op a b) .int := by
  cases op <;> simp [BinOp.kind] at hk <;> simp only [arith]
  · exact chk_good _ _ rfl
  · exact chk_good _ _ rfl
  · exact chk_good _ _ rfl
  · split
    · exact good_err_dyn rfl
    · exact chk_good _ _ rfl
  · split
    · exact good_err_dyn rfl
    · split
      · exact good_err_dyn rfl
      · exact good_int (tmod_inRange a b ha)
  · exact good_int (toInt_inRange _)
  · exact good_int (toInt_inRange _)
  · exact good_int (toInt_inRange _)
  · split
    · exact good_int (toInt_inRange _)
    · exact good_err_dyn rfl
  · split
    · exact good_int (toInt_inRange _)
    · exact good_err_dyn rfl
  · split
    · exact good_int (toInt_inRange _)
    · exact good_err_dyn rfl

end Redproxy.MiluEval

namespace Redproxy.MiluEval

/-- the types the scalar fragment can have -/
def simple : Ty → Bool
  | .int | .bool | .str | .target | .source | .request => true
  | _ => false

theorem compat_simple {a b : Ty} (ha : simple a = true) (hb : simple b = true) (h : Ty.compat a b = true) : a = b := by
  cases a <;> simp [simple] at ha <;> cases b <;> simp [simple] at hb <;> simp [Ty.compat] at h <;> rfl

theorem wt_simple_ne_any {τ : Ty} (h : simple τ = true) : τ ≠ .any := by
  intro e; subst e; simp [simple] at h

theorem lookup_request : lookup "request".toList [] = .ok .request := by
  simp [lookup]

theorem binSig_simple (op : BinOp) (ta tb τ : Ty) (h : binSig op ta tb = .ok τ) : simple τ = true := by
  unfold binSig at h
  cases hk : op.kind <;> rw [hk] at h <;> simp only at h <;>
    (repeat' split at h) <;> first | (injection h with h; subst h; rfl) | (simp at h)

end Redproxy.MiluEval
