import Redproxy.Model.Lb
/-!
  C17 — load-balancer selection laws.
-/
namespace Redproxy.Props.C17
open Redproxy.Lb

/-- every algorithm only ever selects a member index `< n` -/
theorem only_members (idx n draw : Nat) (h : α → Nat) (key : α) (hn : 0 < n) :
    (rrStep idx n).1 < n ∧ hashPick h key n < n ∧ randomPick draw n < n :=
  ⟨Nat.mod_lt _ hn, Nat.mod_lt _ hn, Nat.mod_lt _ hn⟩

/-- as long as the counter does not wrap, round robin hands out `c % n, (c+1) % n, …` -/
theorem rrSeq_eq (c n k : Nat) (h : c + k ≤ W) : rrSeq c n k = (List.range k).map (fun j => (c + j) % n) := by
  induction k generalizing c with
  | zero => simp [rrSeq]
  | succ k ih =>
    have hc : (c + 1) % W = c + 1 ∨ k = 0 := by
      by_cases hk : k = 0
      · exact Or.inr hk
      · left; apply Nat.mod_eq_of_lt; omega
    rw [List.range_succ_eq_map]
    simp only [rrSeq, rrStep, List.map_cons, Nat.add_zero, List.map_map]
    congr 1
    rcases hc with hc | hk
    · rw [hc, ih (c + 1) (by omega)]
      apply List.map_congr_left
      intro j _
      simp only [Function.comp]
      congr 1; omega
    · subst hk; simp [rrSeq]

/-- in `n` consecutive counter values every member index occurs exactly once -/
theorem count_period (n c m : Nat) (hm : m < n) :
    ((List.range n).map (fun j => (c + j) % n)).count m = 1 := by
  induction c with
  | zero =>
    have : (List.range n).map (fun j => (0 + j) % n) = List.range n := by
      apply List.ext_getElem <;> simp
      intro i h1
      exact Nat.mod_eq_of_lt h1
    rw [this, List.count_range]; simp [hm]
  | succ c ih =>
    let g : Nat → Nat := fun j => (c + j) % n
    have e1 : (List.range (n + 1)).map g = g 0 :: (List.range n).map (fun j => g (j + 1)) := by
      rw [List.range_succ_eq_map]; simp [List.map_map, Function.comp_def]
    have e2 : (List.range (n + 1)).map g = (List.range n).map g ++ [g n] := by
      rw [List.range_succ]; simp
    have hg : g n = g 0 := by simp [g]
    have h := congrArg (List.count m) (e1.symm.trans e2)
    simp only [List.count_cons, List.count_append, List.count_nil, hg] at h
    have e3 : (List.range n).map (fun j => (c + 1 + j) % n) = (List.range n).map (fun j => g (j + 1)) := by
      apply List.map_congr_left; intro j _; simp [g]; congr 1; omega
    rw [e3]
    have : ((List.range n).map g).count m = 1 := ih
    omega

theorem count_window (n c m k : Nat) (hm : m < n) :
    ((List.range (k * n)).map (fun j => (c + j) % n)).count m = k := by
  induction k with
  | zero => simp
  | succ k ih =>
    have : List.range ((k + 1) * n) = List.range (k * n) ++ (List.range n).map (fun j => k * n + j) := by
      rw [Nat.succ_mul, List.range_add]
    rw [this, List.map_append, List.count_append, ih, List.map_map]
    have e : (List.range n).map ((fun j => (c + j) % n) ∘ fun j => k * n + j) = (List.range n).map (fun j => (c + j) % n) := by
      apply List.map_congr_left
      intro j _
      simp only [Function.comp]
      rw [show c + (k * n + j) = (c + j) + n * k by rw [Nat.mul_comm]; omega, Nat.add_mul_mod_self_left]
    rw [e, count_period n c m hm]

/-- **round-robin fairness**: in ANY window of `k*n` consecutive selections (starting at any counter value `c`,
    as long as the window does not cross the 2^64 wrap) each of the `n` members is selected exactly `k` times -/
theorem rr_fair (n c m k : Nat) (hm : m < n) (hw : c + k * n ≤ W) : (rrSeq c n (k * n)).count m = k := by
  rw [rrSeq_eq c n (k * n) hw]
  exact count_window n c m k hm

/-- the wrap caveat, stated: across the wrap the sequence continues with `0 % n`, which continues the cycle
    only when `n` divides 2^64 (after 2^64 selections; unreachable in practice) -/
theorem rr_wrap (n : Nat) : rrSeq (W - 1) n 2 = [(W - 1) % n, 0 % n] := by
  simp [rrSeq, rrStep, W]

/-- **concurrency**: whatever the interleaving of the tasks' `fetch_add` calls, the values handed out in
    execution order are the consecutive counter values — exactly those of the sequential run; the interleaving
    only decides which task gets which value -/
theorem rr_concurrent (c : Nat) (sched : List Nat) (h : c + sched.length ≤ W) :
    (runFetch c sched).1.map (·.2) = (List.range sched.length).map (fun j => c + j) ∧
    (runFetch c sched).1.map (·.1) = sched := by
  induction sched generalizing c with
  | nil => simp [runFetch]
  | cons t rest ih =>
    simp only [runFetch, List.length_cons]
    have hc : (c + 1) % W = c + 1 ∨ rest = [] := by
      cases rest with
      | nil => exact Or.inr rfl
      | cons a b => left; apply Nat.mod_eq_of_lt; simp at h; omega
    rcases hc with hc | hr
    · rw [hc]
      obtain ⟨h1, h2⟩ := ih (c + 1) (by simp at h; omega)
      refine ⟨?_, by simp [h2]⟩
      rw [List.range_succ_eq_map]
      simp only [List.map_cons, h1, Nat.add_zero, List.map_map]
      congr 1
      apply List.map_congr_left
      intro j _
      simp only [Function.comp]; omega
    · subst hr; simp [runFetch]

/-- hence under any interleaving of `k*n` selections each member is still selected exactly `k` times -/
theorem rr_concurrent_fair (n c m k : Nat) (sched : List Nat) (hm : m < n) (hl : sched.length = k * n) (hw : c + k * n ≤ W) :
    (((runFetch c sched).1.map (·.2)).map (· % n)).count m = k := by
  rw [(rr_concurrent c sched (by omega)).1, hl, List.map_map]
  exact count_window n c m k hm

/-- **hash-by is sticky**: requests whose key evaluates to the same value get the same member, for every hash
    function and every member count -/
theorem hash_sticky (h : α → Nat) (k1 k2 : α) (n : Nat) (heq : k1 = k2) : hashPick h k1 n = hashPick h k2 n := by
  rw [heq]

/-- **random reaches every member**: each member index is the pick of some draw (the frequency itself is
    statistical and is sampled by the correspondence run, not proved) -/
theorem random_surjective (n m : Nat) (hm : m < n) : ∃ draw, randomPick draw n = m :=
  ⟨m, Nat.mod_eq_of_lt hm⟩

/-! ### non-vacuity -/
example : rrSeq 0 3 7 = [0, 1, 2, 0, 1, 2, 0] := by decide
example : (rrSeq 5 3 6).count 0 = 2 ∧ (rrSeq 5 3 6).count 1 = 2 ∧ (rrSeq 5 3 6).count 2 = 2 := by decide
example : (runFetch 10 [7, 8, 7, 9]).1 = [(7, 10), (8, 11), (7, 12), (9, 13)] := by decide

/-! ### several balancers in one process -/

/-- whatever the interleaving of requests over any number of balancers: what balancer `b` selects is exactly its own
    round-robin sequence, as if it were alone -/
theorem balancers_independent (sizes ctr : Nat → Nat) (sched : List Nat) (b : Nat) :
    ((multiRr sizes ctr sched).filter (fun p => p.1 == b)).map (·.2) =
      rrSeq (ctr b) (sizes b) (sched.count b) := by
  induction sched generalizing ctr with
  | nil => simp [multiRr, rrSeq]
  | cons x rest ih =>
    simp only [multiRr]
    by_cases hx : x = b
    · subst hx
      simp only [List.filter_cons, beq_self_eq_true, ↓reduceIte, List.map_cons, List.count_cons_self, rrSeq]
      rw [ih]
      simp
    · have hb : (x == b) = false := by simpa using hx
      simp only [List.filter_cons, hb, Bool.false_eq_true, ↓reduceIte]
      rw [ih]
      have hne : b ≠ x := fun e => hx e.symm
      simp [hne, List.count_cons, hb]

/-- hence every balancer is fair by itself under every interleaving (no wrap-around within the window) -/
theorem balancers_fair (sizes ctr : Nat → Nat) (sched : List Nat) (b m k : Nat) (hm : m < sizes b)
    (hk : sched.count b = k * sizes b) (hw : ctr b + k * sizes b ≤ W) :
    (((multiRr sizes ctr sched).filter (fun p => p.1 == b)).map (·.2)).count m = k := by
  rw [balancers_independent, hk]
  exact rr_fair (sizes b) (ctr b) m k hm hw

/-- one cursor shared by two balancers used alternately (seeded change C17c): balancer 0 always picks the same member -/
theorem shared_cursor_starves : sharedRr (fun _ => 2) 0 [0, 1, 0, 1, 0, 1] = [(0, 0), (1, 1), (0, 0), (1, 1), (0, 0), (1, 1)] := by
  decide

example : multiRr (fun _ => 2) (fun _ => 0) [0, 1, 0, 1, 0, 1] = [(0, 0), (1, 0), (0, 1), (1, 1), (0, 0), (1, 0)] := by decide

end Redproxy.Props.C17
