import Redproxy.Model.Reply
import Redproxy.Props.C03
/-!
  C06 — the client is told "established" iff the upstream is; every failure gets one complete reply.

  `Route.process` is the effect trace of `process_request` (C02); `Reply.clientSees` folds the callbacks over it.
  All statements hold for every rule list, request, connector table, upstream behaviour (`connectOk`, `relayOk`)
  and error text.
-/
namespace Redproxy.Props.C06
open Redproxy Redproxy.Reply Redproxy.Route Redproxy.Socks Redproxy.MiluEval

variable (x : Ext) (q : Req) (fuel : Nat) (conns : List Conn) (rules : List CRule)
variable (connectOk : MiluEval.Str → Bool) (relayOk : Bool)

/-- the three shapes of the effect trace -/
theorem process_shapes :
    process x q fuel conns rules connectOk relayOk = [.onError] ∨
    (∃ c, connectOk c = false ∧ process x q fuel conns rules connectOk relayOk = [.setConnecting c, .connect c, .onError]) ∨
    (∃ c, connectOk c = true ∧ route x q fuel conns rules = .connect c ∧
      process x q fuel conns rules connectOk relayOk =
        [.setConnecting c, .connect c, .onConnect, .relay] ++ (if relayOk then [.terminated, .onFinish] else [.onError])) := by
  unfold process
  split
  · exact Or.inl rfl
  · rename_i c hc
    by_cases h : connectOk c = true
    · simp only [h, if_true]; exact Or.inr (Or.inr ⟨c, h, hc, rfl⟩)
    · have h' : connectOk c = false := by simpa using h
      simp only [h', Bool.false_eq_true, if_false]; exact Or.inr (Or.inl ⟨c, h', rfl⟩)

/-- what the client receives, by outcome: exactly the failure reply, or exactly the success reply (and whatever
    the success reply left unflushed is flushed when the relay starts) — never both, never neither -/
theorem client_sees_one_reply (p : Proto) (target : Addr) (msg : Bytes) :
    (clientSees p target msg (process x q fuel conns rules connectOk relayOk) =
        (runFlat (failureReply p msg) [] {}).2.2.flushed ∧
      ¬ ∃ c, route x q fuel conns rules = .connect c ∧ connectOk c = true) ∨
    (clientSees p target msg (process x q fuel conns rules connectOk relayOk) =
        (runFlat (successReply p target) [] {}).2.2.flushed ++ (runFlat (successReply p target) [] {}).2.2.pending ∧
      ∃ c, route x q fuel conns rules = .connect c ∧ connectOk c = true) := by
  rcases process_shapes x q fuel conns rules connectOk relayOk with h | ⟨c, hc, h⟩ | ⟨c, hc, hr, h⟩
  · left
    refine ⟨by rw [h]; simp [clientSees, applyEff, runReply], ?_⟩
    rintro ⟨c, hr, hok⟩
    have : process x q fuel conns rules connectOk relayOk ≠ [.onError] := by
      unfold process; rw [hr]; simp [hok]
    exact this h
  · left
    refine ⟨by rw [h]; simp [clientSees, applyEff, runReply], ?_⟩
    rintro ⟨c', hr, hok⟩
    have : process x q fuel conns rules connectOk relayOk ≠ [.setConnecting c, .connect c, .onError] := by
      unfold process; rw [hr]; simp [hok]
    exact this h
  · right
    refine ⟨?_, c, hr, hc⟩
    rw [h]
    cases relayOk <;> simp [clientSees, applyEff, runReply]

/-- **established iff upstream is**: the success reply is sent exactly when some upstream connection was opened
    and succeeded, and it is written after that (`onConnect` follows `connect c` in the trace) -/
theorem established_iff_upstream :
    Eff.onConnect ∈ process x q fuel conns rules connectOk relayOk ↔
      ∃ c, route x q fuel conns rules = .connect c ∧ connectOk c = true := by
  rcases process_shapes x q fuel conns rules connectOk relayOk with h | ⟨c, hc, h⟩ | ⟨c, hc, hr, h⟩
  · rw [h]; simp
    intro c hr
    cases hok : connectOk c
    · rfl
    · have : process x q fuel conns rules connectOk relayOk ≠ [.onError] := by unfold process; rw [hr]; simp [hok]
      exact absurd h this
  · rw [h]; simp
    intro c' hr
    cases hok : connectOk c'
    · rfl
    · have : process x q fuel conns rules connectOk relayOk ≠ [.setConnecting c, .connect c, .onError] := by
        unfold process; rw [hr]; simp [hok]
      exact absurd h this
  · rw [h]; simp; exact ⟨c, hr, hc⟩

theorem established_after_connect (c : MiluEval.Str) (pre post : List Eff)
    (h : process x q fuel conns rules connectOk relayOk = pre ++ Eff.onConnect :: post) :
    ∃ c, Eff.connect c ∈ pre := by
  rcases process_shapes x q fuel conns rules connectOk relayOk with h1 | ⟨c1, _, h1⟩ | ⟨c1, _, _, h1⟩
  · rw [h1] at h
    have : Eff.onConnect ∈ [Eff.onError] := by rw [h]; simp
    simp at this
  · rw [h1] at h
    have : Eff.onConnect ∈ [Eff.setConnecting c1, Eff.connect c1, Eff.onError] := by rw [h]; simp
    simp at this
  · have _ := c
    rw [h1] at h
    refine ⟨c1, ?_⟩
    -- `onConnect` is the third element, so `pre` starts with the first two
    match pre, h with
    | [], h => simp at h
    | [_], h => simp at h
    | [_, _], h => simp at h; simp [h.2.1]
    | a :: b :: d :: rest, h =>
      simp only [List.cons_append, List.cons.injEq] at h
      simp [← h.2.1]

/-! ### the replies themselves -/
def crlfB : Bytes := [13, 10]

/-- HTTP success: exactly `HTTP/1.1 200 Connection established` + blank line, all flushed -/
theorem http_ok_bytes :
    (runFlat httpOk [] {}).2.2 = { flushed := strB "HTTP/1.1" ++ [0x20] ++ showNat 200 ++ [0x20] ++ strB "Connection established" ++ crlfB ++ crlfB, pending := [] } := by
  simp [httpOk, Http.writeResponse, Http.headerLines, runFlat, Rd.wr, Rd.fl, bind, Rd.bind, pure, crlfB, Http.crlf]

/-- **HTTP failure is complete**: status line, the two headers, a blank line, then the body; the advertised
    `Content-Length` is the decimal length of exactly the body that follows, and every byte is flushed before the
    stream is dropped — for EVERY error text -/
theorem http_fail_complete (msg : Bytes) :
    (runFlat (httpFail msg) [] {}).2.2 =
      { flushed := strB "HTTP/1.1" ++ [0x20] ++ showNat 503 ++ [0x20] ++ strB "Service unavailable" ++ crlfB ++
          (strB "Content-Type" ++ Http.colonSp ++ strB "text/plain" ++ crlfB) ++
          (strB "Content-Length" ++ Http.colonSp ++ showNat msg.length ++ crlfB) ++ crlfB ++ msg,
        pending := [] } := by
  simp [httpFail, Http.writeResponseBody, Http.writeResponse, Http.headerLines, runFlat, Rd.wr, Rd.fl, bind, Rd.bind, pure,
    crlfB, Http.crlf, List.append_assoc]

/-- SOCKS5 failure: the ten bytes `05 01 00 01 0.0.0.0 0`; SOCKS4 failure: the eight bytes `00 5B 0 0.0.0.0` -/
theorem socks_fail_bytes (msg : Bytes) :
    (runFlat (failureReply .socks5 msg) [] {}).2.2 = { flushed := [5, 1, 0, 1, 0, 0, 0, 0, 0, 0], pending := [] } ∧
    (runFlat (failureReply .socks4 msg) [] {}).2.2 = { flushed := [0, 91, 0, 0, 0, 0, 0, 0], pending := [] } := by
  constructor <;>
    simp [failureReply, writeResponse, runFlat, Rd.wr, Rd.fl, bind, Rd.bind, be16Bytes, Addr.ip4Octets]

/-- SOCKS success replies: `05 00 00` + the address, `00 5A` + port + address; complete and flushed for every
    IPv4 / domain target (SOCKS4 cannot carry an IPv6 address: see `socks4_v6_truncated`) -/
theorem socks_ok_bytes (ip p : Nat) (d : Bytes) :
    (runFlat (successReply .socks5 (.v4 ip p)) [] {}).2.2 = { flushed := [5, 0, 0, 1] ++ Addr.ip4Octets ip ++ be16Bytes p, pending := [] } ∧
    (runFlat (successReply .socks5 (.domain d p)) [] {}).2.2 = { flushed := [5, 0, 0, 3] ++ (d.length % 256 :: d) ++ be16Bytes p, pending := [] } ∧
    (runFlat (successReply .socks4 (.v4 ip p)) [] {}).2.2 = { flushed := [0, 90] ++ be16Bytes p ++ Addr.ip4Octets ip, pending := [] } ∧
    (runFlat (successReply .socks4 (.domain d p)) [] {}).2.2 = { flushed := [0, 90] ++ be16Bytes p ++ [0, 0, 0, 1], pending := [] } := by
  refine ⟨?_, ?_, ?_, ?_⟩ <;>
    simp [successReply, writeResponse, runFlat, Rd.wr, Rd.fl, bind, Rd.bind, List.append_assoc]

/-- the cooperating-sites hazard, stated: if a SOCKS4 success reply were ever asked to carry an IPv6 address the
    writer leaves `00 5A` pending and fails; the relay's `drain_buffers` would then flush a 2-byte fragment in front
    of tunnel payload.  Today `on_connect` echoes the request's target, which for a SOCKS4 client is never IPv6. -/
theorem socks4_v6_truncated (ip : Bytes) (p : Nat) :
    (runFlat (successReply .socks4 (.v6 ip p)) [] {}).2.2 = { flushed := [], pending := [0, 90] } := by
  simp [successReply, writeResponse, runFlat, Rd.wr, Rd.fl, bind, Rd.bind, Rd.failWith]

/-- a refused request (C02: deny, no rule, unsupported feature) gets exactly the failure reply of its protocol -/
theorem refused_gets_failure (p : Proto) (target : Addr) (msg : Bytes)
    (h : ∀ c, route x q fuel conns rules ≠ .connect c) :
    clientSees p target msg (process x q fuel conns rules connectOk relayOk) = (runFlat (failureReply p msg) [] {}).2.2.flushed := by
  rcases client_sees_one_reply x q fuel conns rules connectOk relayOk p target msg with ⟨h1, _⟩ | ⟨_, c, hc, _⟩
  · exact h1
  · exact absurd hc (h c)

/-! ## across two hops: what an HTTP listener's `on_connect` writes is what an HTTP connector's `h11c_connect` accepts -/

def okResp : Http.Resp :=
  { version := strB "HTTP/1.1", code := 200, status := strB "Connection established", headers := [] }

theorem okResp_ok : C03.RespOk okResp := by
  refine ⟨by decide +kernel, by decide +kernel, by decide +kernel, by decide +kernel, by decide +kernel,
    ⟨strB "Connection establishe", 100, by decide +kernel, by decide⟩, by decide +kernel, ?_⟩
  intro kv hkv
  simp [okResp] at hkv

/-- the success reply reaches the next hop's connector as success — and the first tunnel bytes sent right behind it
(`rest`, any bytes) are handed to the tunnel intact: "established" is told consistently along a chain of proxies -/
theorem http_ok_accepted_downstream (tbl : V6Tbl) (t : Addr) (ch bs : Bytes) (req : Http.Req) (rest : Bytes) (w : W)
    (fuel : Nat) (hreq : Http.connectRequest tbl t .tcp ch bs = some req) (hf : 0 < fuel) :
    (runFlat httpOk [] {}).2.2 = { flushed := C03.respBytes okResp, pending := [] } ∧
    (runFlat (Http.connectExchange tbl t .tcp ch bs fuel) (C03.respBytes okResp ++ rest) w).1 = .ok none ∧
    (runFlat (Http.connectExchange tbl t .tcp ch bs fuel) (C03.respBytes okResp ++ rest) w).2.1 = rest := by
  have h := C03.connect_exchange_verdict tbl t ch bs req okResp rest w fuel hreq okResp_ok (by simpa [okResp] using hf)
  refine ⟨?_, ?_, h.2⟩
  · have := C03.writeResponse_writes okResp [] {}
    simpa [httpOk, okResp] using congrArg (fun x => x.2.2) this
  · have hc : okResp.code = 200 := rfl
    simpa [hc] using h.1

end Redproxy.Props.C06
