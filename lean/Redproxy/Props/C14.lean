import Redproxy.Model.Locks
import Redproxy.Gen.LockSites
/-!
  C14 — the management API never blocks the data plane; a stalled client hurts only itself (lock discipline).

  * `Gen.lockSites` is regenerated from /repo's source on every run: every place where a guard of the registry lock,
    a connection's lock or the rule list's lock stays alive across an `.await`, with the awaits classified.
    `no_lock_across_external_wait` closes by kernel evaluation over that table.
  * The theorems below are about ANY set of tasks whose programs respect the discipline (`wellLocked`).
-/
namespace Redproxy.Props.C14
open Redproxy.Locks

/-- side condition on the code, re-checked against the regenerated table: while a guard of `alive`, `terminated`,
    a connection or the rule list is held, the code never awaits a peer or a timer (only other locks, in-memory work,
    or a listener callback that writes one short reply) -/
def NoLockAcrossExternalWait (sites : List (String × String × String × String × List (String × Gen.AwaitClass))) : Bool :=
  sites.all (fun s => s.2.2.1 == "other" || s.2.2.2.2.all (fun a => a.2 != Gen.AwaitClass.external))

theorem no_lock_across_external_wait : NoLockAcrossExternalWait Gen.lockSites = true := by decide

/-- the registry's guards (`alive`, `terminated`) are never held while waiting for a connection's RwLock -/
def RegistryNotAcrossCtx (sites : List (String × String × String × String × List (String × Gen.AwaitClass))) : Bool :=
  sites.all (fun s => !(s.2.2.1 == "alive" || s.2.2.1 == "terminated") ||
    s.2.2.2.2.all (fun a => a.2 != Gen.AwaitClass.ctxlock))

theorem registry_not_held_across_connection_locks : RegistryNotAcrossCtx Gen.lockSites = true := by decide

/-- nothing is awaited while the rule list's guard is held except in-memory work (it is the innermost lock) -/
def RulesInnermost (sites : List (String × String × String × String × List (String × Gen.AwaitClass))) : Bool :=
  sites.all (fun s => s.2.2.1 != "rules" || s.2.2.2.2.all (fun a => a.2 == Gen.AwaitClass.local))

theorem rules_lock_is_innermost : RulesInnermost Gen.lockSites = true := by decide

/-- a connection's guard is never held while that task waits for a connection's lock again (directly, or through the
    `ContextRefOps` methods `on_error` / `on_connect` / `on_finish` / `enqueue`, which take the lock themselves): tokio's
    RwLock is not re-entrant, the task would wait for itself -/
def CtxNotAcrossCtx (sites : List (String × String × String × String × List (String × Gen.AwaitClass))) : Bool :=
  sites.all (fun s => s.2.2.1 != "ctx" || s.2.2.2.2.all (fun a => a.2 != Gen.AwaitClass.ctxlock))

theorem connection_lock_not_reentered : CtxNotAcrossCtx Gen.lockSites = true := by decide

/-- guards of every OTHER async lock in the source (credential cache, connector-wide state, socket tables): none is held
    across a wait for a peer, an external process or a timer, except at the two listed sites — the QUIC connector keeps
    its connection slot while it dials the shared connection (bounded by HANDSHAKE_TIMEOUT; the requests behind it need
    that very connection), and the tproxy writer holds its socket table across one `send_to` on a UDP socket -/
def OtherLocksNotAcrossExternal (sites : List (String × String × String × String × List (String × Gen.AwaitClass))) : Bool :=
  sites.all (fun s => s.2.2.1 != "other" ||
    (s.1 == "src/connectors/quic.rs" && s.2.1 == "get_connection") ||
    (s.1 == "src/listeners/tproxy.rs" && s.2.1 == "write") ||
    s.2.2.2.2.all (fun a => a.2 != Gen.AwaitClass.external))

theorem other_locks_not_across_external_wait : OtherLocksNotAcrossExternal Gen.lockSites = true := by decide

/-- the table is not empty-handed: the guards everybody knows about are in it (a translator that stops seeing the
    collector's, the dispatcher's or the relay's guards proves nothing — this failed once, when `spawn(..)` arguments
    were masked globally and every guard inside a spawned task vanished) -/
def TableCovers (sites : List (String × String × String × String × List (String × Gen.AwaitClass))) : Bool :=
  [("src/context.rs", "gc_thread", "terminated"), ("src/context.rs", "gc_thread", "alive"),
   ("src/main.rs", "process_request", "ctx"), ("src/copy.rs", "copy_bidi", "ctx"),
   ("src/common/h11c.rs", "h11c_handshake_inner", "ctx"), ("src/context.rs", "on_error", "ctx"),
   ("src/connectors/quic.rs", "get_connection", "other")].all
    (fun k => sites.any (fun s => s.1 == k.1 && s.2.1 == k.2.1 && s.2.2.1 == k.2.2))

theorem lock_table_covers_known_sites : TableCovers Gen.lockSites = true := by decide

/-- the two registry locks nest in one order only: the history list `terminated` first, then `alive` (the collector's
    order) — nowhere is `alive` held while `terminated` is awaited -/
def RegistryOrder (sites : List (String × String × String × String × List (String × Gen.AwaitClass))) : Bool :=
  sites.all (fun s => s.2.2.1 != "alive" || s.2.2.2.2.all (fun a => a.2 != Gen.AwaitClass.lockTerminated))

theorem registry_locks_nest_in_one_order : RegistryOrder Gen.lockSites = true := by decide

/-! ### the discipline and what it gives, for every program and every state -/

private theorem wellLocked_held (held : List Nat) (p : Prog) (h : wellLocked held p = true) (k : Nat) :
    (p[k]? = some .ext → heldAfter held (p.take k) = []) ∧
    (∀ l, p[k]? = some (.acq l) → ∀ m ∈ heldAfter held (p.take k), rank m < rank l) ∧
    (p[k]? = none → heldAfter held (p.take k) = []) := by
  induction p generalizing held k with
  | nil =>
    simp only [wellLocked, List.isEmpty_iff] at h
    subst h
    simp [heldAfter]
  | cons a r ih =>
    cases k with
    | zero =>
      cases a with
      | acq l =>
        simp only [wellLocked, Bool.and_eq_true, List.all_eq_true, decide_eq_true_eq] at h
        refine ⟨by simp, ?_, by simp⟩
        intro l' hl m hm
        simp only [List.getElem?_cons_zero, Option.some.injEq, Act.acq.injEq] at hl
        subst hl
        simpa [heldAfter] using h.1 m (by simpa [heldAfter] using hm)
      | rel l => simp [heldAfter]
      | ext =>
        simp only [wellLocked, Bool.and_eq_true, List.isEmpty_iff] at h
        simp [heldAfter, h.1]
      | step => simp [heldAfter]
    | succ k =>
      cases a with
      | acq l =>
        simp only [wellLocked, Bool.and_eq_true] at h
        simpa [heldAfter] using ih (l :: held) h.2 k
      | rel l => simpa [heldAfter, wellLocked] using ih (held.erase l) (by simpa [wellLocked] using h) k
      | ext =>
        simp only [wellLocked, Bool.and_eq_true] at h
        simpa [heldAfter] using ih held h.2 k
      | step => simpa [heldAfter] using ih held (by simpa [wellLocked] using h) k

/-- **a task stalled in an external wait holds no lock** — wherever it stalls -/
theorem stalled_holds_nothing (t : Task) (h : wellLocked [] t.prog = true) (hs : t.next = some .ext) : t.held = [] :=
  (wellLocked_held [] t.prog h t.pc).1 hs

/-- **a stalled client blocks nobody**: no task, whatever it is waiting for, is blocked by a task that sits in an
    external wait (a client stalled at any point of its handshake, a tunnel waiting for a slow peer) -/
theorem stalled_blocks_nobody (t u : Task) (hu : wellLocked [] u.prog = true) (hs : u.next = some .ext) :
    blockedBy t u = false := by
  unfold blockedBy
  split
  · simp [stalled_holds_nothing u hu hs]
  · rfl

/-- a finished task holds nothing -/
theorem finished_holds_nothing (t : Task) (h : wellLocked [] t.prog = true) (hd : t.next = none) : t.held = [] :=
  (wellLocked_held [] t.prog h t.pc).2.2 hd

/-- **no deadlock among the others**: in any state in which no lock has two holders, if some task is blocked then
    some task that holds a lock is neither blocked, nor in an external wait, nor finished — it can take its next
    step.  (Proof: follow the wait-for chain; each holder that is itself blocked asks for a lock of strictly higher
    rank, and there are only four ranks.) -/
theorem blocked_implies_runnable_holder (sys : List Task) (hwl : ∀ t ∈ sys, wellLocked [] t.prog = true)
    (t : Task) (ht : t ∈ sys) (hb : blocked sys t = true) :
    ∃ u ∈ sys, u.held ≠ [] ∧ blocked sys u = false ∧ u.next ≠ some .ext ∧ u.next ≠ none := by
  have hr : ∀ l, rank l ≤ 3 := by intro l; unfold rank; split <;> (try split) <;> (try split) <;> omega
  -- follow the wait-for chain upwards in rank; it can climb at most three times
  have key : ∀ (n : Nat) (t : Task), t ∈ sys → blocked sys t = true → ∀ l, t.next = some (.acq l) → 3 < rank l + n →
      ∃ u ∈ sys, u.held ≠ [] ∧ blocked sys u = false ∧ u.next ≠ some .ext ∧ u.next ≠ none := by
    intro n
    induction n with
    | zero => intro t _ _ l _ hlt; have := hr l; omega
    | succ n ih =>
      intro t ht hb l hl hlt
      simp only [blocked, List.any_eq_true] at hb
      obtain ⟨u, hu, hbu⟩ := hb
      simp only [blockedBy, hl, List.contains_eq_mem, decide_eq_true_eq] at hbu
      have hheld : u.held ≠ [] := by intro e; rw [e] at hbu; simp at hbu
      by_cases hub : blocked sys u = true
      · cases hn : u.next with
        | none => exact absurd (finished_holds_nothing u (hwl u hu) hn) hheld
        | some a =>
          cases a with
          | acq l' =>
            have hgt : rank l < rank l' := (wellLocked_held [] u.prog (hwl u hu) u.pc).2.1 l' hn l hbu
            exact ih u hu hub l' hn (by omega)
          | rel l' => simp [blocked, blockedBy, hn] at hub
          | ext => simp [blocked, blockedBy, hn] at hub
          | step => simp [blocked, blockedBy, hn] at hub
      · refine ⟨u, hu, hheld, by simpa using hub, ?_, ?_⟩
        · intro he; exact hheld (stalled_holds_nothing u (hwl u hu) he)
        · intro hd; exact hheld (finished_holds_nothing u (hwl u hu) hd)
  simp only [blocked, List.any_eq_true] at hb
  obtain ⟨u, hu, hbu⟩ := hb
  cases hn : t.next with
  | none => simp [blockedBy, hn] at hbu
  | some a =>
    cases a with
    | acq l =>
      exact key 4 t ht (by simp only [blocked, List.any_eq_true]; exact ⟨u, hu, hbu⟩) l hn (by omega)
    | rel l => simp [blockedBy, hn] at hbu
    | ext => simp [blockedBy, hn] at hbu
    | step => simp [blockedBy, hn] at hbu

/-! ### the programs of the proxy's tasks (locks: 0 = registry `alive`, 1 = rule list, 2 = history list `terminated`, 3+i = connection i) -/
/-- a listener accepting connection i with the repaired handshake: register (registry lock), then read the request
    WITHOUT the connection's lock, then store the result under it -/
def handshakeProg (i : Nat) : Prog := [.acq 0, .step, .rel 0, .acq (3 + i), .step, .rel (3 + i), .ext, .acq (3 + i), .step, .rel (3 + i)]
/-- as it was at the pinned commit: the request was read while the connection's lock was held -/
def handshakeProgOld (i : Nat) : Prog := [.acq 0, .step, .rel 0, .acq (3 + i), .ext, .step, .rel (3 + i)]
/-- `GET /api/live` (repaired): copy the references under the registry lock, release it, then read each connection -/
def apiLiveProg (n : Nat) : Prog := [.acq 0, .step, .rel 0] ++ (List.range n).flatMap (fun i => [.acq (3 + i), .step, .rel (3 + i)])
/-- as it was: every connection was read while the registry lock was held -/
def apiLiveProgOld (n : Nat) : Prog := [.acq 0] ++ (List.range n).flatMap (fun i => [.acq (3 + i), .step, .rel (3 + i)]) ++ [.rel 0]
/-- routing and relaying connection i: rules under the read lock, then upstream connect and relay with no lock held -/
def requestProg (i : Nat) : Prog := [.acq (3 + i), .acq 1, .step, .rel 1, .rel (3 + i), .acq (3 + i), .step, .rel (3 + i), .ext, .acq (3 + i), .step, .rel (3 + i), .ext]
def reloadProg : Prog := [.step, .acq 1, .step, .rel 1]

theorem rank_ctx (i : Nat) : rank (3 + i) = 2 := by
  unfold rank
  have h0 : 3 + i ≠ 0 := by omega
  have h1 : 3 + i ≠ 1 := by omega
  have h2 : 3 + i ≠ 2 := by omega
  simp [h0, h1, h2]

/-- the collector's tick: the history list, then `alive` (moves the ended connections over) -/
def gcProg : Prog := [.step, .acq 2, .acq 0, .step, .rel 0, .rel 2]
/-- `GET /api/history`: the history list only; `GET /api/status`: no lock at all -/
def historyProg : Prog := [.acq 2, .step, .rel 2]
def statusProg : Prog := [.step]
/-- a status handler that reports the sizes of both registry collections in one expression (`alive` is still held
    while `terminated` is awaited): the shape seeded change C14c introduces -/
def statusProgCounting : Prog := [.acq 0, .acq 2, .step, .rel 2, .rel 0]

/-- the repaired programs respect the discipline (for every connection number) -/
theorem programs_well_locked (i n : Nat) :
    wellLocked [] (handshakeProg i) = true ∧ wellLocked [] (requestProg i) = true ∧ wellLocked [] reloadProg = true ∧
    wellLocked [] (apiLiveProg n) = true := by
  refine ⟨by simp [handshakeProg, wellLocked, rank_ctx, show rank 0 = 1 from rfl], by simp [requestProg, wellLocked, rank_ctx, show rank 1 = 3 from rfl], by decide, ?_⟩
  simp only [apiLiveProg]
  have : ∀ (k : Nat) (r : Prog), wellLocked [] r = true →
      wellLocked [] ((List.range' k n).flatMap (fun i => [Act.acq (3 + i), Act.step, Act.rel (3 + i)]) ++ r) = true := by
    induction n with
    | zero => intro k r h; simpa using h
    | succ n ih => intro k r h; simp [List.range'_succ, wellLocked, rank_ctx, ih (k + 1) r h]
  simpa [wellLocked, rank_ctx, show rank 0 = 1 from rfl, List.range_eq_range'] using this 0 [] rfl

/-- the pinned code did not: the old handshake waits for the client with the connection's lock held, and the old
    `/api/live` then waits for that lock with the registry held — after which no listener can register a connection
    (kernel-checked state: client 0 stalled, `/api/live` blocked by it, a new connection blocked by `/api/live`) -/
theorem old_programs_block :
    wellLocked [] (handshakeProgOld 0) = false ∧
    (let stalled : Task := { prog := handshakeProgOld 0, pc := 4 }
     let api : Task := { prog := apiLiveProgOld 1, pc := 1 }
     let fresh : Task := { prog := handshakeProgOld 1, pc := 0 }
     stalled.next = some .ext ∧ blockedBy api stalled = true ∧ blockedBy fresh api = true) := by decide

/-- the collector and the API handlers respect the discipline; a status handler that holds `alive` while it awaits
    `terminated` does not, and deadlocks with the collector (kernel-checked state: each holds what the other awaits) -/
theorem registry_programs :
    wellLocked [] gcProg = true ∧ wellLocked [] historyProg = true ∧ wellLocked [] statusProg = true ∧
    wellLocked [] statusProgCounting = false ∧
    blockedBy { prog := gcProg, pc := 2 } { prog := statusProgCounting, pc := 1 } = true ∧
    blockedBy { prog := statusProgCounting, pc := 1 } { prog := gcProg, pc := 2 } = true := by decide

/-- refusing a request for an unsupported feature while the connection's read guard is still alive (a temporary in an
    `if let` scrutinee — seeded change C06d): `on_error` asks for the same connection's lock again; tokio's RwLock is
    not re-entrant, the task waits for itself -/
def featureRefusalProgHolding (i : Nat) : Prog := [.acq (3 + i), .step, .acq (3 + i), .step, .rel (3 + i), .rel (3 + i)]

theorem reentry_is_self_deadlock :
    wellLocked [] (featureRefusalProgHolding 0) = false ∧
    blockedBy { prog := featureRefusalProgHolding 0, pc := 2 } { prog := featureRefusalProgHolding 0, pc := 2 } = true := by decide

/-! ### non-vacuity -/
example : blocked [{ prog := handshakeProg 0, pc := 6 }, { prog := apiLiveProg 1, pc := 3 }] { prog := apiLiveProg 1, pc := 3 } = false := by decide

end Redproxy.Props.C14
