import Redproxy.Props.C11
import Redproxy.Lemmas.PanicFree
import Redproxy.Model.Socks
import Redproxy.Model.Http
import Redproxy.Model.Frames
import Redproxy.Model.Accept
import Redproxy.Gen.AcceptSites
/-!
# C05 — no remote input can crash the proxy

Every decoder that touches peer bytes is a total function whose Rust panic sites (slice / `get_u16` /
index out of range, `unwrap`, shift overflow, `unreachable!`) are explicit `panic` results in the model.
The theorems say: for ALL input bytes, ALL segmentations and ALL prior histories, the result is never
`panic`.  (Resource exhaustion — `read_line`/`read_until` have no length cap — is outside the model.)
-/
namespace Redproxy.Props.C05
open Redproxy

syntax "pf" : tactic
macro_rules
  | `(tactic| pf) => `(tactic| repeat (first
      | exact PanicFree.u8 | exact PanicFree.u16 | exact PanicFree.u32 | exact PanicFree.exact _
      | exact PanicFree.wr _ | exact PanicFree.fl | exact PanicFree.failWith _
      | exact PanicFree.pure' _ | exact PanicFree.pure _ | exact PanicFree.fail _
      | apply PanicFree.bind | apply PanicFree.untilD | apply PanicFree.byteOpt | intro _ | split))

/-! ## SOCKS readers -/

theorem readLenString_pf : PanicFree Socks.readLenString := by unfold Socks.readLenString; pf
theorem readNulString_pf : PanicFree Socks.readNulString := by
  unfold Socks.readNulString
  apply PanicFree.untilD
  intro l
  split
  · dsimp only; split <;> pf
  · pf

theorem authV5Server_pf (m : Nat) : PanicFree (Socks.authV5Server m) := by
  unfold Socks.authV5Server
  split
  · pf
  · split
    · exact .bind .u8 fun _ => .bind readLenString_pf fun _ => .bind readLenString_pf fun _ =>
        .bind (.wr _) fun _ => .bind (.wr _) fun _ => .bind .fl fun _ => .pure' _
    · pf

theorem readTargetV5_pf (a : Nat) : PanicFree (Socks.readTargetV5 a) := by
  unfold Socks.readTargetV5
  split
  · pf
  · split
    · exact .bind readLenString_pf fun _ => .bind .u16 fun _ => .pure' _
    · split <;> pf

theorem readRequestV4_pf : PanicFree Socks.readRequestV4 := by
  unfold Socks.readRequestV4
  refine .bind .u8 fun _ => .bind .u16 fun _ => .bind .u32 fun _ => .bind readNulString_pf fun _ => ?_
  split
  · exact .bind readNulString_pf fun _ => .pure' _
  · exact .pure' _

theorem readRequestV5_pf (req : Bool) : PanicFree (Socks.readRequestV5 req) := by
  unfold Socks.readRequestV5
  refine .bind .u8 fun _ => .bind (.exact _) fun _ => ?_
  split
  · pf
  · refine .bind (.wr _) fun _ => .bind .fl fun _ => .bind (authV5Server_pf _) fun _ => .bind .u8 fun _ => ?_
    split
    · pf
    · exact .bind .u8 fun _ => .bind .u8 fun _ => .bind .u8 fun _ => .bind (readTargetV5_pf _) fun _ => .pure' _

/-- SOCKS request reader (v4, v4a, v5 with negotiation and RFC 1929): no panic for any bytes -/
theorem socks_request_no_panic (required : Bool) (s : SS) (w : W) :
    ∀ site, (runSeg (Socks.readRequest required) s w).1 ≠ Res.panic site := by
  apply PanicFree.runSeg
  unfold Socks.readRequest
  refine .bind .u8 fun _ => ?_
  split
  · exact readRequestV4_pf
  · split
    · exact readRequestV5_pf _
    · pf

/-- SOCKS reply reader (what an upstream SOCKS server sends our connector) -/
theorem socks_response_no_panic (s : SS) (w : W) :
    ∀ site, (runSeg Socks.readResponse s w).1 ≠ Res.panic site := by
  apply PanicFree.runSeg
  unfold Socks.readResponse
  refine .bind .u8 fun _ => ?_
  split
  · pf
  · split
    · exact .bind .u8 fun _ => .bind .u8 fun _ => .bind .u8 fun _ => .bind (readTargetV5_pf _) fun _ => .pure' _
    · pf

/-! ## HTTP readers, incl. the upstream's reply to our CONNECT (Session-Id) -/

theorem readLine_pf : PanicFree Http.readLine := by unfold Http.readLine; pf

theorem readHeaders_pf (fuel : Nat) (acc : List (Bytes × Bytes)) : PanicFree (Http.readHeaders fuel acc) := by
  induction fuel generalizing acc with
  | zero => unfold Http.readHeaders; pf
  | succ n ih =>
    unfold Http.readHeaders
    refine .bind readLine_pf fun _ => ?_
    dsimp only
    split
    · pf
    · split
      · pf
      · exact ih _

theorem http_request_pf (fuel : Nat) : PanicFree (Http.readRequest fuel) := by
  unfold Http.readRequest
  refine .bind readLine_pf fun _ => ?_
  dsimp only
  split
  · split
    · exact .bind (readHeaders_pf _ _) fun _ => .pure' _
    · pf
  · pf

theorem http_response_pf (fuel : Nat) : PanicFree (Http.readResponse fuel) := by
  unfold Http.readResponse
  refine .bind readLine_pf fun _ => ?_
  dsimp only
  split
  · split
    · split
      · pf
      · exact .bind (readHeaders_pf _ _) fun _ => .pure' _
    · pf
  · pf

theorem http_request_no_panic (fuel : Nat) (s : SS) (w : W) :
    ∀ site, (runSeg (Http.readRequest fuel) s w).1 ≠ Res.panic site :=
  (http_request_pf fuel).runSeg s w

theorem http_response_no_panic (fuel : Nat) (s : SS) (w : W) :
    ∀ site, (runSeg (Http.readResponse fuel) s w).1 ≠ Res.panic site :=
  (http_response_pf fuel).runSeg s w

theorem headerLines_pf (hs : List (Bytes × Bytes)) : PanicFree (Http.headerLines hs) := by
  induction hs with
  | nil => unfold Http.headerLines; pf
  | cons kv hs ih => obtain ⟨k, v⟩ := kv; unfold Http.headerLines; exact .bind (.wr _) fun _ => ih

/-- `h11c_connect`: whatever the upstream answers (any status line, any headers, any `Session-Id` text),
    for every target and feature: an error at worst, never a panic -/
theorem connect_exchange_no_panic (tbl : V6Tbl) (t : Addr) (f : Http.Feature) (ch src : Bytes) (fuel : Nat)
    (s : SS) (w : W) : ∀ site, (runSeg (Http.connectExchange tbl t f ch src fuel) s w).1 ≠ Res.panic site := by
  apply PanicFree.runSeg
  unfold Http.connectExchange
  split
  · pf
  · refine .bind ?_ fun _ => .bind (http_response_pf _) fun _ => ?_
    · unfold Http.writeRequest
      exact .bind (.wr _) fun _ => .bind (headerLines_pf _) fun _ => .bind (.wr _) fun _ => .fl
    · split
      · pf
      · split
        · pf
        · split <;> pf

/-! ## RPFM frames and the SOCKS5-UDP header: pure decoders -/

theorem decodeAddress_no_panic (buf : Bytes) : ∀ site, Frames.decodeAddress buf ≠ Res.panic site := by
  intro site
  unfold Frames.decodeAddress
  split
  · simp
  · simp
  · rename_i tag len rest
    by_cases h0 : len > rest.length
    · simp [h0]
    · simp only [h0, if_false]
      by_cases h3 : tag = 3
      · simp only [h3, if_true]
        by_cases h2 : len < 2
        · simp [h2]
        · simp only [h2, if_false]
          split
          · simp
          · have hl : 2 ≤ (rest.drop (len - 2)).length := by simp [List.length_drop]; omega
            split
            · simp
            · rename_i hne
              exfalso
              match hd : rest.drop (len - 2) with
              | [] => rw [hd] at hl; simp at hl
              | [_] => rw [hd] at hl; simp at hl
              | a :: b :: r => exact hne a b r hd
      · simp only [h3, if_false]
        by_cases h1 : tag = 1
        · simp only [h1, if_true]
          by_cases h6 : len ≠ 6
          · simp [h6]
          · simp only [h6, if_false]
            have hl : 6 ≤ rest.length := by omega
            match rest, hl with
            | a :: b :: c :: d :: e :: f :: r, _ => simp
        · simp only [h1, if_false]
          by_cases h2 : tag = 2
          · simp only [h2, if_true]
            by_cases h18 : len ≠ 18
            · simp [h18]
            · simp only [h18, if_false]
              have hl : 2 ≤ (rest.drop 16).length := by simp [List.length_drop]; omega
              match hd : rest.drop 16, hl with
              | a :: b :: r, _ => simp
          · simp [h2]

theorem fromBuffer_no_panic (buf : Bytes) : ∀ site, Frames.fromBuffer buf ≠ Res.panic site := by
  intro site
  unfold Frames.fromBuffer
  split
  · split
    · simp
    · dsimp only
      split
      · simp
      · split
        · simp
        · simp
        · rename_i h
          exact absurd h (decodeAddress_no_panic _ _)
  · simp

theorem readHead_no_panic (buf : Bytes) : ∀ site, Frames.readHead buf ≠ Res.panic site := by
  intro site
  unfold Frames.readHead
  split
  · split <;> simp
  · simp

/-- the stream frame reader: for every carry-over buffer, every wire, every fuel -/
theorem streamRead_no_panic (fuel : Nat) (rem : Bytes) (s : SS) :
    ∀ site, (Frames.streamRead fuel rem s).1 ≠ Res.panic site := by
  induction fuel generalizing rem s with
  | zero => intro site; simp [Frames.streamRead]
  | succ n ih =>
    intro site
    unfold Frames.streamRead
    split
    · simp
    · rename_i p h; exact absurd h (readHead_no_panic _ _)
    · simp only []
      split
      · split
        · simp
        · simp
        · rename_i p h; exact absurd h (fromBuffer_no_panic _ _)
      · split
        · simp
        · exact ih _ _ site

theorem decodeUdp_no_panic (body : Bytes) : ∀ site, Socks.decodeUdp body ≠ Res.panic site := by
  intro site
  unfold Socks.decodeUdp
  repeat' split
  all_goals first | (simp; done) | (dsimp only; repeat' split; all_goals simp) | (split <;> simp)

/-! ## QUIC datagrams: fragment reassembly followed by frame parsing -/

/-- any history of datagrams and timer calls: reassembly never panics (from C11) … -/
theorem fragments_no_panic (timeout : Nat) (ops : List C11.Op) :
    ∀ o ∈ C11.runOps timeout {} ops, ∀ s, o ≠ Fragment.Out.panic s :=
  C11.no_panic timeout ops

/-- … and whatever bytes a completed set holds, parsing them as a frame never panics -/
theorem reassembled_frame_no_panic (b : Bytes) : ∀ site, Frames.fromBuffer b ≠ Res.panic site :=
  fromBuffer_no_panic b

/-! ## non-vacuity: the inputs that crashed the unrepaired code are inside the quantifiers -/

/-- RPFM frame for `abc:53` (3-character host: attribute of 7 bytes) parses; it used to abort the process -/
example : Frames.fromBuffer ([0x52,0x50,0x46,0x4d, 0,0,0,1, 0,7, 0,1, 3,5,97,98,99,0,53, 0x78]) =
    .ok { addr := some (.domain [97,98,99] 53), sessionId := 1, body := [0x78] } := by decide

example : Frames.decodeAddress [3] = .err "bad header" := by decide

/-! ## "... or stop it from serving other connections": stalled clients and the accept loops

`Gen.acceptSites` is regenerated from `src/listeners/*.rs` on every run: the awaits each accept loop performs itself
(outside `tokio::spawn`).  No loop waits for handshake progress of the client it has just taken, hence — in the loop
model of `Model/Accept.lean` — every client is handed to its own task whatever the clients before it do. -/

def toWait : Gen.LoopAwait → Accept.Wait
  | .source => .source | .peer => .peer | .squeue => .squeue | .local => .localWait

def siteWaits (site : String × String × List (String × Gen.LoopAwait)) : List Accept.Wait :=
  site.2.2.map (fun a => toWait a.2)

/-- proof obligation on the regenerated table: no accept loop of any listener waits for one client's handshake -/
theorem accept_loops_have_no_peer_wait :
    ∀ site ∈ Gen.acceptSites, Accept.hasPeerWait (siteWaits site) = false := by decide

/-- the table covers the listeners (a translator that finds nothing proves nothing) -/
theorem accept_loops_cover_listeners :
    ∀ f ∈ ["src/listeners/http.rs", "src/listeners/socks.rs", "src/listeners/quic.rs", "src/listeners/reverse.rs", "src/listeners/tproxy.rs"],
      ∃ site ∈ Gen.acceptSites, site.1 = f := by decide

/-- for every listener, every stall pattern of the other clients (any number, any positions) and every client `k`:
`k` is handed to a task of its own, and is served iff it completes its own handshake -/
theorem stalled_clients_block_nobody (site) (hs : site ∈ Gen.acceptSites) (cs : List Accept.Stalls) (k : Nat)
    (hk : k < cs.length) :
    k ∈ Accept.tasks (siteWaits site) cs 0 ∧ Accept.served (siteWaits site) cs k = !cs[k] := by
  have h := accept_loops_have_no_peer_wait site hs
  have hm : k ∈ Accept.tasks (siteWaits site) cs 0 := by
    rw [Accept.tasks_all _ h]; simp [hk]
  refine ⟨hm, ?_⟩
  simp [Accept.served, hm, List.getD_eq_getElem?_getD, List.getElem?_eq_getElem hk]

/-- the loop shape the pre-fix QUIC listener and a TLS handshake in the accept loop have: one stalled client and nobody
behind it is ever served -/
theorem peer_wait_in_loop_blocks (ws : List Accept.Wait) (h : Accept.hasPeerWait ws = true)
    (pre post : List Accept.Stalls) (k : Nat) (hk : pre.length ≤ k) :
    Accept.served ws (pre ++ true :: post) k = false := by
  have := Accept.tasks_stuck ws h pre post 0
  unfold Accept.served
  cases hc : (Accept.tasks ws (pre ++ true :: post) 0).contains k
  · simp
  · have hm := this k (by simpa using hc)
    omega

example : Accept.served [.source, .peer] [true, false] 1 = false := by decide
example : Accept.served [.source, .localWait] [true, true, true, false] 3 = true := by decide

end Redproxy.Props.C05
