import Redproxy.Model.Auth
/-!
  C07 — configured peer authentication is enforced on every path (gate logic, verdict cache, verifier selection;
  rustls' certificate path validation and name matching are trusted).
-/
namespace Redproxy.Props.C07
open Redproxy Redproxy.Auth

/-- **"no authentication" is never selected when credentials are required**, whatever the client offers and in
    whatever order -/
theorem none_refused_when_required (offered : Bytes) : Socks.selectMethod true offered ≠ some 0 := by
  unfold Socks.selectMethod
  simp only [Bool.not_true, Bool.and_false, Bool.false_eq_true, if_false]
  split <;> simp

/-- valid credentials: in the static user list, or accepted by the external command -/
def validCreds (cfg : AuthCfg) (cmd : Cred → Bool) (u : Cred) : Prop := u ∈ cfg.users ∨ (cfg.hasCmd = true ∧ cmd u = true)

/-- a cache is *honest* if every unexpired entry is a verdict the command really gives for exactly that
    username and password, stored at most `timeout` seconds ago -/
def Honest (cmd : Cred → Bool) (c : Cache) : Prop := ∀ e ∈ c, cmd e.1 = e.2.1

theorem cacheLookup_honest (cmd : Cred → Bool) (c : Cache) (timeout now : Nat) (k : Cred) (v : Bool)
    (hc : Honest cmd c) (h : cacheLookup c timeout now k = some v) :
    cmd k = v ∧ ∃ e ∈ c, e.1 = k ∧ now < e.2.2 + timeout := by
  unfold cacheLookup at h
  cases hf : c.find? (fun e => e.1 == k && decide (now < e.2.2 + timeout)) with
  | none => simp [hf] at h
  | some e =>
    simp only [hf, Option.some.injEq] at h
    have hm := List.mem_of_find?_eq_some hf
    have hp := List.find?_some hf
    simp only [Bool.and_eq_true, beq_iff_eq, decide_eq_true_eq] at hp
    refine ⟨?_, e, hm, hp.1, hp.2⟩
    rw [← hp.1, hc e hm, h]

/-- `check` keeps the cache honest -/
theorem check_honest (cfg : AuthCfg) (cmd : Cred → Bool) (c : Cache) (now : Nat) (u : Option Cred) (hc : Honest cmd c) :
    Honest cmd (check cfg cmd c now u).2 := by
  unfold check
  split
  · exact hc
  · cases u with
    | none => exact hc
    | some u =>
      simp only
      split
      · exact hc
      · split
        · exact hc
        · split
          · exact hc
          · unfold cacheStore
            split
            · exact hc
            · intro e he
              simp only [List.mem_cons, List.mem_filter] at he
              rcases he with rfl | he
              · rfl
              · exact hc e he.1

/-- **no route without valid credentials**: with an honest cache, if credentials are required the verdict is
    positive only for a user/password pair that is in the user list or that the command accepts — for EVERY
    presented pair (also empty, 255-byte or non-UTF-8 ones) and every cache content -/
theorem check_sound (cfg : AuthCfg) (cmd : Cred → Bool) (c : Cache) (now : Nat) (u : Option Cred)
    (hreq : cfg.required = true) (hc : Honest cmd c) (h : (check cfg cmd c now u).1 = true) :
    ∃ cr, u = some cr ∧ validCreds cfg cmd cr := by
  unfold check at h
  simp only [hreq, Bool.not_true, Bool.false_eq_true, if_false] at h
  cases u with
  | none => simp at h
  | some cr =>
    refine ⟨cr, rfl, ?_⟩
    simp only at h
    split at h
    · rename_i hu; exact Or.inl (by simpa using hu)
    · split at h
      · simp at h
      · rename_i hcmd
        have hcmd' : cfg.hasCmd = true := by simpa using hcmd
        split at h
        · rename_i v hl
          simp only at h
          subst h
          exact Or.inr ⟨hcmd', (cacheLookup_honest cmd c _ now cr _ hc hl).1⟩
        · exact Or.inr ⟨hcmd', h⟩

/-- every history of checks (any users, any times) starting from an empty cache keeps it honest, so every
    verdict in such a history is sound: a cached verdict is reused only for the identical username and password
    and only while it has not expired (`cacheLookup_honest`) -/
theorem history_sound (cfg : AuthCfg) (cmd : Cred → Bool) (hist : List (Nat × Option Cred)) :
    Honest cmd (hist.foldl (fun c (e : Nat × Option Cred) => (check cfg cmd c e.1 e.2).2) []) := by
  have : ∀ c, Honest cmd c → Honest cmd (hist.foldl (fun c (e : Nat × Option Cred) => (check cfg cmd c e.1 e.2).2) c) := by
    induction hist with
    | nil => intro c hc; exact hc
    | cons e rest ih => intro c hc; exact ih _ (check_honest cfg cmd c e.1 e.2 hc)
  exact this [] (by intro e he; simp at he)

/-- an external command that cannot be started vouches for nobody (`cmd = fun _ => false`: spawn failure is a
    rejection): after EVERY history of checks, a positive verdict names a pair from the static user list -/
theorem unavailable_helper_admits_only_listed_users (cfg : AuthCfg) (hist : List (Nat × Option Cred)) (now : Nat)
    (u : Option Cred) (hreq : cfg.required = true)
    (h : (check cfg (fun _ => false) (hist.foldl (fun c (e : Nat × Option Cred) => (check cfg (fun _ => false) c e.1 e.2).2) []) now u).1 = true) :
    ∃ cr, u = some cr ∧ cr ∈ cfg.users := by
  obtain ⟨cr, hu, hv⟩ := check_sound cfg (fun _ => false) _ now u hreq (history_sound cfg (fun _ => false) hist) h
  refine ⟨cr, hu, ?_⟩
  rcases hv with hl | ⟨_, hc⟩
  · exact hl
  · simp at hc

/-- **SOCKS5**: when credentials are required, a request is routed only if the client went through the
    username/password exchange with valid credentials — whatever methods it offers, in whatever order -/
theorem socks5_no_route_without_creds (cfg : AuthCfg) (cmd : Cred → Bool) (c : Cache) (now : Nat) (cl : Client5)
    (hreq : cfg.required = true) (hc : Honest cmd c) (h : socks5Routed cfg cmd c now cl = true) :
    validCreds cfg cmd cl.creds ∧ cl.offered.contains 2 = true := by
  unfold socks5Routed socks5Gate at h
  unfold Socks.selectMethod at h
  simp only [hreq, Bool.not_true, Bool.and_false, Bool.false_eq_true, if_false] at h
  by_cases h2 : cl.offered.contains 2 = true
  · simp only [h2, if_true] at h
    obtain ⟨cr, he, hv⟩ := check_sound cfg cmd c now _ hreq hc h
    injection he with he
    subst he
    exact ⟨hv, h2⟩
  · have hm : 2 ∉ cl.offered := by simpa using h2
    simp [hm] at h

/-- **SOCKS4**: the user id (with an empty password) must itself be a valid credential -/
theorem socks4_no_route_without_creds (cfg : AuthCfg) (cmd : Cred → Bool) (c : Cache) (now : Nat) (uid : Bytes)
    (hreq : cfg.required = true) (hc : Honest cmd c) (h : socks4Routed cfg cmd c now uid = true) :
    validCreds cfg cmd (uid, []) := by
  obtain ⟨cr, he, hv⟩ := check_sound cfg cmd c now _ hreq hc h
  injection he with he
  subst he
  exact hv

/-- **client certificates**: when a listener's TLS configuration requires a client certificate, the verifier that
    is installed requires one — for every listener kind, QUIC included — and then only a peer presenting a
    certificate that chains to the configured CA is admitted -/
theorem client_cert_required_enforced (k : ListenerKind) (presented : Option Bool)
    (h : clientAdmitted (clientVerifierOf k (some { required := true })) presented = true) : presented = some true := by
  cases presented with
  | none => simp [clientVerifierOf, clientAdmitted] at h
  | some ok => simpa [clientVerifierOf, clientAdmitted] using h

/-- at the pinned commit the QUIC listener installed no client verifier at all (fixed): kernel-checked witness -/
theorem quic_client_cert_was_ignored :
    clientAdmitted (clientVerifierOfOld .quic (some { required := true })) none = true := by decide

/-- **upstream certificates**: without the `insecure` flag a tunnel is established only through an upstream whose
    certificate chains to the configured CA and matches the configured server name -/
theorem server_verified_unless_insecure (quic chains nameOk : Bool)
    (h : serverAccepted (serverCheckOf quic false) chains nameOk = true) : chains = true ∧ nameOk = true := by
  cases quic <;> simpa [serverCheckOf, serverAccepted] using h

/-! ### non-vacuity -/
private def cfg0 : AuthCfg := { required := true, users := [([117], [112])], hasCmd := true, cacheTimeout := 300 }
private def cmd0 : Cred → Bool := fun u => u == ([97], [120, 58, 115])      -- accepts ("a", "x:s") only
example : (check cfg0 cmd0 [] 0 (some ([117], [112]))).1 = true := by decide
example : (check cfg0 cmd0 [] 0 (some ([97], [120, 58, 115]))).1 = true := by decide
/-- a cached verdict for ("a","x:s") is not reused for ("a:x","s") -/
example : (check cfg0 cmd0 (check cfg0 cmd0 [] 0 (some ([97], [120, 58, 115]))).2 1 (some ([97, 58, 120], [115]))).1 = false := by decide
/-- and it expires: after the timeout the command is consulted again -/
example : cacheLookup [(([97], [1]), true, 0)] 300 299 ([97], [1]) = some true ∧ cacheLookup [(([97], [1]), true, 0)] 300 300 ([97], [1]) = none := by decide
example : socks5Routed cfg0 cmd0 [] 0 { offered := [0, 2], creds := ([117], [112]) } = true ∧
    socks5Routed cfg0 cmd0 [] 0 { offered := [0], creds := ([117], [112]) } = false ∧
    socks5Routed cfg0 cmd0 [] 0 { offered := [2, 0], creds := ([117], [113]) } = false := by decide

end Redproxy.Props.C07
