import Redproxy.Model.QuicCache
/-!
  C19 — service resumes after an upstream outage without restarting the proxy (connector-side state; what quinn's
  loss detection does with a dead connection is the environment).
-/
namespace Redproxy.Props.C19
open Redproxy.QuicCache

/-- **stateless connectors recover at once**: the first request after the upstream is back succeeds, whatever
    happened before -/
theorem stateless_recover : statelessAttempt true = .ok := rfl

/-- **the QUIC connector recovers within two attempts**: from ANY cache state — empty, live, dead and noticed, dead
    and not noticed — once the upstream is reachable the second attempt at the latest succeeds, and no attempt hangs -/
theorem quic_recovers_within_two (c : Cache) :
    ∃ o1, (attempts attempt true 2 c).2 = [o1, .ok] ∧ o1 ≠ .hang := by
  cases c with
  | none => exact ⟨.ok, rfl, by decide⟩
  | some l =>
    cases l with
    | live => exact ⟨.ok, rfl, by decide⟩
    | deadKnown => exact ⟨.failFast, rfl, by decide⟩
    | deadUnknown => exact ⟨.timedOut, rfl, by decide⟩

/-- … also after any sequence of outages and failed attempts while the upstream was down -/
theorem quic_recovers_after_any_history (c : Cache) (hist : List (Bool × Bool)) :
    let c' := hist.foldl (fun c (e : Bool × Bool) => if e.1 then outage e.2 c else (attempt false c).1) c
    ∃ o1, (attempts attempt true 2 c').2 = [o1, .ok] ∧ o1 ≠ .hang :=
  quic_recovers_within_two _

/-- a live cached connection is reused, an empty cache dials: no attempt is lost when nothing is wrong -/
theorem quic_healthy_path (c : Cache) (h : c = none ∨ c = some .live) : (attempt true c).2 = .ok := by
  rcases h with rfl | rfl <;> rfl

/-- at the pinned commit a connection that died without the endpoint noticing was never dropped: EVERY later
    request hung, for any number of attempts, although the upstream was reachable again (repaired) -/
theorem quic_dead_unknown_never_recovered (n : Nat) :
    (attempts attemptOld true n (some .deadUnknown)).1 = some .deadUnknown ∧
    ∀ o ∈ (attempts attemptOld true n (some .deadUnknown)).2, o = .hang := by
  induction n with
  | zero => simp [attempts]
  | succ n ih =>
    simp only [attempts, attemptOld]
    refine ⟨ih.1, ?_⟩
    intro o ho
    simp only [List.mem_cons] at ho
    rcases ho with rfl | ho
    · rfl
    · exact ih.2 o ho

/-- failures while the upstream is down never poison the cache: they leave it empty or unchanged-dead, never
    "live" -/
theorem failed_attempt_never_caches_live (c : Cache) (h : c ≠ some .live) : (attempt false c).1 ≠ some .live := by
  cases c with
  | none => simp [attempt]
  | some l => cases l <;> simp [attempt] at h ⊢

/-! ### non-vacuity -/
example : (attempts attempt true 3 (outage false (some .live))).2 = [.timedOut, .ok, .ok] := by decide
example : (attempts attempt true 2 (outage true (some .live))).2 = [.failFast, .ok] := by decide

/-! ### "tunnels to other upstreams are unaffected throughout": a request that times out on a healthy shared connection -/

/-- whatever the cache holds and however many tunnels are open: a request to a silent origin ends in bounded time
    (never `hang`), leaves every open tunnel alone, and the next request to a healthy origin succeeds -/
theorem silent_origin_spares_tunnels (s : Shared) :
    (silentOrigin false s).2 ≠ .hang ∧ (silentOrigin false s).1.tunnels = s.tunnels ∧
    (attempt true (silentOrigin false s).1.cache).2 = .ok := by
  unfold silentOrigin
  cases s.cache with
  | none => simp [attempt]
  | some l => cases l <;> simp [attempt]

/-- closing the shared connection when the cached handle is cleared (the shape of seeded change C19c) tears down
    tunnels that had nothing to do with the failed request -/
theorem closing_on_clear_kills_tunnels :
    (silentOrigin true { cache := some .live, tunnels := 3 }).1.tunnels = 0 := by decide

/-! ### a load balancer over stateless members -/

/-- once every member's upstream is up again every request through the balancer succeeds, whatever failed before and
    wherever the rotation stands -/
theorem lb_recovers (up : Nat → Bool) (n rr : Nat) (hn : 0 < n) (hup : ∀ m, m < n → up m = true) :
    lbAttempt up n rr = .ok := by
  simp [lbAttempt, statelessAttempt, hup (rr % n) (Nat.mod_lt _ hn)]

/-- while some member is down, a request fails only when it is that member's turn — and fails fast -/
theorem lb_outage_outcomes (up : Nat → Bool) (n rr : Nat) : lbAttempt up n rr ≠ .hang ∧ lbAttempt up n rr ≠ .timedOut := by
  unfold lbAttempt statelessAttempt
  split <;> simp

/-- marking failed members for good (seeded change C19d): member 0 fails once, later member 1 fails once, both are up
    again — and nothing is served any more -/
theorem sticky_marks_never_recover :
    let s1 := lbStickyAttempt (fun m => m != 0) [] 2 0          -- member 0 down: marked
    let s2 := lbStickyAttempt (fun m => m != 1) s1.1 2 1        -- member 0 back, member 1 down: marked
    let s3 := lbStickyAttempt (fun _ => true) s2.1 2 2          -- everything up
    s1.2 = .failFast ∧ s2.2 = .failFast ∧ s3.2 = .failFast := by decide

end Redproxy.Props.C19
