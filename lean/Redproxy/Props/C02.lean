import Redproxy.Model.Route
/-!
  C02 — routing: first matching rule wins, default deny, nothing leaks on deny; `cidr_match` is CIDR containment.

  All statements are for EVERY rule list, request, regex/CIDR oracle, evaluation fuel and connector table.
-/
namespace Redproxy.Props.C02
open Redproxy.MiluEval Redproxy.Route Redproxy

variable (x : Ext) (q : Req) (fuel : Nat) (conns : List Conn)

/-- a rule without a filter matches every request -/
theorem filterless_matches (r : CRule) (h : r.filter = none) : ruleMatches x q fuel r = true := by
  simp [ruleMatches, h]

/-- a filter that fails to evaluate (any error, a panic, running out of fuel) or yields a non-boolean counts as
    not matching -/
theorem error_is_nomatch (r : CRule) (e : Expr) (h : r.filter = some e)
    (hv : ∀ b : Bool, valueOf x q fuel [] e ≠ .ok (.bool b)) : ruleMatches x q fuel r = false := by
  unfold ruleMatches
  rw [h]
  cases hvv : valueOf x q fuel [] e with
  | ok v => cases v <;> simp <;> rename_i b <;> exact absurd hvv (hv b)
  | err k => simp
  | panic s => simp
  | fuel => simp

/-- characterisation of `find_map`: the result is the target of the FIRST rule that matches -/
theorem firstMatch_some (rules : List CRule) (t : Option Str) :
    firstMatch x q fuel rules = some t ↔
      ∃ i r, rules[i]? = some r ∧ ruleMatches x q fuel r = true ∧ r.target = t ∧
        ∀ (j : Nat) (r' : CRule), j < i → rules[j]? = some r' → ruleMatches x q fuel r' = false := by
  induction rules with
  | nil => simp [firstMatch]
  | cons r rest ih =>
    simp only [firstMatch]
    by_cases hm : ruleMatches x q fuel r = true
    · simp only [hm, if_true]
      constructor
      · intro h
        injection h with h
        exact ⟨0, r, by simp, hm, h, by intro j r' hj; omega⟩
      · rintro ⟨i, r1, hi, hm1, ht, hall⟩
        cases i with
        | zero => simp at hi; subst hi; rw [ht]
        | succ i =>
          have := hall 0 r (by omega) (by simp)
          rw [hm] at this; cases this
    · have hm' : ruleMatches x q fuel r = false := by simpa using hm
      simp only [hm', Bool.false_eq_true, if_false]
      rw [ih]
      constructor
      · rintro ⟨i, r1, hi, hm1, ht, hall⟩
        refine ⟨i + 1, r1, by simpa using hi, hm1, ht, ?_⟩
        intro j r' hj hr'
        cases j with
        | zero => simp at hr'; subst hr'; simpa using hm
        | succ j => exact hall j r' (by omega) (by simpa using hr')
      · rintro ⟨i, r1, hi, hm1, ht, hall⟩
        cases i with
        | zero => simp at hi; subst hi; exact absurd hm1 hm
        | succ i =>
          refine ⟨i, r1, by simpa using hi, hm1, ht, ?_⟩
          intro j r' hj hr'
          exact hall (j + 1) r' (by omega) (by simpa using hr')

theorem firstMatch_none (rules : List CRule) :
    firstMatch x q fuel rules = none ↔ ∀ r ∈ rules, ruleMatches x q fuel r = false := by
  induction rules with
  | nil => simp [firstMatch]
  | cons r rest ih =>
    simp only [firstMatch]
    by_cases hm : ruleMatches x q fuel r = true
    · simp [hm]
    · have hm' : ruleMatches x q fuel r = false := by simpa using hm
      simp only [hm', Bool.false_eq_true, if_false, ih]
      simp [hm']

/-- **first match wins**: the request is served by connector `c` iff the first rule, in configured order, whose
    filter is absent or true names `c`, and `c` can carry the requested feature -/
theorem first_match (rules : List CRule) (c : Str) :
    route x q fuel conns rules = .connect c ↔
      ∃ i r, rules[i]? = some r ∧ ruleMatches x q fuel r = true ∧ r.target = some c ∧
        (∀ (j : Nat) (r' : CRule), j < i → rules[j]? = some r' → ruleMatches x q fuel r' = false) ∧
        hasFeature conns c q.feature = true := by
  unfold route
  constructor
  · intro h
    split at h
    · cases h
    · cases h
    · rename_i c' hfm
      split at h
      · rename_i hf
        injection h with h
        subst h
        obtain ⟨i, r, hi, hm, ht, hall⟩ := (firstMatch_some x q fuel rules (some c')).1 hfm
        exact ⟨i, r, hi, hm, ht, hall, hf⟩
      · cases h
  · rintro ⟨i, r, hi, hm, ht, hall, hf⟩
    have hfm := (firstMatch_some x q fuel rules (some c)).2 ⟨i, r, hi, hm, ht, hall⟩
    simp [hfm, hf]

/-- **default deny**: no rule matches ⇒ the client is refused -/
theorem default_deny (rules : List CRule) (h : ∀ r ∈ rules, ruleMatches x q fuel r = false) :
    route x q fuel conns rules = .refuse .noRule := by
  simp [route, (firstMatch_none x q fuel rules).2 h]

/-- **explicit deny**: the first matching rule targets `deny` ⇒ refused, whatever follows it -/
theorem explicit_deny (pre post : List CRule) (r : CRule)
    (hpre : ∀ r' ∈ pre, ruleMatches x q fuel r' = false) (hm : ruleMatches x q fuel r = true) (ht : r.target = none) :
    route x q fuel conns (pre ++ r :: post) = .refuse .denied := by
  have : firstMatch x q fuel (pre ++ r :: post) = some none := by
    induction pre with
    | nil => simp [firstMatch, hm, ht]
    | cons p pre ih =>
      have hp : ruleMatches x q fuel p = false := hpre p (by simp)
      simp only [List.cons_append, firstMatch, hp, Bool.false_eq_true, if_false]
      exact ih (fun r' hr' => hpre r' (by simp [hr']))
  simp [route, this]

/-- **feature gate**: the selected upstream cannot carry the requested feature ⇒ refused -/
theorem feature_gate (rules : List CRule) (c : Str) (hfm : firstMatch x q fuel rules = some (some c))
    (hf : hasFeature conns c q.feature = false) : route x q fuel conns rules = .refuse .unsupportedFeature := by
  simp [route, hfm, hf]

/-- later rules never influence the decision once a rule has matched -/
theorem later_rules_irrelevant (pre post post' : List CRule) (r : CRule)
    (hm : ruleMatches x q fuel r = true) :
    route x q fuel conns (pre ++ r :: post) = route x q fuel conns (pre ++ r :: post') := by
  have : ∀ p, firstMatch x q fuel (pre ++ r :: p) = firstMatch x q fuel (pre ++ r :: []) := by
    intro p
    induction pre with
    | nil => simp [firstMatch, hm]
    | cons a pre ih => simp only [List.cons_append, firstMatch]; split <;> simp [ih]
  simp [route, this post, this post']

/-- **nothing leaks on deny**: whenever the decision is not `connect`, no upstream connection is opened, no client
    payload is relayed, the client is never told "established", and exactly one refusal is delivered -/
theorem deny_no_effects (rules : List CRule) (connectOk : Str → Bool) (relayOk : Bool)
    (h : ∀ c, route x q fuel conns rules ≠ .connect c) :
    process x q fuel conns rules connectOk relayOk = [.onError] := by
  unfold process
  split
  · rfl
  · rename_i c hc; exact absurd hc (h c)

/-- conversely an upstream connection is opened only to the decided connector, and the client is told
    "established" only after that connection succeeded -/
theorem effects_only_decided (rules : List CRule) (connectOk : Str → Bool) (relayOk : Bool) (c : Str)
    (h : Eff.connect c ∈ process x q fuel conns rules connectOk relayOk) :
    route x q fuel conns rules = .connect c := by
  unfold process at h
  split at h
  · simp at h
  · rename_i c' hc
    split at h
    · simp at h
      rcases h with h | h
      · rw [h]; exact hc
      · split at h <;> simp at h
    · simp at h; rw [h]; exact hc

theorem established_only_after_connect (rules : List CRule) (connectOk : Str → Bool) (relayOk : Bool)
    (h : Eff.onConnect ∈ process x q fuel conns rules connectOk relayOk) :
    ∃ c, route x q fuel conns rules = .connect c ∧ connectOk c = true := by
  unfold process at h
  split at h
  · simp at h
  · rename_i c' hc
    split at h
    · rename_i hok; exact ⟨c', hc, hok⟩
    · simp at h

/-! ### the request attributes visible to filters equal the request's fields -/
private def acc (p : List String) : Expr :=
  match p with
  | [] => .ident []
  | r :: fs => fs.foldl (fun e f => .access e (.ident f.toList)) (.ident r.toList)

theorem attrs_truthful (n : Nat) :
    valueOf x q (n + 3) [] (acc ["request", "listener"]) = .ok (.str q.listener) ∧
    valueOf x q (n + 3) [] (acc ["request", "connector"]) = .ok (.str q.connector) ∧
    valueOf x q (n + 3) [] (acc ["request", "feature"]) = .ok (.str q.feature) ∧
    valueOf x q (n + 3) [] (acc ["request", "target", "host"]) = .ok (.str q.tgtHost) ∧
    valueOf x q (n + 3) [] (acc ["request", "target", "port"]) = .ok (.int q.tgtPort) ∧
    valueOf x q (n + 3) [] (acc ["request", "target", "type"]) = .ok (.str q.tgtType) ∧
    valueOf x q (n + 3) [] (acc ["request", "source", "host"]) = .ok (.str q.srcHost) ∧
    valueOf x q (n + 3) [] (acc ["request", "source", "port"]) = .ok (.int q.srcPort) ∧
    valueOf x q (n + 3) [] (acc ["request", "source", "type"]) = .ok (.str q.srcType) := by
  simp [acc, valueOf, lookup, bind, pure]

/-! ### `cidr_match` is standard CIDR containment -/
open Redproxy.Cidr in
/-- quotients by `2^k` agree iff all bits from position `k` up agree -/
private theorem div_pow_eq_iff (a n k : Nat) : a / 2 ^ k = n / 2 ^ k ↔ ∀ i, k ≤ i → a.testBit i = n.testBit i := by
  constructor
  · intro h i hi
    have ha : a.testBit i = (a / 2 ^ k).testBit (i - k) := by
      rw [Nat.testBit_div_two_pow]; congr 1; omega
    have hn : n.testBit i = (n / 2 ^ k).testBit (i - k) := by
      rw [Nat.testBit_div_two_pow]; congr 1; omega
    rw [ha, hn, h]
  · intro h
    apply Nat.eq_of_testBit_eq
    intro j
    rw [Nat.testBit_div_two_pow, Nat.testBit_div_two_pow]
    rw [Nat.add_comm]
    exact h (k + j) (by omega)

open Redproxy.Cidr in
/-- IPv4: `contains` holds iff the top `len` of the 32 bits agree (bit 31 is the most significant) -/
theorem cidr_contains_v4 (net a len : Nat) (hlen : len ≤ 32) :
    contains (.v4 net len) (.v4 a) = true ↔ ∀ i, 32 - len ≤ i → a.testBit i = net.testBit i := by
  have _ := hlen
  simp only [contains, beq_iff_eq]
  exact div_pow_eq_iff a net (32 - len)

open Redproxy.Cidr in
/-- IPv6: the top `len` of the 128 bits agree -/
theorem cidr_contains_v6 (net a len : Nat) (hlen : len ≤ 128) :
    contains (.v6 net len) (.v6 a) = true ↔ ∀ i, 128 - len ≤ i → a.testBit i = net.testBit i := by
  have _ := hlen
  simp only [contains, beq_iff_eq]
  exact div_pow_eq_iff a net (128 - len)

open Redproxy.Cidr in
/-- an IPv4 network contains no IPv6 address and vice versa; `any` contains everything; `/0` contains its family -/
theorem cidr_families (net len a : Nat) :
    contains (.v4 net len) (.v6 a) = false ∧ contains (.v6 net len) (.v4 a) = false ∧
    contains .any (.v4 a) = true ∧ contains .any (.v6 a) = true := by
  simp [contains]

open Redproxy.Cidr in
theorem cidr_len0_all (net a : Nat) (ha : a < 2 ^ 32) (hn : net < 2 ^ 32) : contains (.v4 net 0) (.v4 a) = true := by
  simp [contains, Nat.div_eq_of_lt ha, Nat.div_eq_of_lt hn]

open Redproxy.Cidr in
/-- a host route (`/32`) contains exactly its own address -/
theorem cidr_len32_self (net a : Nat) : contains (.v4 net 32) (.v4 a) = true ↔ a = net := by
  simp [contains]

open Redproxy.Cidr in
/-- an address or network text that does not parse never matches -/
theorem cidr_unparsable_false (ip cidr : Cidr.Str) (h : parseIp ip = none ∨ parseNet cidr = none) :
    cidrMatch ip cidr = false := by
  unfold cidrMatch
  rcases h with h | h
  · simp [h]
  · cases parseIp ip <;> simp [h]

/-! ### non-vacuity -/
open Redproxy.Cidr in
example : cidrMatch "10.1.2.3".toList "10.0.0.0/8".toList = true ∧ cidrMatch "11.1.2.3".toList "10.0.0.0/8".toList = false ∧
    cidrMatch "2001:db8::1".toList "2001:db8::/32".toList = true ∧ cidrMatch "::1".toList "0.0.0.0/0".toList = false ∧
    cidrMatch "::ffff:10.0.0.1".toList "10.0.0.0/8".toList = false ∧ cidrMatch "10.0.0.1".toList "10.0.0.1/8".toList = false ∧
    cidrMatch "10.9.9.9".toList "10".toList = false ∧ cidrMatch "10.0.0.0".toList "10".toList = true ∧
    cidrMatch "1.2.3.4".toList "any".toList = true := by decide

private def q0 : Req :=
  { listener := "http".toList, connector := [], feature := "TcpForward".toList, srcHost := [], srcPort := 1, srcType := [], srcText := [],
    tgtHost := "a".toList, tgtPort := 443, tgtType := [], tgtText := [] }
private def x0 : Ext := { re := fun _ _ => some true, cidr := Cidr.cidrMatch }
private def conns0 : List Conn := [{ name := "up".toList, features := ["TcpForward".toList] }, { name := "udp".toList, features := ["UdpForward".toList] }]
private def port (n : Int) : Expr :=
  .bin .eq (.access (.access (.ident "request".toList) (.ident "target".toList)) (.ident "port".toList)) (.int n)
private def rules0 : List CRule :=
  [{ target := some "udp".toList, filter := some (port 80) }, { target := none, filter := some (.bin .div (.int 1) (.int 0)) },
   { target := some "up".toList, filter := some (port 443) }, { target := none, filter := none }]
/-- rule 0 is false, rule 1 fails to evaluate (counts as not matching), rule 2 matches -/
example : route x0 q0 50 conns0 rules0 = .connect "up".toList := by decide
example : route x0 { q0 with tgtPort := 80 } 50 conns0 rules0 = .refuse .unsupportedFeature := by decide
example : route x0 { q0 with tgtPort := 22 } 50 conns0 rules0 = .refuse .denied := by decide
example : route x0 { q0 with tgtPort := 22 } 50 conns0 (rules0.take 3) = .refuse .noRule := by decide

end Redproxy.Props.C02
