import Redproxy.Lemmas.Rd
import Redproxy.Model.Socks
import Redproxy.Model.Http
import Redproxy.Model.Frames
/-!
# C12 — stream decoders are insensitive to how the network segments the bytes
-/
namespace Redproxy.Props.C12
open Redproxy

/-- MAIN: every reader program (hence every handshake decoder below), every segmentation, every read-ahead
    state: same result, same bytes written, same bytes left unread for the tunnel. -/
theorem rd_segmentation_insensitive {α : Type} (p : Rd α) (s : SS) (w : W) :
    runFlat p s.flat w = ((runSeg p s w).1, (runSeg p s w).2.1.flat, (runSeg p s w).2.2) :=
  runSeg_eq_runFlat p s w

/-- two segmentations of the same bytes are indistinguishable -/
theorem same_bytes_same_result {α : Type} (p : Rd α) (s₁ s₂ : SS) (w : W) (h : s₁.flat = s₂.flat) :
    (runSeg p s₁ w).1 = (runSeg p s₂ w).1 ∧ (runSeg p s₁ w).2.1.flat = (runSeg p s₂ w).2.1.flat ∧
    (runSeg p s₁ w).2.2 = (runSeg p s₂ w).2.2 := by
  have h1 := runSeg_eq_runFlat p s₁ w
  have h2 := runSeg_eq_runFlat p s₂ w
  rw [h] at h1
  rw [h1] at h2
  simp only [Prod.mk.injEq] at h2
  exact h2

/-- instantiations: the decoders of redproxy-rs are `Rd` programs -/
theorem socks_request_segmentation (required : Bool) (s₁ s₂ : SS) (h : s₁.flat = s₂.flat) :
    (runSeg (Socks.readRequest required) s₁ {}).1 = (runSeg (Socks.readRequest required) s₂ {}).1 :=
  (same_bytes_same_result _ s₁ s₂ {} h).1

theorem socks_response_segmentation (s₁ s₂ : SS) (h : s₁.flat = s₂.flat) :
    (runSeg Socks.readResponse s₁ {}).1 = (runSeg Socks.readResponse s₂ {}).1 :=
  (same_bytes_same_result _ s₁ s₂ {} h).1

theorem http_request_segmentation (fuel : Nat) (s₁ s₂ : SS) (h : s₁.flat = s₂.flat) :
    (runSeg (Http.readRequest fuel) s₁ {}).1 = (runSeg (Http.readRequest fuel) s₂ {}).1 :=
  (same_bytes_same_result _ s₁ s₂ {} h).1

theorem http_response_segmentation (fuel : Nat) (s₁ s₂ : SS) (h : s₁.flat = s₂.flat) :
    (runSeg (Http.readResponse fuel) s₁ {}).1 = (runSeg (Http.readResponse fuel) s₂ {}).1 :=
  (same_bytes_same_result _ s₁ s₂ {} h).1

/-! ## whole exchanges (writes interleaved with reads), and the bytes left for the tunnel -/

/-- the upstream CONNECT exchange of `h11c_connect` (request written, response head read, `Session-Id` parsed): verdict,
bytes written and bytes left for the tunnel do not depend on how the upstream's answer is segmented -/
theorem connect_exchange_segmentation (tbl : V6Tbl) (t : Addr) (f : Http.Feature) (ch bs : Bytes) (fuel : Nat)
    (s₁ s₂ : SS) (w : W) (h : s₁.flat = s₂.flat) :
    (runSeg (Http.connectExchange tbl t f ch bs fuel) s₁ w).1 = (runSeg (Http.connectExchange tbl t f ch bs fuel) s₂ w).1 ∧
    (runSeg (Http.connectExchange tbl t f ch bs fuel) s₁ w).2.1.flat = (runSeg (Http.connectExchange tbl t f ch bs fuel) s₂ w).2.1.flat ∧
    (runSeg (Http.connectExchange tbl t f ch bs fuel) s₁ w).2.2 = (runSeg (Http.connectExchange tbl t f ch bs fuel) s₂ w).2.2 :=
  same_bytes_same_result _ s₁ s₂ w h

/-- the SOCKS client dialogue (request written — with method negotiation and RFC 1929 for v5 — then the reply read) -/
theorem socks_client_dialogue_segmentation (r : Socks.Request) (s₁ s₂ : SS) (w : W) (h : s₁.flat = s₂.flat) :
    (runSeg (do Socks.writeRequest r; Socks.readResponse) s₁ w).1 = (runSeg (do Socks.writeRequest r; Socks.readResponse) s₂ w).1 ∧
    (runSeg (do Socks.writeRequest r; Socks.readResponse) s₁ w).2.2 = (runSeg (do Socks.writeRequest r; Socks.readResponse) s₂ w).2.2 :=
  ⟨(same_bytes_same_result _ s₁ s₂ w h).1, (same_bytes_same_result _ s₁ s₂ w h).2.2⟩

/-- early data: whatever the client sent behind its request head reaches the tunnel identically -/
theorem http_request_leftover (fuel : Nat) (s₁ s₂ : SS) (h : s₁.flat = s₂.flat) :
    (runSeg (Http.readRequest fuel) s₁ {}).2.1.flat = (runSeg (Http.readRequest fuel) s₂ {}).2.1.flat :=
  (same_bytes_same_result _ s₁ s₂ {} h).2.1

theorem socks_request_leftover (required : Bool) (s₁ s₂ : SS) (h : s₁.flat = s₂.flat) :
    (runSeg (Socks.readRequest required) s₁ {}).2.1.flat = (runSeg (Socks.readRequest required) s₂ {}).2.1.flat :=
  (same_bytes_same_result _ s₁ s₂ {} h).2.1

end Redproxy.Props.C12
