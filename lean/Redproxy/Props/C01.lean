import Redproxy.Model.Relay
import Redproxy.Lemmas.Rd
/-!
  C01 — TCP tunnel byte-stream fidelity (the logic of the relay; kernel TCP, TLS records and QUIC streams are
  exercised end to end, not modelled).
-/
namespace Redproxy.Props.C01
open Redproxy Redproxy.Relay

/-- **buffered relay fidelity**: for every chunking of the source stream and either way of ending, the destination
    receives exactly the concatenation of what was read, in order, once; the byte counter equals its length -/
theorem relay_buffered_fidelity (chunks : List Bytes) (e : End) :
    delivered (copyHalf chunks e).outs = chunks.flatten ∧ (copyHalf chunks e).count = chunks.flatten.length := by
  induction chunks with
  | nil => cases e <;> simp [copyHalf, delivered]
  | cons c rest ih => simp [copyHalf, delivered, ih.1, ih.2]

/-- hence two chunkings of the same bytes deliver the same stream -/
theorem relay_segmentation_independent (a b : List Bytes) (e : End) (h : a.flatten = b.flatten) :
    delivered (copyHalf a e).outs = delivered (copyHalf b e).outs := by
  rw [(relay_buffered_fidelity a e).1, (relay_buffered_fidelity b e).1, h]

private theorem drainPipe_delivered (fuel : Nat) (pipe : Bytes) (s : List Nat) (h : pipe.length ≤ fuel) :
    delivered (drainPipe fuel pipe s).1 = pipe := by
  induction fuel generalizing pipe s with
  | zero => simp at h; subst h; simp [drainPipe, delivered]
  | succ fuel ih =>
    cases pipe with
    | nil => simp [drainPipe, delivered]
    | cons b r =>
      simp only [drainPipe]
      have hlen : ∀ k, (spliceOut (b :: r) k).2.length ≤ fuel := by
        intro k
        simp only [spliceOut, List.length_drop, List.length_cons] at *
        omega
      have hcat : ∀ k, (spliceOut (b :: r) k).1 ++ (spliceOut (b :: r) k).2 = b :: r := by
        intro k; simp [spliceOut]
      cases s with
      | nil =>
        simp only [delivered]
        rw [ih _ _ (hlen _)]
        exact hcat _
      | cons k s' =>
        simp only [delivered]
        rw [ih _ _ (hlen _)]
        exact hcat _

/-- **splice relay fidelity** (repaired code): whatever amounts the kernel moves per `splice`, every byte read
    reaches the destination, in order, once -/
theorem relay_splice_fidelity (chunks : List Bytes) (e : End) (script : List Nat) :
    delivered (copyHalfSplice chunks e script).outs = chunks.flatten ∧
    (copyHalfSplice chunks e script).count = chunks.flatten.length := by
  induction chunks generalizing script with
  | nil => cases e <;> simp [copyHalfSplice, delivered]
  | cons c rest ih =>
    simp only [copyHalfSplice, List.flatten_cons, List.length_append]
    have hd : ∀ (a b : List Out), delivered (a ++ b) = delivered a ++ delivered b := by
      intro a b
      induction a with
      | nil => rfl
      | cons x xs ihx => cases x <;> simp [delivered, ihx]
    rw [hd, drainPipe_delivered c.length c script (Nat.le_refl _), (ih _).1, (ih _).2]
    exact ⟨rfl, rfl⟩

/-- the splice path as it was at the pinned commit loses the pipe residue at EOF: a kernel-checked run
    (fixed: property=C01/C04, see known_findings.json; reproduced on real sockets with a slow reader) -/
theorem relay_splice_old_loses :
    delivered (copyHalfSpliceOld [] [[1, 2, 3, 4], [5, 6]] .eof [3, 1]).outs = [1, 2, 3, 4] ∧
    (copyHalfSpliceOld [] [[1, 2, 3, 4], [5, 6]] .eof [3, 1]).count = 6 := by decide

/-- **hand-over after a handshake**: for every reader program `p` (every listener / connector handshake is one,
    C12), every segmentation of the bytes on the wire and every read-ahead state: what `drain_buffers` plus the
    relay deliver to the other side is exactly what the flat run of `p` leaves unread — so payload glued behind the
    handshake arrives, and no handshake byte does -/
theorem handover_exact {α : Type} (p : Rd α) (s : SS) (w : W) (e : End) :
    delivered (afterHandshake (runSeg p s w).2.1 e).outs = (runFlat p s.flat w).2.1 := by
  have h := runSeg_eq_runFlat p s w
  have hfl : (runSeg p s w).2.1.flat = (runFlat p s.flat w).2.1 := by
    rw [h]
  rw [← hfl]
  generalize (runSeg p s w).2.1 = s'
  simp only [afterHandshake]
  have hflat : (s'.wire.filter (fun c => !c.isEmpty)).flatten = s'.wire.flatten := by
    induction s'.wire with
    | nil => rfl
    | cons a r ih =>
      cases a with
      | nil => simpa using ih
      | cons b t => simp [List.filter_cons, ih]
  have hd : ∀ (a b : List Out), delivered (a ++ b) = delivered a ++ delivered b := by
    intro a b
    induction a with
    | nil => rfl
    | cons x xs ihx => cases x <;> simp [delivered, ihx]
  rw [hd]
  simp only [delivered, (relay_buffered_fidelity _ e).1, hflat, SS.flat]
  by_cases hb : s'.buf = [] <;> simp [hb, delivered]

/-- **no cross-talk**: what one direction of one tunnel delivers is a function of that direction's input only -/
theorem relay_noninterference (c2s s2c s2c' : List Bytes) (ce se se' : End) :
    (copyBidi c2s ce s2c se).toServer = (copyBidi c2s ce s2c' se').toServer := rfl

/-! ### non-vacuity -/
example : delivered (copyHalf [[1, 2], [3]] .eof).outs = [1, 2, 3] := by decide
example : delivered (copyHalfSplice [[1, 2, 3, 4], [5, 6]] .eof [3, 1]).outs = [1, 2, 3, 4, 5, 6] := by decide

/-! ### short writes -/

/-- whatever short counts the destination's `write` returns, `write_all` puts exactly the chunk on the wire -/
theorem writeAll_delivers (fuel : Nat) (chunk : Bytes) (script : List Nat) (h : chunk.length < fuel) :
    writeAll fuel chunk script = chunk := by
  induction fuel generalizing chunk script with
  | zero => omega
  | succ f ih =>
    cases chunk with
    | nil => simp [writeAll]
    | cons b rest =>
      cases script with
      | nil => simp [writeAll]
      | cons n ns =>
        simp only [writeAll]
        have hk : 1 ≤ min (max n 1) (b :: rest).length := by
          simp only [List.length_cons]; omega
        rw [ih ((b :: rest).drop (min (max n 1) (b :: rest).length)) ns (by
          simp only [List.length_drop, List.length_cons] at *; omega)]
        exact List.take_append_drop _ _

/-- restarting at offset 0 after a short write (seeded change C01d): the right NUMBER of bytes, the wrong bytes -/
theorem restart_after_short_write_corrupts :
    writeAllRestarting 10 [1, 2, 3, 4, 5] 5 [2, 3] = [1, 2, 1, 2, 3] ∧ writeAll 10 [1, 2, 3, 4, 5] [2, 3] = [1, 2, 3, 4, 5] := by
  decide

end Redproxy.Props.C01
