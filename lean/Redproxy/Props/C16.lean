import Redproxy.Model.Registry
import Redproxy.Model.Route
import Redproxy.Props.C01
/-!
  C16 — every connection is accounted for exactly once with a truthful record.

  Invariants of the registry over EVERY history of create / drop / GC-tick operations, and the lifecycle grammar of
  the state sequence produced by `process_request`.
-/
namespace Redproxy.Props.C16
open Redproxy.Registry

/-- the invariant carried along every history -/
structure Inv (s : St) : Prop where
  fresh_alive : ∀ i ∈ s.alive, i < s.nextId
  fresh_logged : ∀ i ∈ s.logged, i < s.nextId
  alive_nodup : s.alive.Nodup
  gc_nodup : s.gcList.Nodup
  gc_sub : ∀ i ∈ s.gcList, i ∈ s.alive
  logged_nodup : s.logged.Nodup
  logged_disj : ∀ i ∈ s.logged, i ∉ s.alive
  hist : s.terminated = s.logged.reverse.take s.historySize

/-- trimming an already trimmed history: `(g ++ take K l).take H = (g ++ l).take H` whenever `H ≤ K` -/
theorem take_append_take {α : Type} (g l : List α) (H K : Nat) (h : H ≤ K) :
    (g ++ l.take K).take H = (g ++ l).take H := by
  induction g generalizing H K with
  | nil => simp [List.take_take, Nat.min_eq_left h]
  | cons a g ih =>
    cases H with
    | zero => simp
    | succ H =>
      simp only [List.cons_append, List.take_succ_cons]
      congr 1
      exact ih H K (by omega)

theorem inv_init (h : Nat) : Inv { historySize := h } :=
  ⟨by simp, by simp, by simp, by simp, by simp, by simp, by simp, by simp⟩

theorem inv_step (s : St) (op : Op) (hi : Inv s) : Inv (step s op) := by
  cases op with
  | create =>
    simp only [step, create]
    refine ⟨?_, ?_, ?_, hi.gc_nodup, ?_, hi.logged_nodup, ?_, hi.hist⟩ <;> dsimp only
    · intro i h
      simp only [List.mem_cons] at h
      rcases h with rfl | h
      · omega
      · have := hi.fresh_alive i h; omega
    · intro i h; have := hi.fresh_logged i h; omega
    · refine List.nodup_cons.2 ⟨?_, hi.alive_nodup⟩
      intro h; have := hi.fresh_alive _ h; omega
    · intro i h; simp [hi.gc_sub i h]
    · intro i h
      simp only [List.mem_cons, not_or]
      refine ⟨?_, hi.logged_disj i h⟩
      have := hi.fresh_logged i h; omega
  | drop id =>
    simp only [step, dropCtx]
    split
    · rename_i hc
      refine ⟨hi.fresh_alive, hi.fresh_logged, hi.alive_nodup, ?_, ?_, hi.logged_nodup, hi.logged_disj, hi.hist⟩
      · rw [List.nodup_append]
        refine ⟨hi.gc_nodup, by simp, ?_⟩
        intro a ha b hb
        simp at hb; subst hb
        intro e; subst e; exact hc.2 ha
      · intro i h
        simp only [List.mem_append, List.mem_singleton] at h
        rcases h with h | rfl
        · exact hi.gc_sub i h
        · exact hc.1
    · exact hi
  | gcTick =>
    simp only [step, gcTick]
    refine ⟨?_, ?_, ?_, by simp, by simp, ?_, ?_, ?_⟩
    · intro i h; exact hi.fresh_alive i (List.mem_filter.1 h).1
    · intro i h
      simp only [List.mem_append] at h
      rcases h with h | h
      · exact hi.fresh_logged i h
      · exact hi.fresh_alive i (hi.gc_sub i h)
    · exact hi.alive_nodup.filter _
    · rw [List.nodup_append]
      refine ⟨hi.logged_nodup, hi.gc_nodup, ?_⟩
      intro a ha b hb e
      subst e
      exact hi.logged_disj a ha (hi.gc_sub a hb)
    · intro i h
      simp only [List.mem_append] at h
      intro hm
      have hm' := List.mem_filter.1 hm
      rcases h with h | h
      · exact hi.logged_disj i h hm'.1
      · simp [h] at hm'
    · simp only [List.reverse_append]
      rw [hi.hist]
      exact take_append_take _ _ _ _ (Nat.le_refl _)

/-- the invariant holds after EVERY history -/
theorem inv_run (h : Nat) (ops : List Op) : Inv (run { historySize := h } ops) := by
  have : ∀ (s : St), Inv s → Inv (run s ops) := by
    induction ops with
    | nil => intro s hs; exact hs
    | cons op rest ih => intro s hs; exact ih _ (inv_step s op hs)
  exact this _ (inv_init h)

/-- the collector never finds a waiting record missing from `alive` (its `remove(..).unwrap()` cannot panic), after
    EVERY history of create / drop / tick operations — reading through the API is not an operation: it leaves the state
    as it is -/
theorem collector_never_panics (h : Nat) (ops : List Op) : gcTickSafe (run { historySize := h } ops) = true := by
  have hi := inv_run h ops
  simp only [gcTickSafe, List.all_eq_true, List.contains_eq_mem, decide_eq_true_eq]
  exact hi.gc_sub

/-- a handler that prunes dead entries while it lists the live ones (seeded change C16c) breaks exactly that: after
    create, drop, GET /api/live the collector's tick panics -/
theorem pruning_reader_kills_collector :
    gcTickSafe (apiLivePruning (run { historySize := 3 } [.create, .drop 0])) = false := by decide

/-- **distinct ids**: the id handed to a new connection was never used before (not live, not waiting, not logged) -/
theorem ids_distinct (h : Nat) (ops : List Op) :
    (create (run { historySize := h } ops)).2 ∉ (run { historySize := h } ops).alive ∧
    (create (run { historySize := h } ops)).2 ∉ (run { historySize := h } ops).logged ∧
    (create (run { historySize := h } ops)).2 ∉ (run { historySize := h } ops).gcList := by
  have hi := inv_run h ops
  have e : (create (run { historySize := h } ops)).2 = (run { historySize := h } ops).nextId := rfl
  rw [e]
  refine ⟨?_, ?_, ?_⟩
  · intro hm; exact Nat.lt_irrefl _ (hi.fresh_alive _ hm)
  · intro hm; exact Nat.lt_irrefl _ (hi.fresh_logged _ hm)
  · intro hm; exact Nat.lt_irrefl _ (hi.fresh_alive _ (hi.gc_sub _ hm))

/-- **logged exactly once**: no id is ever written to the access log twice, and a logged connection is no
    longer in the live table -/
theorem logged_exactly_once (h : Nat) (ops : List Op) :
    (run { historySize := h } ops).logged.Nodup ∧
    ∀ i ∈ (run { historySize := h } ops).logged, i ∉ live (run { historySize := h } ops) := by
  have hi := inv_run h ops
  refine ⟨hi.logged_nodup, ?_⟩
  intro i hl hm
  exact hi.logged_disj i hl (List.mem_filter.1 hm).1

/-- **every ended connection is logged at the next tick**, in the order the connections ended -/
theorem ended_are_logged (s : St) : (gcTick s).logged = s.logged ++ s.gcList ∧ (gcTick s).gcList = [] := by
  simp [gcTick]

/-- **history**: bounded by `historySize` (also for 0, also when more than `historySize` connections end within one
    tick), newest first, every entry exactly once: it is exactly the last `historySize` logged ids in reverse -/
theorem history_bounded_newest_first (h : Nat) (ops : List Op) :
    let s := run { historySize := h } ops
    s.terminated = s.logged.reverse.take h ∧ s.terminated.length ≤ h ∧ s.terminated.Nodup := by
  intro s
  have hi := inv_run h ops
  have hh : s.historySize = h := by
    have : ∀ (t : St) (o : List Op), (run t o).historySize = t.historySize := by
      intro t o
      induction o generalizing t with
      | nil => rfl
      | cons op rest ih =>
        simp only [run, List.foldl_cons] at *
        rw [ih]
        cases op <;> simp [step, create, dropCtx, gcTick]
        split <;> rfl
    exact this _ _
  refine ⟨by rw [hi.hist, hh], ?_, ?_⟩
  · rw [hi.hist, hh]; simp [List.length_take]; omega
  · rw [hi.hist]
    have hrev : s.logged.reverse.Nodup := by
      have := hi.logged_nodup
      unfold List.Nodup at *
      rw [List.pairwise_reverse]
      exact this.imp (fun h => Ne.symm h)
    exact List.Nodup.sublist (List.take_sublist _ _) hrev

/-- **live exactly while it exists**: a created connection is listed until it is dropped, and not after -/
theorem live_iff_exists (s : St) (hi : Inv s) :
    (create s).2 ∈ live (create s).1 ∧
    ∀ id, id ∈ live s → id ∉ live (dropCtx s id) := by
  constructor
  · simp only [live, create, List.mem_filter, List.mem_cons, true_or, true_and]
    simp only [Bool.not_eq_true', List.contains_eq_mem, decide_eq_false_iff_not]
    intro hm
    have := hi.fresh_alive _ (hi.gc_sub _ hm)
    omega
  · intro id hl
    simp only [live, List.mem_filter] at hl
    have h2 : id ∉ s.gcList := by simpa using hl.2
    simp only [dropCtx, hl.1, h2, not_false_eq_true, and_self, if_true, live, List.mem_filter, not_and]
    intro _
    simp

/-! ### lifecycle of the recorded state sequence -/
open Redproxy.Route in
/-- states recorded for one connection by `create_context`, `enqueue`, `process_request` and `copy_bidi` -/
inductive CState | clientConnected | clientRequested | serverConnecting | connected | clientShutdown | serverShutdown | terminated | errorOccured
  deriving Repr, DecidableEq

def CState.terminal : CState → Bool
  | .terminated | .errorOccured => true
  | _ => false

open Redproxy.Route in
/-- the state list produced along the effect trace of `process_request`; `order` = which direction finished first -/
def statesOf (effs : List Eff) (clientFirst : Bool) : List CState :=
  [.clientConnected, .clientRequested] ++ effs.flatMap fun
    | .setConnecting _ => [.serverConnecting]
    | .onConnect => [.connected]
    | .relay => []
    | .terminated => (if clientFirst then [.clientShutdown, .serverShutdown] else [.serverShutdown, .clientShutdown]) ++ [.terminated]
    | .onError => [.errorOccured]
    | _ => []

/-- exactly one terminal state, and it is the last -/
def wellTerminated (l : List CState) : Bool :=
  match l.reverse with
  | [] => false
  | last :: before => last.terminal && before.all (fun s => !s.terminal)

open Redproxy.Route Redproxy.MiluEval in
/-- **lifecycle**: for every rule list, request and upstream behaviour, the recorded sequence starts with
    connected, requested, follows connecting → established → per-direction shutdowns, and ends in exactly one
    terminal state (finished, or error) -/
theorem lifecycle (x : Ext) (q : Req) (fuel : Nat) (conns : List Conn) (rules : List CRule)
    (connectOk : MiluEval.Str → Bool) (relayOk clientFirst : Bool) :
    wellTerminated (statesOf (process x q fuel conns rules connectOk relayOk) clientFirst) = true := by
  unfold process
  split
  · rfl
  · rename_i c _
    cases connectOk c <;> cases relayOk <;> cases clientFirst <;> rfl

/-! ### byte counters -/
open Redproxy Redproxy.Relay in
/-- **counters equal payload** (TCP tunnels): for every handshake read-ahead state, every chunking and either way of
    ending, the direction's byte counter equals the number of payload bytes actually delivered to the other side —
    the read-ahead handed over by `drain_buffers` included -/
theorem counters_equal_payload (s : SS) (e : End) :
    (afterHandshake s e).count = (delivered (afterHandshake s e).outs).length := by
  have hd : ∀ (a b : List Out), delivered (a ++ b) = delivered a ++ delivered b := by
    intro a b
    induction a with
    | nil => rfl
    | cons x xs ihx => cases x <;> simp [delivered, ihx]
  simp only [afterHandshake, hd, delivered, List.length_append]
  rw [(Redproxy.Props.C01.relay_buffered_fidelity _ e).1, (Redproxy.Props.C01.relay_buffered_fidelity _ e).2]
  by_cases hb : s.buf = [] <;> simp [hb, delivered]

/-! ### non-vacuity -/
example : (run { historySize := 2 } [.create, .create, .create, .drop 0, .drop 2, .drop 1, .gcTick]).terminated = [1, 2] := by decide
example : (run { historySize := 2 } [.create, .create, .create, .drop 0, .drop 2, .drop 1, .gcTick]).logged = [0, 2, 1] := by decide
example : live (run { historySize := 0 } [.create, .create, .drop 0]) = [1] := by decide

end Redproxy.Props.C16
