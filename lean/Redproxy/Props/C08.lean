import Redproxy.Lemmas.MiluSound
import Redproxy.Model.Cidr
/-!
  C08 — rule-language type soundness.

  Model: `Redproxy/Model/MiluEval.lean` (checker `typeOf`/`realTypeOf`, evaluator `valueOf`/`realValueOf`).

  FULL statement (`Sound`): every expression the checker accepts with type τ evaluates, for every request, to a
  value of type τ or to one of the inherently dynamic errors; never a panic, never a type error.
  On the current code `Sound` is FALSE: `sound_fails_any` and `sound_fails_scope_hash` below are kernel-checked
  counterexamples (both are replayed on the real evaluator by the correspondence run and are listed as open
  findings C08-any and C08-sbhash).  What is proved for ALL expressions of the scalar fragment (`scalar`:
  literals, request attributes, all unary and binary operators incl. the lazy boolean ones, comparisons, regex
  match, conditionals, to_string / to_integer / cidr_match), all requests, all regex and CIDR oracles and all fuel
  is `sound_scalar`.  Programs with `let`, arrays, tuples, indexing and membership are covered by the
  correspondence of the executable model with the implementation, not by a theorem (`Sound_partial`).
-/
set_option linter.unusedSimpArgs false
namespace Redproxy.Props.C08
open Redproxy.MiluEval

/-- the ports of a request are u16 values -/
def ReqOk (q : Req) : Prop := inRange q.srcPort = true ∧ inRange q.tgtPort = true

/-- FULL statement of the property on the model (false today, see the witnesses below) -/
def Sound : Prop :=
  ∀ (x : Ext) (q : Req) (e : Expr) (f f' : Nat) (τ : Ty), ReqOk q →
    typeOf f [] e = .ok τ →
      match valueOf x q f' [] e with
      | .ok v => (match v, τ with
          | .int _, .int | .bool _, .bool | .str _, .str | .arr _, .arr _ | .tup _, .tup _ => True
          | .request, .request | .target, .target | .source, .source | .sb _ _, .sb _ _ | .callable _, .callable _ => True
          | _, _ => False)
      | .err k => k.dynamic = true
      | .panic _ => False
      | .fuel => True

private theorem A_lit_int (x : Ext) (q : Req) (f' f : Nat) (n : Int) (τ : Ty) (hs : scalar (.int n) = true)
    (ht : typeOf f [] (.int n) = .ok τ) : Good (valueOf x q (f' + 1) [] (.int n)) τ := by
  cases f with
  | zero => simp [typeOf] at ht
  | succ f =>
    simp only [typeOf] at ht
    injection ht with ht
    subst ht
    simp only [valueOf]
    exact good_int (by simpa [scalar] using hs)

private theorem A_un (x : Ext) (q : Req) (f' : Nat)
    (ihB : ∀ e f τ, scalar e = true → realTypeOf f [] e = .ok τ → Good (realValueOf x q f' [] e) τ)
    (op : UnOp) (a : Expr) (f : Nat) (τ : Ty) (hs : scalar (.un op a) = true)
    (ht : typeOf f [] (.un op a) = .ok τ) : Good (valueOf x q (f' + 1) [] (.un op a)) τ := by
  cases f with
  | zero => simp [typeOf] at ht
  | succ f =>
    simp only [typeOf] at ht
    obtain ⟨t, h1, h2⟩ := bind_ok ht
    simp only [scalar] at hs
    have ih := ihB a f t hs h1
    simp only [valueOf]
    split at h2
    · rename_i hc
      simp only [pure] at h2
      injection h2 with h2
      subst h2
      refine good_bind ih ?_
      intro v hv
      cases op with
      | not =>
        rcases compat_bool hc with rfl | rfl
        · obtain ⟨b, rfl⟩ := wt_bool hv
          simp [asBool, bind, pure, Good, wt, unSig]
        · simp [wt_any] at hv
      | bitNot =>
        rcases compat_int hc with rfl | rfl
        · obtain ⟨n, rfl, hn⟩ := wt_int hv
          simp only [asInt, bind, pure, unSig]
          apply good_int
          rw [inRange_iff] at *
          omega
        · simp [wt_any] at hv
      | neg =>
        rcases compat_int hc with rfl | rfl
        · obtain ⟨n, rfl, hn⟩ := wt_int hv
          simp only [asInt, bind, unSig]
          exact chk_good _ _ rfl
        · simp [wt_any] at hv
    · simp at h2

/-- a binary builtin whose signature accepts the operand types: the operands have the declared shapes -/
private theorem binSig_inv (op : BinOp) (va vb : Val) (ta tb τ : Ty)
    (ha : wt va ta = true) (hb : wt vb tb = true) (hsig : binSig op ta tb = .ok τ) :
    (op.kind = .arith → ∃ na nb, va = .int na ∧ vb = .int nb ∧ inRange na = true ∧ τ = .int) ∧
    (op.kind = .logic → ∃ ba bb, va = .bool ba ∧ vb = .bool bb ∧ τ = .bool) ∧
    (op.kind = .like → ∃ sa sb, va = .str sa ∧ vb = .str sb ∧ τ = .bool) ∧
    (op.kind = .compare → τ = .bool ∧
        ((∃ a b, va = .int a ∧ vb = .int b) ∨ (∃ a b, va = .str a ∧ vb = .str b) ∨ (∃ a b, va = .bool a ∧ vb = .bool b))) := by
  unfold binSig at hsig
  refine ⟨?_, ?_, ?_, ?_⟩
  · intro hk
    rw [hk] at hsig
    simp only at hsig
    split at hsig
    · simp at hsig
    · split at hsig
      · simp at hsig
      · rename_i h1 h2
        simp only [Bool.not_eq_true', Bool.not_eq_false, Bool.not_eq_true, Bool.not_eq_eq_eq_not, Bool.not_true] at h1 h2
        rcases compat_int h1 with rfl | rfl
        · rcases compat_int h2 with rfl | rfl
          · obtain ⟨na, rfl, hna⟩ := wt_int ha
            obtain ⟨nb, rfl, _⟩ := wt_int hb
            injection hsig with hsig
            exact ⟨na, nb, rfl, rfl, hna, hsig.symm⟩
          · simp [wt_any] at hb
        · simp [wt_any] at ha
  · intro hk
    rw [hk] at hsig
    simp only at hsig
    split at hsig
    · simp at hsig
    · split at hsig
      · simp at hsig
      · rename_i h1 h2
        simp only [Bool.not_eq_true', Bool.not_eq_false, Bool.not_eq_true, Bool.not_eq_eq_eq_not, Bool.not_true] at h1 h2
        rcases compat_bool h1 with rfl | rfl
        · rcases compat_bool h2 with rfl | rfl
          · obtain ⟨ba, rfl⟩ := wt_bool ha
            obtain ⟨bb, rfl⟩ := wt_bool hb
            injection hsig with hsig
            exact ⟨ba, bb, rfl, rfl, hsig.symm⟩
          · simp [wt_any] at hb
        · simp [wt_any] at ha
  · intro hk
    rw [hk] at hsig
    simp only at hsig
    split at hsig
    · simp at hsig
    · split at hsig
      · simp at hsig
      · rename_i h1 h2
        simp only [Bool.not_eq_true', Bool.not_eq_false, Bool.not_eq_true, Bool.not_eq_eq_eq_not, Bool.not_true] at h1 h2
        rcases compat_str h1 with rfl | rfl
        · rcases compat_str h2 with rfl | rfl
          · obtain ⟨sa, rfl⟩ := wt_str ha
            obtain ⟨sb, rfl⟩ := wt_str hb
            injection hsig with hsig
            exact ⟨sa, sb, rfl, rfl, hsig.symm⟩
          · simp [wt_any] at hb
        · simp [wt_any] at ha
  · intro hk
    rw [hk] at hsig
    simp only at hsig
    split at hsig
    · rename_i hc
      injection hsig with hsig
      refine ⟨hsig.symm, ?_⟩
      simp only [Bool.and_eq_true] at hc
      obtain ⟨⟨hc1, hs1⟩, hs2⟩ := hc
      cases va <;> cases ta <;> simp [wt] at ha <;> cases vb <;> cases tb <;> simp [wt] at hb <;>
        simp [Ty.compat, isScalarTy] at hc1 hs1 hs2 <;> simp
    · simp at hsig

/-- the strict binary builtins are sound -/
private theorem binStrict_good (x : Ext) (op : BinOp) (va vb : Val) (ta tb τ : Ty)
    (ha : wt va ta = true) (hb : wt vb tb = true) (hsig : binSig op ta tb = .ok τ) :
    Good (binStrict x op va vb) τ := by
  obtain ⟨h1, h2, h3, h4⟩ := binSig_inv op va vb ta tb τ ha hb hsig
  unfold binStrict
  cases hk : op.kind with
  | arith =>
    obtain ⟨na, nb, rfl, rfl, hna, rfl⟩ := h1 hk
    simp only [asInt, bind]
    exact arith_good op na nb hk hna
  | logic =>
    obtain ⟨ba, bb, rfl, rfl, rfl⟩ := h2 hk
    simp [asBool, bind, pure, Good, wt]
  | like =>
    obtain ⟨sa, sb, rfl, rfl, rfl⟩ := h3 hk
    simp only [asStr, bind]
    split
    · simp [pure, Good, wt]
    · exact good_err_dyn rfl
  | compare =>
    obtain ⟨rfl, h⟩ := h4 hk
    rcases h with ⟨a, b, rfl, rfl⟩ | ⟨a, b, rfl, rfl⟩ | ⟨a, b, rfl, rfl⟩ <;> simp [pure, Good, wt]

private theorem binSig_logic (op : BinOp) (ta tb τ : Ty) (hk : op.kind = .logic) (hsig : binSig op ta tb = .ok τ) :
    (ta = .bool ∨ ta = .any) ∧ (tb = .bool ∨ tb = .any) ∧ τ = .bool := by
  unfold binSig at hsig
  rw [hk] at hsig
  simp only at hsig
  split at hsig
  · simp at hsig
  · split at hsig
    · simp at hsig
    · rename_i h1 h2
      simp only [Bool.not_eq_true', Bool.not_eq_false, Bool.not_eq_true, Bool.not_eq_eq_eq_not, Bool.not_true] at h1 h2
      injection hsig with hsig
      exact ⟨compat_bool h1, compat_bool h2, hsig.symm⟩

/-- a value of a type that is `bool` or `any` is a boolean -/
private theorem bool_of {v : Val} {t : Ty} (ht : t = .bool ∨ t = .any) (hv : wt v t = true) : ∃ b, v = .bool b := by
  rcases ht with rfl | rfl
  · exact wt_bool hv
  · simp [wt_any] at hv

private theorem A_bin (x : Ext) (q : Req) (f' : Nat)
    (ihB : ∀ e f τ, scalar e = true → realTypeOf f [] e = .ok τ → Good (realValueOf x q f' [] e) τ)
    (op : BinOp) (a b : Expr) (f : Nat) (τ : Ty) (hs : scalar (.bin op a b) = true)
    (ht : typeOf f [] (.bin op a b) = .ok τ) : Good (valueOf x q (f' + 1) [] (.bin op a b)) τ := by
  cases f with
  | zero => simp [typeOf] at ht
  | succ f =>
    simp only [typeOf] at ht
    obtain ⟨ta, h1, ht⟩ := bind_ok ht
    obtain ⟨tb, h2, hsig⟩ := bind_ok ht
    simp only [scalar, Bool.and_eq_true] at hs
    have iha := ihB a f ta hs.1 h1
    have ihb := ihB b f tb hs.2 h2
    -- the strict shape, shared by every operator that is not and / or / xor
    have strict : Good (do
        let va ← realValueOf x q f' [] a
        let vb ← realValueOf x q f' [] b
        binStrict x op va vb) τ := by
      refine good_bind iha ?_
      intro va hva
      refine good_bind ihb ?_
      intro vb hvb
      exact binStrict_good x op va vb ta tb τ hva hvb hsig
    cases op <;> simp only [valueOf] <;> try exact strict
    all_goals
      obtain ⟨hta, htb, rfl⟩ := binSig_logic _ ta tb τ rfl hsig
      refine good_bind iha ?_
      intro va hva
      obtain ⟨ba, rfl⟩ := bool_of hta hva
      simp only [asBool, bind]
    · -- and: the right operand is evaluated only when the left one is true
      cases ba
      · simp [pure, Good, wt]
      · simp only [Bool.not_true, Bool.false_eq_true, if_false]
        refine good_bind ihb ?_
        intro vb hvb
        obtain ⟨bb, rfl⟩ := bool_of htb hvb
        simp [asBool, bind, pure, Good, wt]
    · -- or
      cases ba
      · simp only [Bool.false_eq_true, if_false]
        refine good_bind ihb ?_
        intro vb hvb
        obtain ⟨bb, rfl⟩ := bool_of htb hvb
        simp [asBool, bind, pure, Good, wt]
      · simp [pure, Good, wt]
    · -- xor
      refine good_bind ihb ?_
      intro vb hvb
      obtain ⟨bb, rfl⟩ := bool_of htb hvb
      simp [asBool, bind, pure, Good, wt]

private theorem A_ite (x : Ext) (q : Req) (f' : Nat)
    (hsimple : ∀ e f τ, scalar e = true → typeOf f [] e = .ok τ → simple τ = true)
    (ihA : ∀ e f τ, scalar e = true → typeOf f [] e = .ok τ → Good (valueOf x q f' [] e) τ)
    (c y n : Expr) (f : Nat) (τ : Ty) (hs : scalar (.ite c y n) = true)
    (ht : typeOf f [] (.ite c y n) = .ok τ) : Good (valueOf x q (f' + 1) [] (.ite c y n)) τ := by
  cases f with
  | zero => simp [typeOf] at ht
  | succ f =>
    simp only [typeOf] at ht
    obtain ⟨tc, h1, ht⟩ := bind_ok ht
    obtain ⟨ty, h2, ht⟩ := bind_ok ht
    obtain ⟨tn, h3, ht⟩ := bind_ok ht
    simp only [scalar, Bool.and_eq_true] at hs
    obtain ⟨⟨hsc, hsy⟩, hsn⟩ := hs
    split at ht
    · simp at ht
    · split at ht
      · simp at ht
      · rename_i hc1 hc2
        simp only [Bool.not_eq_true', Bool.not_eq_false, Bool.not_eq_true, Bool.not_eq_eq_eq_not, Bool.not_true] at hc1 hc2
        simp only [pure] at ht
        injection ht with ht
        subst ht
        have e1 : ty = tn := compat_simple (hsimple y f ty hsy h2) (hsimple n f tn hsn h3) hc2
        subst e1
        simp only [valueOf]
        refine good_bind (ihA c f tc hsc h1) ?_
        intro vc hvc
        rcases compat_bool' hc1 with rfl | rfl
        · obtain ⟨b, rfl⟩ := wt_bool hvc
          simp only [asBool, bind]
          cases b
          · simpa using ihA n f ty hsn h3
          · simpa using ihA y f ty hsy h2
        · simp [wt_any] at hvc

/-- the type of `request.<n>` -/
private theorem typeOf_access1 (f : Nat) (n : Str) (τ : Ty)
    (ht : typeOf f [] (.access (.ident "request".toList) (.ident n)) = .ok τ) :
    (τ = .str ∧ (n = "listener".toList ∨ n = "connector".toList ∨ n = "feature".toList)) ∨
    (τ = .target ∧ n = "target".toList) ∨ (τ = .source ∧ n = "source".toList) := by
  cases f with
  | zero => simp [typeOf] at ht
  | succ f =>
    cases f with
    | zero => simp [typeOf, bind] at ht
    | succ f =>
      simp only [typeOf, lookup_request, bind, tyOfNative, pure] at ht
      split at ht
      · rename_i h
        injection ht with ht
        simp only [Bool.or_eq_true, beq_iff_eq] at h
        exact Or.inl ⟨ht.symm, by rcases h with (h | h) | h <;> simp [h]⟩
      · split at ht
        · rename_i h
          injection ht with ht
          simp only [beq_iff_eq] at h
          exact Or.inr (Or.inl ⟨ht.symm, h⟩)
        · split at ht
          · rename_i h
            injection ht with ht
            simp only [beq_iff_eq] at h
            exact Or.inr (Or.inr ⟨ht.symm, h⟩)
          · cases ht

/-- the value of `request.<n>` -/
private theorem valueOf_access1 (x : Ext) (q : Req) (f' : Nat) (n : Str) (τ : Ty)
    (h : (τ = .str ∧ (n = "listener".toList ∨ n = "connector".toList ∨ n = "feature".toList)) ∨
      (τ = .target ∧ n = "target".toList) ∨ (τ = .source ∧ n = "source".toList)) :
    Good (valueOf x q f' [] (.access (.ident "request".toList) (.ident n))) τ := by
  cases f' with
  | zero => simp [valueOf, Good]
  | succ f' =>
    cases f' with
    | zero => simp [valueOf, bind, Good]
    | succ f' =>
      simp only [valueOf, lookup_request, bind, pure]
      rcases h with ⟨rfl, h | h | h⟩ | ⟨rfl, h⟩ | ⟨rfl, h⟩ <;> subst h <;> simp [Good, wt]

/-- `<address object>.<n>` for a value that is the target or the source address -/
private theorem addr_field (q : Req) (hq : ReqOk q) (n : Str) (τ : Ty)
    (ht : (if (n == "host".toList || n == "type".toList) = true then (pure Ty.str : R Ty)
      else if (n == "port".toList) = true then pure Ty.int else R.err EK.undefined) = R.ok τ) :
    Good (if (n == "host".toList) = true then pure (Val.str q.tgtHost)
      else if (n == "port".toList) = true then pure (Val.int q.tgtPort)
      else if (n == "type".toList) = true then pure (Val.str q.tgtType) else R.err EK.undefined) τ ∧
    Good (if (n == "host".toList) = true then pure (Val.str q.srcHost)
      else if (n == "port".toList) = true then pure (Val.int q.srcPort)
      else if (n == "type".toList) = true then pure (Val.str q.srcType) else R.err EK.undefined) τ := by
  split at ht
  · rename_i h
    injection ht with ht; subst ht
    simp only [Bool.or_eq_true, beq_iff_eq] at h
    rcases h with h | h <;> subst h <;> simp [Good, wt, pure]
  · split at ht
    · rename_i h
      injection ht with ht; subst ht
      simp only [beq_iff_eq] at h
      subst h
      simp [Good, wt, pure, hq.1, hq.2]
    · cases ht

private theorem A_access (x : Ext) (q : Req) (hq : ReqOk q) (f' : Nat)
    (a fld : Expr) (f : Nat) (τ : Ty) (hs : scalar (.access a fld) = true)
    (ht : typeOf f [] (.access a fld) = .ok τ) : Good (valueOf x q (f' + 1) [] (.access a fld)) τ := by
  cases a <;> cases fld <;> (try (simp [scalar] at hs; done))
  · -- request.<n>
    rename_i r n
    have hr : r = "request".toList := by simpa [scalar] using hs
    subst hr
    exact valueOf_access1 x q (f' + 1) n τ (typeOf_access1 f n τ ht)
  · -- request.<m>.<n>
    rename_i a2 f2 n
    cases a2 <;> cases f2 <;> (try (simp [scalar] at hs; done))
    rename_i r m
    have hr : r = "request".toList := by simpa [scalar] using hs
    subst hr
    cases f with
    | zero => simp [typeOf] at ht
    | succ f =>
      simp only [typeOf] at ht
      obtain ⟨t1, h1, ht⟩ := bind_ok ht
      have hin := typeOf_access1 f m t1 h1
      simp only [valueOf]
      refine good_bind (valueOf_access1 x q f' m t1 hin) ?_
      intro v1 hv1
      rcases hin with ⟨rfl, _⟩ | ⟨rfl, _⟩ | ⟨rfl, _⟩
      · cases ht
      · cases v1 <;> simp [wt] at hv1
        exact (addr_field q hq n τ ht).1
      · cases v1 <;> simp [wt] at hv1
        exact (addr_field q hq n τ ht).2

private theorem lookup_fn (g : Str) (h : g = "to_string".toList ∨ g = "to_integer".toList ∨ g = "cidr_match".toList) :
    lookup g [] = .ok (.callable g) := by
  rcases h with rfl | rfl | rfl <;> simp [lookup, globals]

private theorem parseDigits_inRange (neg : Bool) (s : Str) (n : Int) (h : parseDigits neg s = some n) : inRange n = true := by
  unfold parseDigits at h
  cases neg <;> simp only [Bool.false_eq_true, if_false, if_true] at h <;>
    (by_cases h1 : (s.isEmpty || !s.all isDigit) = true
     · rw [if_pos h1] at h; cases h
     · rw [if_neg h1] at h
       split at h
       · injection h with h; subst h; assumption
       · cases h)

private theorem parseI64_inRange (s : Str) (n : Int) (h : parseI64 s = some n) : inRange n = true := by
  unfold parseI64 at h
  split at h <;> exact parseDigits_inRange _ _ _ h

private theorem A_call (x : Ext) (q : Req) (f' : Nat)
    (ihB : ∀ e f τ, scalar e = true → realTypeOf f [] e = .ok τ → Good (realValueOf x q f' [] e) τ)
    (g : Str) (args : List Expr) (f : Nat) (τ : Ty) (hs : scalar (.call g args) = true)
    (ht : typeOf f [] (.call g args) = .ok τ) : Good (valueOf x q (f' + 1) [] (.call g args)) τ := by
  cases f with
  | zero => simp [typeOf] at ht
  | succ f =>
    match args, hs with
    | [a], hs =>
      simp only [scalar, Bool.and_eq_true, Bool.or_eq_true, beq_iff_eq] at hs
      obtain ⟨hg, hsa⟩ := hs
      have hl : lookup g [] = .ok (.callable g) := lookup_fn g (by rcases hg with h | h <;> simp [h])
      simp only [typeOf, hl, bind] at ht
      simp only [valueOf, hl, bind]
      rcases hg with rfl | rfl
      · -- to_string
        have hsig : fnSig "to_string".toList = some ([.any], .str) := by simp [fnSig]
        simp only [hsig, List.length_cons, List.length_nil, bne_self_eq_false, Bool.false_eq_true, if_false, mapR] at ht ⊢
        cases hta : realTypeOf f [] a <;> simp only [hta] at ht <;> (try (cases ht; done))
        rename_i ta
        split at ht
        · injection ht with ht; subst ht
          have ih := ihB a f ta hsa hta
          cases hv : realValueOf x q f' [] a <;> simp only [hv] at ih ⊢
          · simp [Good, wt, pure]
          · exact ih
          · exact ih
          · trivial
        · cases ht
      · -- to_integer
        have hsig : fnSig "to_integer".toList = some ([.str], .int) := by simp [fnSig]
        simp only [hsig, List.length_cons, List.length_nil, bne_self_eq_false, Bool.false_eq_true, if_false, mapR] at ht ⊢
        cases hta : realTypeOf f [] a <;> simp only [hta] at ht <;> (try (cases ht; done))
        rename_i ta
        split at ht
        · rename_i hc
          injection ht with ht; subst ht
          simp only [checkArgs, Bool.and_true] at hc
          have ih := ihB a f ta hsa hta
          cases hv : realValueOf x q f' [] a <;> simp only [hv] at ih ⊢
          · rename_i va
            rcases compat_str hc with rfl | rfl
            · obtain ⟨sa, rfl⟩ := wt_str ih
              have e1 : ("to_integer".toList == "to_string".toList) = false := by decide
              have e2 : ("to_integer".toList == "to_integer".toList) = true := by decide
              simp only [e1, e2, Bool.false_eq_true, if_false, if_true, asStr]
              cases hp : parseI64 sa
              · exact good_err_dyn rfl
              · exact good_int (parseI64_inRange sa _ hp)
            · simp [Good, wt_any] at ih
          · exact ih
          · exact ih
          · trivial
        · cases ht
    | [a, b], hs =>
      simp only [scalar, Bool.and_eq_true, beq_iff_eq] at hs
      obtain ⟨⟨rfl, hsa⟩, hsb⟩ := hs
      have hl : lookup "cidr_match".toList [] = .ok (.callable "cidr_match".toList) := lookup_fn _ (by simp)
      have hsig : fnSig "cidr_match".toList = some ([.str, .str], .bool) := by simp [fnSig]
      simp only [typeOf, hl, bind, hsig, List.length_cons, List.length_nil, bne_self_eq_false, Bool.false_eq_true, if_false, mapR] at ht
      simp only [valueOf, hl, bind, hsig, List.length_cons, List.length_nil, bne_self_eq_false, Bool.false_eq_true, if_false, mapR]
      cases hta : realTypeOf f [] a <;> simp only [hta] at ht <;> (try (cases ht; done))
      rename_i ta
      cases htb : realTypeOf f [] b <;> simp only [htb] at ht <;> (try (cases ht; done))
      rename_i tb
      split at ht
      · rename_i hc
        injection ht with ht; subst ht
        simp only [checkArgs, Bool.and_true, Bool.and_eq_true] at hc
        have iha := ihB a f ta hsa hta
        have ihb := ihB b f tb hsb htb
        cases hva : realValueOf x q f' [] a <;> simp only [hva] at iha ⊢
        · rename_i va
          cases hvb : realValueOf x q f' [] b <;> simp only [hvb] at ihb ⊢
          · rename_i vb
            rcases compat_str hc.1 with rfl | rfl
            · rcases compat_str hc.2 with rfl | rfl
              · obtain ⟨sa, rfl⟩ := wt_str iha
                obtain ⟨sb, rfl⟩ := wt_str ihb
                have e1 : ("cidr_match".toList == "split".toList) = false := by decide
                have e2 : ("cidr_match".toList == "cidr_match".toList) = true := by decide
                simp [e1, e2, asStr, pure, Good, wt]
              · simp [Good, wt_any] at ihb
            · simp [Good, wt_any] at iha
          · exact ihb
          · exact ihb
          · trivial
        · exact iha
        · exact iha
        · trivial
      · cases ht
    | [], hs => simp [scalar] at hs
    | _ :: _ :: _ :: _, hs => simp [scalar] at hs

/-- the checker gives every expression of the scalar fragment one of the six scalar / address types -/
private theorem simple_aux : ∀ f : Nat,
    (∀ e τ, scalar e = true → typeOf f [] e = .ok τ → simple τ = true) ∧
    (∀ e τ, scalar e = true → realTypeOf f [] e = .ok τ → simple τ = true) := by
  intro f
  induction f with
  | zero => exact ⟨fun e τ _ ht => by simp [typeOf] at ht, fun e τ _ ht => by simp [realTypeOf] at ht⟩
  | succ f ih =>
    obtain ⟨ihA, ihB⟩ := ih
    refine ⟨?_, ?_⟩
    · intro e τ hs ht
      cases e with
      | int n => simp only [typeOf] at ht; injection ht with ht; subst ht; rfl
      | bool b => simp only [typeOf] at ht; injection ht with ht; subst ht; rfl
      | str s => simp only [typeOf] at ht; injection ht with ht; subst ht; rfl
      | ident x => simp [scalar] at hs
      | arr xs => simp [scalar] at hs
      | tup xs => simp [scalar] at hs
      | un op a =>
        simp only [typeOf] at ht
        obtain ⟨t, _, h2⟩ := bind_ok ht
        split at h2
        · simp only [pure] at h2; injection h2 with h2; subst h2; cases op <;> rfl
        · cases h2
      | bin op a b =>
        simp only [typeOf] at ht
        obtain ⟨ta, _, ht⟩ := bind_ok ht
        obtain ⟨tb, _, hsig⟩ := bind_ok ht
        exact binSig_simple op ta tb τ hsig
      | ite c y n =>
        simp only [typeOf] at ht
        obtain ⟨tc, _, ht⟩ := bind_ok ht
        obtain ⟨ty, h2, ht⟩ := bind_ok ht
        obtain ⟨tn, _, ht⟩ := bind_ok ht
        simp only [scalar, Bool.and_eq_true] at hs
        split at ht
        · cases ht
        · split at ht
          · cases ht
          · simp only [pure] at ht; injection ht with ht; subst ht
            exact ihA y ty hs.1.2 h2
      | index a i => simp [scalar] at hs
      | member a b => simp [scalar] at hs
      | letE bs b => simp [scalar] at hs
      | access a fld =>
        cases a <;> cases fld <;> (try (simp [scalar] at hs; done))
        · rename_i r n
          have hr : r = "request".toList := by simpa [scalar] using hs
          subst hr
          rcases typeOf_access1 (f + 1) n τ ht with ⟨rfl, _⟩ | ⟨rfl, _⟩ | ⟨rfl, _⟩ <;> rfl
        · rename_i a2 f2 n
          cases a2 <;> cases f2 <;> (try (simp [scalar] at hs; done))
          rename_i r m
          have hr : r = "request".toList := by simpa [scalar] using hs
          subst hr
          simp only [typeOf] at ht
          obtain ⟨t1, h1, ht⟩ := bind_ok ht
          rcases typeOf_access1 f m t1 h1 with ⟨rfl, _⟩ | ⟨rfl, _⟩ | ⟨rfl, _⟩
          · cases ht
          all_goals
            simp only [] at ht
            (repeat' split at ht) <;> first | (cases ht; done) | (simp only [pure] at ht; injection ht with ht; subst ht; rfl)
      | call g args =>
        match args, hs with
        | [a], hs =>
          simp only [scalar, Bool.and_eq_true, Bool.or_eq_true, beq_iff_eq] at hs
          obtain ⟨hg, _⟩ := hs
          have hl : lookup g [] = .ok (.callable g) := lookup_fn g (by rcases hg with h | h <;> simp [h])
          simp only [typeOf, hl, bind] at ht
          rcases hg with rfl | rfl
          · have hsig : fnSig "to_string".toList = some ([.any], .str) := by simp [fnSig]
            simp only [hsig, List.length_cons, List.length_nil, bne_self_eq_false, Bool.false_eq_true, if_false, mapR] at ht
            cases hta : realTypeOf f [] a <;> simp only [hta] at ht <;> (try (cases ht; done))
            split at ht
            · injection ht with ht; subst ht; rfl
            · cases ht
          · have hsig : fnSig "to_integer".toList = some ([.str], .int) := by simp [fnSig]
            simp only [hsig, List.length_cons, List.length_nil, bne_self_eq_false, Bool.false_eq_true, if_false, mapR] at ht
            cases hta : realTypeOf f [] a <;> simp only [hta] at ht <;> (try (cases ht; done))
            split at ht
            · injection ht with ht; subst ht; rfl
            · cases ht
        | [a, b], hs =>
          simp only [scalar, Bool.and_eq_true, beq_iff_eq] at hs
          obtain ⟨⟨rfl, _⟩, _⟩ := hs
          have hl : lookup "cidr_match".toList [] = .ok (.callable "cidr_match".toList) := lookup_fn _ (by simp)
          have hsig : fnSig "cidr_match".toList = some ([.str, .str], .bool) := by simp [fnSig]
          simp only [typeOf, hl, bind, hsig, List.length_cons, List.length_nil, bne_self_eq_false, Bool.false_eq_true, if_false, mapR] at ht
          cases hta : realTypeOf f [] a <;> simp only [hta] at ht <;> (try (cases ht; done))
          cases htb : realTypeOf f [] b <;> simp only [htb] at ht <;> (try (cases ht; done))
          split at ht
          · injection ht with ht; subst ht; rfl
          · cases ht
        | [], hs => simp [scalar] at hs
        | _ :: _ :: _ :: _, hs => simp [scalar] at hs
    · intro e τ hs ht
      simp only [realTypeOf] at ht
      obtain ⟨t, h1, h2⟩ := bind_ok ht
      have hst := ihA e t hs h1
      cases t <;> simp [simple] at hst <;> simp only [pure] at h2 <;> injection h2 with h2 <;> subst h2 <;> rfl

/-- the induction: `valueOf` and `realValueOf` are sound on the scalar fragment, at every evaluation fuel -/
private theorem sound_aux (x : Ext) (q : Req) (hq : ReqOk q) : ∀ f' : Nat,
    (∀ e f τ, scalar e = true → typeOf f [] e = .ok τ → Good (valueOf x q f' [] e) τ) ∧
    (∀ e f τ, scalar e = true → realTypeOf f [] e = .ok τ → Good (realValueOf x q f' [] e) τ) := by
  intro f'
  induction f' with
  | zero => exact ⟨fun e f τ _ _ => by simp [valueOf, Good], fun e f τ _ _ => by simp [realValueOf, Good]⟩
  | succ f' ih =>
    obtain ⟨ihA, ihB⟩ := ih
    refine ⟨?_, ?_⟩
    · intro e f τ hs ht
      cases e with
      | int n => exact A_lit_int x q f' f n τ hs ht
      | bool b =>
        cases f with
        | zero => simp [typeOf] at ht
        | succ f => simp only [typeOf] at ht; injection ht with ht; subst ht; simp [valueOf, Good, wt]
      | str s =>
        cases f with
        | zero => simp [typeOf] at ht
        | succ f => simp only [typeOf] at ht; injection ht with ht; subst ht; simp [valueOf, Good, wt]
      | ident x => simp [scalar] at hs
      | arr xs => simp [scalar] at hs
      | tup xs => simp [scalar] at hs
      | un op a => exact A_un x q f' ihB op a f τ hs ht
      | bin op a b => exact A_bin x q f' ihB op a b f τ hs ht
      | ite c y n => exact A_ite x q f' (fun e f τ hs ht => (simple_aux f).1 e τ hs ht) ihA c y n f τ hs ht
      | index a i => simp [scalar] at hs
      | access a fld => exact A_access x q hq f' a fld f τ hs ht
      | member a b => simp [scalar] at hs
      | letE bs b => simp [scalar] at hs
      | call g args => exact A_call x q f' ihB g args f τ hs ht
    · intro e f τ hs ht
      cases f with
      | zero => simp [realTypeOf] at ht
      | succ f =>
        simp only [realTypeOf] at ht
        obtain ⟨t, h1, h2⟩ := bind_ok ht
        have hst := (simple_aux f).1 e t hs h1
        have ih := ihA e f t hs h1
        simp only [realValueOf]
        refine good_bind ih ?_
        intro v hv
        cases t <;> simp [simple] at hst <;> simp only [pure] at h2 <;> injection h2 with h2 <;> subst h2 <;>
          cases v <;> simp [wt] at hv <;> simp [Good, wt, pure, hv]

/-- **C08, scalar fragment.**  For every regex / CIDR oracle, every request, every expression of the scalar
    fragment and every fuel: if the checker accepts the expression with type τ, evaluation yields a value of type
    τ or an inherently dynamic error (overflow, division by zero, shift range, invalid regex, non-numeric string) —
    never a panic and never a type error. -/
theorem sound_scalar (x : Ext) (q : Req) (hq : ReqOk q) (e : Expr) (hs : scalar e = true) (f f' : Nat) (τ : Ty)
    (ht : typeOf f [] e = .ok τ) : Good (valueOf x q f' [] e) τ :=
  (sound_aux x q hq f').1 e f τ hs ht

/-- the same for the positions that unwrap address objects (`real_value_of`: the load-balancer key) -/
theorem sound_scalar_real (x : Ext) (q : Req) (hq : ReqOk q) (e : Expr) (hs : scalar e = true) (f f' : Nat) (τ : Ty)
    (ht : realTypeOf f [] e = .ok τ) : Good (realValueOf x q f' [] e) τ :=
  (sound_aux x q hq f').2 e f τ hs ht

/-- what `Filter::evaluate` does with an accepted rule filter: the value is a boolean (so `try_into::<bool>`
    succeeds) or the evaluation fails with a dynamic error (the rule then counts as not matching) -/
theorem rule_filter_sound (x : Ext) (q : Req) (hq : ReqOk q) (e : Expr) (hs : scalar e = true) (f f' : Nat)
    (ht : typeOf f [] e = .ok .bool) :
    (∃ b, valueOf x q f' [] e = .ok (.bool b)) ∨ (∃ k, valueOf x q f' [] e = .err k ∧ k.dynamic = true) ∨
      valueOf x q f' [] e = .fuel := by
  have h := sound_scalar x q hq e hs f f' .bool ht
  cases hv : valueOf x q f' [] e with
  | ok v => rw [hv] at h; obtain ⟨b, rfl⟩ := wt_bool h; exact Or.inl ⟨b, rfl⟩
  | err k => rw [hv] at h; exact Or.inr (Or.inl ⟨k, rfl, h⟩)
  | panic s => rw [hv] at h; exact h.elim
  | fuel => exact Or.inr (Or.inr rfl)

/-! ### non-vacuity: concrete accepted programs of the fragment, and their evaluation -/
private def x0 : Ext := { re := fun _ _ => some true, cidr := fun _ _ => false }
private def q0 : Req :=
  { listener := [], connector := [], feature := [], srcHost := [], srcPort := 1, srcType := [], srcText := [],
    tgtHost := ['a'], tgtPort := 443, tgtType := [], tgtText := [] }
/-- `request.target.port == 443 && !(request.target.host =~ "x") || 1 / 0 > 2` -/
private def ePort : Expr :=
  .bin .or
    (.bin .and
      (.bin .eq (.access (.access (.ident "request".toList) (.ident "target".toList)) (.ident "port".toList)) (.int 443))
      (.un .not (.bin .like (.access (.access (.ident "request".toList) (.ident "target".toList)) (.ident "host".toList)) (.str ['x']))))
    (.bin .gt (.bin .div (.int 1) (.int 0)) (.int 2))
example : ReqOk q0 := ⟨by decide, by decide⟩
example : scalar ePort = true := by decide
example : (match typeOf 20 [] ePort with | .ok .bool => true | _ => false) = true := by decide
/-- the lazy `&&` / `||` stop before the division by zero is reached … -/
example : (match valueOf x0 q0 20 [] ePort with | .err .div => true | _ => false) = true := by decide
/-- … and `1 + 9223372036854775807` is accepted and reports overflow (a dynamic error), it does not wrap or trap -/
example : (match valueOf x0 q0 20 [] (.bin .plus (.int 1) (.int 9223372036854775807)) with | .err .overflow => true | _ => false) = true := by decide
example : (match valueOf x0 q0 20 [] (.bin .mod (.bin .minus (.un .neg (.int 9223372036854775807)) (.int 1)) (.un .neg (.int 1))) with
    | .err .div => true | _ => false) = true := by decide

/-! ### the full statement is false on the current code: kernel-checked counterexamples -/
/-- `[[],["a"]][1][0] + 1` -/
private def eAny : Expr := .bin .plus (.index (.index (.arr [.arr [], .arr [.str ['a']]]) (.int 1)) (.int 0)) (.int 1)

/-- open finding C08-any: the `any` element type of `[]` makes `[[],["a"]]` an array of arrays of anything -/
theorem sound_fails_any : ¬ Sound := by
  intro h
  have h1 := h x0 q0 eAny 20 20 .int ⟨by decide, by decide⟩ (by rfl)
  rw [show valueOf x0 q0 20 [] eAny = .err .type from by rfl] at h1
  simp [EK.dynamic] at h1

/-- `(if false then (let x = 1 in let a = [x][0] in a) else (let x = "s" in let a = [x][0] in a)) + 1` -/
private def eHash : Expr :=
  let inner (v : Expr) : Expr :=
    .letE [(['x'], v)] (.letE [(['a'], .index (.arr [.ident ['x']]) (.int 0))] (.ident ['a']))
  .bin .plus (.ite (.bool false) (inner (.int 1)) (inner (.str ['s']))) (.int 1)

/-- open finding C08-sbhash: two `let`-bound names have "the same type" when their binding expressions have the
    same text, whatever their scopes bind -/
theorem sound_fails_scope_hash : ¬ Sound := by
  intro h
  have h1 := h x0 q0 eHash 30 30 .int ⟨by decide, by decide⟩ (by rfl)
  rw [show valueOf x0 q0 30 [] eHash = .err .type from by rfl] at h1
  simp [EK.dynamic] at h1

/-- after the repair 72b10e5 (array / tuple literals evaluate their members in place) these former
    counterexamples are sound: `let x = true in [x][0]` is a boolean … -/
example : (match typeOf 20 [] (.letE [(['x'], .bool true)] (.index (.arr [.ident ['x']]) (.int 0))),
      valueOf x0 q0 20 [] (.letE [(['x'], .bool true)] (.index (.arr [.ident ['x']]) (.int 0))) with
    | .ok .bool, .ok (.bool true) => true | _, _ => false) = true := by decide
/-- … and `(let x = 1 in [x + 1])[0]` no longer leaks the member out of its scope -/
example : (match valueOf x0 q0 20 [] (.index (.letE [(['x'], .int 1)] (.arr [.bin .plus (.ident ['x']) (.int 1)])) (.int 0)) with
    | .ok (.int 2) => true | _ => false) = true := by decide

end Redproxy.Props.C08
