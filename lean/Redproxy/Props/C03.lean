import Redproxy.Model.Frames
import Redproxy.Lemmas.Rd
import Redproxy.Lemmas.RdEval
import Redproxy.Lemmas.AddrText
import Redproxy.Model.Http
import Redproxy.Lemmas.HttpLine
import Redproxy.Lemmas.HttpLineWs
/-!
# C03 — destination integrity through every protocol re-encoding

For every outgoing format K: `roundtrip_K` (a representable destination written by the real writer's
model is recovered exactly by the reader's model, whatever bytes follow) and `refuse_K` (a destination
that does not fit is refused, never truncated or re-split).
-/
namespace Redproxy.Props.C03
open Redproxy Redproxy.Socks

/-- well-formed destination: what a `TargetAddress` value can hold -/
def WF : Addr → Prop
  | .domain h p => utf8Valid h = true ∧ p < 65536
  | .v4 ip p => ip < 4294967296 ∧ p < 65536
  | .v6 ip p => ip.length = 16 ∧ p < 65536
  | .unknown => False

theorem be16_roundtrip (p : Nat) (h : p < 65536) : (p / 256 % 256) * 256 + p % 256 = p := by omega

theorem ip4_roundtrip (ip : Nat) (h : ip < 4294967296) :
    Addr.ip4OfOctets (ip / 16777216 % 256) (ip / 65536 % 256) (ip / 256 % 256) (ip % 256) = ip := by
  unfold Addr.ip4OfOctets; omega

/-! ## SOCKS5 UDP header -/

theorem udp_roundtrip (a : Addr) (body b : Bytes) (hwf : WF a) (h : encodeUdp (some a) body = .ok b) :
    decodeUdp b = .ok (a, body) := by
  cases a with
  | unknown => exact absurd hwf (by simp [WF])
  | v4 ip p =>
    obtain ⟨h1, h2⟩ := hwf
    simp only [encodeUdp, Res.ok.injEq] at h
    subst h
    simp [decodeUdp, Addr.ip4Octets, be16Bytes, ip4_roundtrip ip h1, be16_roundtrip p h2]
  | v6 ip p =>
    obtain ⟨h1, h2⟩ := hwf
    simp only [encodeUdp, Res.ok.injEq] at h
    subst h
    have e1 : ∀ x y, List.take 16 (ip ++ x :: y :: body) = ip := fun x y => List.take_left' h1
    have e2 : ∀ x y, List.drop 16 (ip ++ x :: y :: body) = x :: y :: body := fun x y => List.drop_left' h1
    simp [decodeUdp, be16Bytes, e1, e2, h1, be16_roundtrip p h2]
    omega
  | domain d p =>
    obtain ⟨h1, h2⟩ := hwf
    unfold encodeUdp at h
    by_cases hl : d.length > 255
    · simp [hl] at h
    · simp only [hl, if_false, Res.ok.injEq] at h
      subst h
      have hm : d.length % 256 = d.length := by omega
      have e1 : List.take d.length (d ++ (be16Bytes p ++ body)) = d := List.take_left' rfl
      have e2 : List.drop d.length (d ++ (be16Bytes p ++ body)) = be16Bytes p ++ body := List.drop_left' rfl
      have e3 : ¬ (d ++ (be16Bytes p ++ body)).length < d.length + 2 := by simp [be16Bytes]
      simp only [decodeUdp, List.cons_append, List.nil_append, List.append_assoc, hm]
      have e4 : ¬ body.length + 1 + 1 < 2 := by omega
      simp [e1, e2, h1, be16Bytes, e4, be16_roundtrip p h2]

/-- a host that does not fit the length byte is refused; so is a frame without a usable destination -/
theorem udp_refuse (d : Bytes) (p : Nat) (body : Bytes) (h : d.length > 255) :
    encodeUdp (some (.domain d p)) body = .err "domain too long" := by
  simp [encodeUdp, h]

theorem udp_refuse_none (body : Bytes) :
    encodeUdp none body = .err "not supported addr" ∧ encodeUdp (some .unknown) body = .err "not supported addr" := by
  simp [encodeUdp]

/-! ## RPFM frames -/

theorem decodeAddress_encode (a : Addr) (hwf : WF a)
    (hfit : match a with | .domain h _ => h.length + 2 ≤ 255 | _ => True) :
    Frames.decodeAddress (Frames.encodeAddress (some a)) = .ok (some a) := by
  cases a with
  | unknown => exact absurd hwf (by simp [WF])
  | v4 ip p =>
    obtain ⟨h1, h2⟩ := hwf
    simp [Frames.encodeAddress, Frames.decodeAddress, Addr.ip4Octets, be16Bytes, ip4_roundtrip ip h1, be16_roundtrip p h2]
  | v6 ip p =>
    obtain ⟨h1, h2⟩ := hwf
    have e1 : ∀ x y, List.take 16 (ip ++ [x, y]) = ip := fun x y => List.take_left' h1
    have e2 : ∀ x y, List.drop 16 (ip ++ [x, y]) = [x, y] := fun x y => List.drop_left' h1
    simp [Frames.encodeAddress, Frames.decodeAddress, be16Bytes, e1, e2, h1, be16_roundtrip p h2]
  | domain d p =>
    obtain ⟨h1, h2⟩ := hwf
    simp only at hfit
    have hm : (d.length + 2) % 256 = d.length + 2 := by omega
    have e1 : List.take (d.length + 2 - 2) (d ++ be16Bytes p) = d := by
      have : d.length + 2 - 2 = d.length := by omega
      rw [this]; exact List.take_left' rfl
    have e2 : List.drop (d.length + 2 - 2) (d ++ be16Bytes p) = be16Bytes p := by
      have : d.length + 2 - 2 = d.length := by omega
      rw [this]; exact List.drop_left' rfl
    have e3 : ¬ d.length + 2 > (d ++ be16Bytes p).length := by simp [be16Bytes]
    have e4 : ¬ d.length + 2 < 2 := by omega
    simp only [Frames.encodeAddress, Frames.decodeAddress, List.cons_append, List.nil_append, hm]
    simp [e1, e2, e3, e4, h1, be16Bytes, be16_roundtrip p h2]

theorem decodeAddress_none : Frames.decodeAddress (Frames.encodeAddress none) = .ok none := by
  simp [Frames.encodeAddress, Frames.decodeAddress]

/-- the destination carried by a frame, as far as the wire format is concerned -/
def FrameWF (f : UFrame) : Prop :=
  f.sessionId < 4294967296 ∧ (match f.addr with | none => True | some a => WF a)

theorem encodeAddress_length (a : Option Addr) (hwf : match a with | none => True | some a => WF a) :
    (Frames.encodeAddress a).length < 65536 ∨ (∃ h p, a = some (.domain h p) ∧ h.length + 2 > 255) := by
  cases a with
  | none => left; simp [Frames.encodeAddress]
  | some a =>
    cases a with
    | unknown => left; simp [Frames.encodeAddress]
    | v4 ip p => left; simp [Frames.encodeAddress, Addr.ip4Octets, be16Bytes]
    | v6 ip p => left; simp only at hwf; simp [Frames.encodeAddress, be16Bytes, hwf.1]
    | domain h p =>
      by_cases hl : h.length + 2 > 255
      · right; exact ⟨h, p, rfl, hl⟩
      · left; simp [Frames.encodeAddress, be16Bytes]; omega

/-- RPFM: a frame the writer accepts is read back exactly (destination, session id, body), whatever follows it -/
theorem rpfm_roundtrip (f : UFrame) (b tail : Bytes) (hwf : FrameWF f) (h : Frames.serialize f = some b) :
    Frames.fromBuffer (b ++ tail) = .ok f := by
  obtain ⟨hsid, haddr⟩ := hwf
  unfold Frames.serialize at h
  by_cases henc : Frames.encodable f = true
  · simp only [henc, if_true, Option.some.injEq] at h
    subst h
    unfold Frames.encodable at henc
    simp only [Bool.and_eq_true, decide_eq_true_eq] at henc
    obtain ⟨hfit, hbody⟩ := henc
    -- the attribute decodes to the address
    have hdec : Frames.decodeAddress (Frames.encodeAddress f.addr) = .ok f.addr := by
      cases ha : f.addr with
      | none => exact decodeAddress_none
      | some a =>
        rw [ha] at haddr hfit
        apply decodeAddress_encode a haddr
        cases a <;> simp_all
    have hal : (Frames.encodeAddress f.addr).length < 65536 := by
      cases encodeAddress_length f.addr haddr with
      | inl h => exact h
      | inr h =>
        obtain ⟨hh, pp, e, hl⟩ := h
        rw [e] at hfit
        simp at hfit
        omega
    generalize hattr : Frames.encodeAddress f.addr = attr at hdec hal
    have e1 : List.take attr.length (attr ++ (f.body ++ tail)) = attr := List.take_left' rfl
    have e2 : List.drop attr.length (attr ++ (f.body ++ tail)) = f.body ++ tail := List.drop_left' rfl
    have e3 : List.take f.body.length (f.body ++ tail) = f.body := List.take_left' rfl
    have e16 : ∀ n : Nat, n < 65536 → (n % 65536 / 256 % 256) * 256 + n % 65536 % 256 = n := by
      intro n hn; omega
    have e32 : ∀ n : Nat, n < 4294967296 →
        ((n / 16777216 % 256 * 256 + n / 65536 % 256) * 256 + n / 256 % 256) * 256 + n % 256 = n := by
      intro n hn; omega
    have ea := e16 attr.length hal
    have eb := e16 f.body.length (by omega)
    have es := e32 f.sessionId hsid
    have elen : ¬ (attr ++ (f.body ++ tail)).length < attr.length + f.body.length := by simp
    simp only [Frames.makeHeader, hattr, Frames.magic, Frames.be32Bytes, be16Bytes, List.cons_append, List.nil_append,
      List.append_assoc, Frames.fromBuffer, ea, eb, es]
    simp only [ne_eq, not_true_eq_false, if_false, elen, e1, e2, e3, hdec]
  · simp [henc] at h

/-- RPFM: a host name that does not fit the u8 attribute length (or a body over 65535 bytes) is refused -/
theorem rpfm_refuse (sid p : Nat) (h body : Bytes) (hl : h.length > 253) :
    Frames.serialize { addr := some (.domain h p), sessionId := sid, body := body } = none := by
  have : ¬ h.length + 2 ≤ 255 := by omega
  simp [Frames.serialize, Frames.encodable, this]

/-- non-vacuity: the repository's own test vector, and a 3-character host -/
example : Frames.serialize { addr := some (.v4 16909060 1), sessionId := 1, body := [97, 98] } =
    some [0x52,0x50,0x46,0x4d, 0,0,0,1, 0,8, 0,2, 1,6,1,2,3,4,0,1, 97,98] := by decide
example : FrameWF { addr := some (.domain [97,98,99] 53), sessionId := 1, body := [120] } := by
  simp [FrameWF, WF]; decide

/-! ## SOCKS5 request -/

/-- the address field a SOCKS5 writer emits -/
def addr5 : Addr → Bytes
  | .domain d p => 3 :: (d.length % 256) :: d ++ be16Bytes p
  | .v4 ip p => 1 :: Addr.ip4Octets ip ++ be16Bytes p
  | .v6 ip p => 4 :: ip ++ be16Bytes p
  | .unknown => []

def Fits5 : Addr → Prop
  | .domain d _ => d.length ≤ 255
  | _ => True

/-- reader side: the address field followed by anything is read back as the same destination -/
theorem socks5_target_read (t : Addr) (rest : Bytes) (w : W) (hwf : WF t) (hfit : Fits5 t) :
    ∃ atyp body, addr5 t = atyp :: body ∧
      runFlat (readTargetV5 atyp) (body ++ rest) w = (.ok t, rest, w) := by
  cases t with
  | unknown => exact absurd hwf (by simp [WF])
  | v4 ip p =>
    obtain ⟨h1, h2⟩ := hwf
    refine ⟨1, _, rfl, ?_⟩
    simp [readTargetV5, runFlat_bind, Addr.ip4Octets, be16Bytes, be16_roundtrip p h2]
    have := ip4_roundtrip ip h1
    unfold Addr.ip4OfOctets at this
    exact this
  | v6 ip p =>
    obtain ⟨h1, h2⟩ := hwf
    refine ⟨4, _, rfl, ?_⟩
    have := runFlat_exact ip ((p / 256 % 256) :: (p % 256) :: rest) w
    rw [h1] at this
    simp [readTargetV5, runFlat_bind, this, be16Bytes, be16_roundtrip p h2]
  | domain d p =>
    obtain ⟨h1, h2⟩ := hwf
    simp only [Fits5] at hfit
    refine ⟨3, _, rfl, ?_⟩
    have hm : d.length % 256 = d.length := by omega
    have := runFlat_readLenString d ((p / 256 % 256) :: (p % 256) :: rest) w (by omega) h1
    simp [readTargetV5, runFlat_bind, hm, this, be16Bytes, be16_roundtrip p h2]

/-- writer side: what reaches the upstream for a no-auth SOCKS5 request whose negotiation the upstream accepted -/
theorem socks5_request_written (cmd : Nat) (t : Addr) (hc : cmd < 256) (hne : t ≠ .unknown) (hfit : Fits5 t) :
    runFlat (writeRequest { version := 5, cmd := cmd, target := t, auth := none }) [5, 0] {} =
      (.ok (), [], { flushed := [5, 1, 0] ++ ([5, cmd, 0] ++ addr5 t), pending := [] }) := by
  have hcm : cmd % 256 = cmd := by omega
  cases t with
  | unknown => exact absurd rfl hne
  | v4 ip p => simp [writeRequest, writeRequestV5, authV5Client, runFlat_bind, addr5, hcm]
  | v6 ip p => simp [writeRequest, writeRequestV5, authV5Client, runFlat_bind, addr5, hcm]
  | domain d p =>
    simp only [Fits5] at hfit
    have : ¬ d.length > 255 := by omega
    simp [writeRequest, writeRequestV5, authV5Client, runFlat_bind, addr5, hcm, this]

/-- refusal: a host that does not fit the length byte is never written (only the negotiation was) -/
theorem socks5_request_refused (cmd p : Nat) (d : Bytes) (hl : d.length > 255) :
    (runFlat (writeRequest { version := 5, cmd := cmd, target := .domain d p, auth := none }) [5, 0] {}).1 =
      .err "domain name too long for socks5" ∧
    (runFlat (writeRequest { version := 5, cmd := cmd, target := .domain d p, auth := none }) [5, 0] {}).2.2.flushed =
      [5, 1, 0] := by
  simp [writeRequest, writeRequestV5, authV5Client, runFlat_bind, hl]

/-- reader side of the whole request: negotiation `05 01 00`, then the request, then anything -/
theorem socks5_request_roundtrip (cmd : Nat) (t : Addr) (rest : Bytes) (hwf : WF t) (hfit : Fits5 t) :
    runFlat (readRequest false) ([5, 1, 0] ++ ([5, cmd, 0] ++ addr5 t) ++ rest) {} =
      (.ok { version := 5, cmd := cmd, target := t, auth := none }, rest, { flushed := [5, 0], pending := [] }) := by
  obtain ⟨atyp, body, he, hr⟩ := socks5_target_read t rest { flushed := [5, 0], pending := [] } hwf hfit
  rw [he]
  simp [readRequest, readRequestV5, runFlat_bind, selectMethod, authV5Server, Rd.exact, hr]

/-! ## SOCKS4 / SOCKS4a request -/

def Fits4 : Addr → Prop
  | .domain d _ => 0 ∉ d
  | .v4 ip _ => 0x100 ≤ ip
  | _ => False

/-- the bytes a SOCKS4(a) writer emits with user id `uid` -/
def req4 (cmd : Nat) (t : Addr) (uid : Bytes) : Bytes :=
  match t with
  | .domain d p => [4, cmd] ++ be16Bytes p ++ [0, 0, 0, 1] ++ uid ++ [0] ++ d ++ [0]
  | .v4 ip p => [4, cmd] ++ be16Bytes p ++ Addr.ip4Octets ip ++ uid ++ [0]
  | _ => []

theorem socks4_request_written (cmd : Nat) (t : Addr) (uid pw : Bytes) (hc : cmd < 256) (hfit : Fits4 t) (hu : 0 ∉ uid) :
    runFlat (writeRequest { version := 4, cmd := cmd, target := t, auth := some (uid, pw) }) [] {} =
      (.ok (), [], { flushed := req4 cmd t uid, pending := [] }) := by
  have hcm : cmd % 256 = cmd := by omega
  cases t with
  | unknown => exact absurd hfit (by simp [Fits4])
  | v6 ip p => exact absurd hfit (by simp [Fits4])
  | v4 ip p =>
    simp only [Fits4] at hfit
    have : ¬ ip < 256 := by omega
    simp [writeRequest, writeRequestV4, clientIdV4, runFlat_bind, req4, hcm, this, hu]
  | domain d p =>
    simp only [Fits4] at hfit
    simp [writeRequest, writeRequestV4, clientIdV4, runFlat_bind, req4, hcm, hfit, hu]

theorem socks4_request_roundtrip (cmd : Nat) (t : Addr) (uid rest : Bytes) (hwf : WF t) (hfit : Fits4 t)
    (hu : 0 ∉ uid) (huv : utf8Valid uid = true) :
    runFlat (readRequest false) (req4 cmd t uid ++ rest) {} =
      (.ok { version := 4, cmd := cmd, target := t, auth := some (uid, []) }, rest, {}) := by
  cases t with
  | unknown => exact absurd hfit (by simp [Fits4])
  | v6 ip p => exact absurd hfit (by simp [Fits4])
  | v4 ip p =>
    obtain ⟨h1, h2⟩ := hwf
    simp only [Fits4] at hfit
    have e := ip4_roundtrip ip h1
    unfold Addr.ip4OfOctets at e
    have hn : ¬ ip < 256 := by omega
    have hs := runFlat_readNulString uid rest {} hu huv
    simp [readRequest, readRequestV4, runFlat_bind, req4, be16Bytes, Addr.ip4Octets, be16_roundtrip p h2, e, hn, hs]
  | domain d p =>
    obtain ⟨h1, h2⟩ := hwf
    simp only [Fits4] at hfit
    have hs := runFlat_readNulString uid (d ++ 0 :: rest) {} hu huv
    have hd := runFlat_readNulString d rest {} hfit h1
    simp [readRequest, readRequestV4, runFlat_bind, req4, be16Bytes, be16_roundtrip p h2, hs, hd]

/-- refusals of the SOCKS4 writer: IPv6, a NUL inside host or user id, and 0.0.0.x (the 4a marker) -/
theorem socks4_request_refused (cmd p : Nat) (auth : Option (Bytes × Bytes)) :
    (∀ ip, ∃ e, (runFlat (writeRequest { version := 4, cmd := cmd, target := .v6 ip p, auth := auth }) [] {}).1 = .err e) ∧
    (∀ d, 0 ∈ d → ∃ e, (runFlat (writeRequest { version := 4, cmd := cmd, target := .domain d p, auth := auth }) [] {}).1 = .err e) ∧
    (∀ ip, ip < 0x100 → ∃ e, (runFlat (writeRequest { version := 4, cmd := cmd, target := .v4 ip p, auth := auth }) [] {}).1 = .err e) := by
  refine ⟨?_, ?_, ?_⟩
  · intro ip; exact ⟨"ipv6 not supported in socks4", by simp [writeRequest, writeRequestV4, runFlat_bind]⟩
  · intro d hd
    exact ⟨"domain name not representable in socks4a", by simp [writeRequest, writeRequestV4, runFlat_bind, hd]⟩
  · intro ip hip
    exact ⟨"address not representable in socks4", by simp [writeRequest, writeRequestV4, runFlat_bind, hip]⟩

/-! ## HTTP CONNECT (and every other place a destination travels as text): `Display` then `FromStr`

The CONNECT request line, the `Host` header and `Udp-Bind-Source` carry `TargetAddress::to_string()`; the next hop
reads it back with `TargetAddress::from_str`.  (The line framing around the text — `splitn(3, ' ')`, CRLF — is
covered by the correspondence and by `Http.hostOkForConnect`, which refuses hosts containing the framing bytes.) -/

open AddrText in
/-- an IPv4 destination survives `to_string` / `from_str` exactly, for every address and port -/
theorem text_roundtrip_v4 (tbl : V6Tbl) (ip p : Nat) (hip : ip < 4294967296) (hp : p < 65536) :
    Addr.parse tbl (Addr.toText tbl (.v4 ip p)) = some (.v4 ip p) := by
  have o (n : Nat) (hn : n < 256) : Addr.parseOctet (showNat n) = some n ∧ Addr.dot ∉ showNat n := by
    obtain ⟨hne, hall, hval, hlead, h3⟩ := showNat_spec n
    refine ⟨?_, digit_not _ (by decide) _ hall⟩
    unfold Addr.parseOctet
    have hl := h3 (by omega)
    have hn' : n ≤ 255 := by omega
    simp [hne, hall, hval, hl, hlead, hn']
  obtain ⟨hpne, hpall, hpval, _, _⟩ := showNat_spec p
  have hpc : (0x3A : Nat) ∉ showNat p := digit_not _ (by decide) _ hpall
  obtain ⟨oa, da⟩ := o (ip / 16777216 % 256) (by omega)
  obtain ⟨ob, db⟩ := o (ip / 65536 % 256) (by omega)
  obtain ⟨oc, dc⟩ := o (ip / 256 % 256) (by omega)
  obtain ⟨od, dd⟩ := o (ip % 256) (by omega)
  have hsock : Addr.parseSock4 (Addr.showIp4 ip ++ [Addr.colon] ++ showNat p) = some (.v4 ip p) := by
    unfold Addr.parseSock4
    rw [show Addr.colon = 0x3A from rfl, rsplitColon_append _ _ hpc]
    simp only [Addr.showIp4, Addr.ip4Octets, List.append_assoc, List.cons_append, List.nil_append]
    rw [splitAll_append _ _ _ da, splitAll_append _ _ _ db, splitAll_append _ _ _ dc, splitAll_notin _ _ dd]
    have hport : Addr.parsePortStd (showNat p) = some p := by
      unfold Addr.parsePortStd
      have hp' : p ≤ 65535 := by omega
      simp [hpne, hpall, hpval, hp']
    simp only [hport, oa, ob, oc, od, ip4_roundtrip ip hip]
  simp only [Addr.parse, Addr.toText, hsock]

open AddrText in
/-- a host name survives `to_string` / `from_str` exactly — colons inside the name included — unless the text is what
std reads as an IPv4 or IPv6 socket address (explicit hypotheses: then the same text denotes that address) -/
theorem text_roundtrip_domain (tbl : V6Tbl) (h : Bytes) (p : Nat) (hp : p < 65536)
    (hnot4 : Addr.parseSock4 (h ++ [Addr.colon] ++ showNat p) = none)
    (hnot6 : ∀ e ∈ tbl, e.1 ≠ h ++ [Addr.colon] ++ showNat p) :
    Addr.parse tbl (Addr.toText tbl (.domain h p)) = some (.domain h p) := by
  obtain ⟨hpne, hpall, hpval, _, _⟩ := showNat_spec p
  have hpc : (0x3A : Nat) ∉ showNat p := digit_not _ (by decide) _ hpall
  have hu16 : parseU16 (showNat p) = some p := by
    have := parseUnsigned_digits 65535 (showNat p) hpne hpall (by omega)
    rw [hpval] at this
    exact this
  have htext : Addr.toText tbl (.domain h p) = h ++ [0x3A] ++ showNat p := rfl
  simp only [Addr.colon] at hnot4 hnot6
  rw [htext]
  unfold Addr.parse
  simp only [hnot4, rsplitColon_append _ _ hpc, hu16]
  split
  · next e heq =>
    have hm := List.mem_of_find?_eq_some heq
    have hp' := List.find?_some heq
    simp only [decide_eq_true_eq] at hp'
    exact absurd hp' (hnot6 e hm)
  · rfl

-- the hypotheses are satisfiable, and needed: a dotted-quad "host name" is an IPv4 address to the next hop
-- ("example.com", "1.2.3.4", "a:b" as bytes)
example : Addr.parseSock4 ([101,120,97,109,112,108,101,46,99,111,109] ++ [Addr.colon] ++ showNat 443) = none := by decide
example : Addr.parse [] (Addr.toText [] (.domain [49,46,50,46,51,46,52] 80)) = some (.v4 16909060 80) := by decide
example : Addr.parse [] (Addr.toText [] (.domain [97,58,98] 80)) = some (.domain [97,58,98] 80) := by decide

/-! ## HTTP CONNECT end to end at the level of request heads: what `h11c_connect` composes, `h11c_handshake`
interprets as the same destination (and the same feature) — for every destination whose text form reads back,
which the three `text_roundtrip_*` theorems establish. -/

open Http in
/-- the `Host` header that `h11c_connect` adds never shadows the feature headers -/
theorem host_is_not_a_feature_header :
    eqIgnoreCase (strBytes "Host") (strBytes "Proxy-Protocol") = false ∧
    eqIgnoreCase (strBytes "Host") (strBytes "Proxy-Channel") = false ∧
    eqIgnoreCase (strBytes "Host") (strBytes "Udp-Bind-Source") = false ∧
    eqIgnoreCase (strBytes "Proxy-Protocol") (strBytes "Proxy-Channel") = false ∧
    eqIgnoreCase (strBytes "Proxy-Protocol") (strBytes "Udp-Bind-Source") = false ∧
    eqIgnoreCase (strBytes "Proxy-Channel") (strBytes "Udp-Bind-Source") = false ∧
    eqIgnoreCase (strBytes "CONNECT") (strBytes "CONNECT") = true ∧
    eqIgnoreCase (strBytes "tcp") (strBytes "tcp") = true ∧
    eqIgnoreCase (strBytes "udp") (strBytes "tcp") = false ∧
    eqIgnoreCase (strBytes "udp") (strBytes "udp") = true := by decide +kernel

open Http in
/-- TCP: the composed CONNECT request is interpreted as a TCP tunnel to exactly the destination given -/
theorem connect_tcp_interpreted (tbl : V6Tbl) (t : Addr) (ch bs : Bytes) (req : Req)
    (hrt : Addr.parse tbl (t.toText tbl) = some t)
    (hreq : connectRequest tbl t .tcp ch bs = some req) :
    interpret tbl req = .tcp t := by
  obtain ⟨h1, -, -, -, -, -, h7, h8, -, -⟩ := host_is_not_a_feature_header
  unfold connectRequest at hreq
  split at hreq
  · exact absurd hreq (by simp)
  · simp only [Option.some.injEq] at hreq
    subst hreq
    unfold interpret
    simp only [h7, if_true, hrt]
    by_cases he : t.toText tbl = [] <;> simp [withHeader, he, header, h1, h8]

open Http in
/-- UDP over CONNECT: the composed request is interpreted as a UDP association to exactly the destination given, with
the channel kind the connector asked for (an empty channel is omitted and reads back as the default, inline) -/
theorem connect_udp_interpreted (tbl : V6Tbl) (t : Addr) (ch bs : Bytes) (req : Req)
    (hrt : Addr.parse tbl (t.toText tbl) = some t)
    (hreq : connectRequest tbl t .udpForward ch bs = some req) :
    interpret tbl req =
      .udp t (eqIgnoreCase (if ch = [] then strBytes "inline" else ch) (strBytes "inline")) [] := by
  obtain ⟨h1, h2, h3, h4, h5, h6, h7, h8, h9, h10⟩ := host_is_not_a_feature_header
  have hu : strBytes "udp" ≠ [] := by decide +kernel
  have r1 : eqIgnoreCase (strBytes "Proxy-Protocol") (strBytes "Proxy-Protocol") = true := by decide +kernel
  have r2 : eqIgnoreCase (strBytes "Proxy-Channel") (strBytes "Proxy-Channel") = true := by decide +kernel
  have r3 : eqIgnoreCase (strBytes "inline") (strBytes "inline") = true := by decide +kernel
  unfold connectRequest at hreq
  split at hreq
  · exact absurd hreq (by simp)
  · simp only [Option.some.injEq] at hreq
    subst hreq
    unfold interpret
    simp only [h7, if_true, hrt]
    by_cases he : t.toText tbl = [] <;> by_cases hc : ch = [] <;>
      simp [withHeader, he, hc, hu, header, h1, h2, h3, h4, h5, h6, h8, h9, h10, r1, r2, r3, List.find?]

open Http in
/-- instantiation: every IPv4 destination, every port — no hypothesis left but well-formedness -/
theorem connect_tcp_v4 (tbl : V6Tbl) (ip p : Nat) (hip : ip < 4294967296) (hp : p < 65536) (ch bs : Bytes) :
    ∃ req, connectRequest tbl (.v4 ip p) .tcp ch bs = some req ∧ interpret tbl req = .tcp (.v4 ip p) := by
  refine ⟨_, rfl, connect_tcp_interpreted tbl _ ch bs _ (text_roundtrip_v4 tbl ip p hip hp) rfl⟩

open Http in
/-- instantiation: every host name that the connector does not refuse and that std does not read as a socket address -/
theorem connect_tcp_domain (tbl : V6Tbl) (h : Bytes) (p : Nat) (hp : p < 65536) (ch bs : Bytes)
    (hhost : hostOkForConnect (.domain h p) = true)
    (hnot4 : Addr.parseSock4 (h ++ [Addr.colon] ++ showNat p) = none)
    (hnot6 : ∀ e ∈ tbl, e.1 ≠ h ++ [Addr.colon] ++ showNat p) :
    ∃ req, connectRequest tbl (.domain h p) .tcp ch bs = some req ∧ interpret tbl req = .tcp (.domain h p) := by
  have hreq : ∃ req, connectRequest tbl (.domain h p) .tcp ch bs = some req := by
    unfold connectRequest
    simp [hhost]
  obtain ⟨req, hreq⟩ := hreq
  exact ⟨req, hreq, connect_tcp_interpreted tbl _ ch bs req (text_roundtrip_domain tbl h p hp hnot4 hnot6) hreq⟩

open Http in
/-- a host name containing a framing byte (space, CR, LF, TAB, DEL, any control) is refused before anything is written:
the request line can never be re-split into a different destination -/
theorem connect_refuses_framing_bytes (tbl : V6Tbl) (h : Bytes) (p : Nat) (f : Feature) (ch bs : Bytes) (b : Nat)
    (hb : b ∈ h) (hctl : b ≤ 0x20 ∨ b = 0x7f) :
    connectRequest tbl (.domain h p) f ch bs = none := by
  have : hostOkForConnect (.domain h p) = false := by
    simp only [hostOkForConnect, Bool.not_eq_false', Bool.or_eq_true, decide_eq_true_eq, List.any_eq_true]
    exact Or.inr ⟨b, hb, hctl⟩
  simp [connectRequest, this]

-- non-vacuity: "a.b:443" over TCP and with a `plain` channel over UDP
example : Http.interpret [] ((Http.connectRequest [] (.domain [97,46,98] 443) .tcp [] []).get (by decide +kernel))
    = .tcp (.domain [97,46,98] 443) := by decide +kernel
example : Http.interpret [] ((Http.connectRequest [] (.domain [97,46,98] 443) .udpForward [112] []).get (by decide +kernel))
    = .udp (.domain [97,46,98] 443) false [] := by decide +kernel

/-! ## line framing, first layer: `read_line` takes exactly one line -/

/-- `read_line` returns exactly the bytes up to and including the first LF and leaves everything behind it unread, for
every line content without an LF (valid UTF-8) and every continuation -/
theorem readLine_exact (x rest : Bytes) (w : W) (hlf : 10 ∉ x) (hu : utf8Valid (x ++ [10]) = true) :
    runFlat Http.readLine (x ++ 10 :: rest) w = (.ok (x ++ [10]), rest, w) := by
  simp [Http.readLine, runFlat, flatUntil_delim 10 x rest hlf, hu]

/-- a stream that ends before any LF is an error ("EOF"), never a short line taken for a whole one -/
theorem readLine_eof (x : Bytes) (w : W) (hlf : 10 ∉ x) (hu : utf8Valid x = true) :
    ∃ r, runFlat Http.readLine x w = (.err "EOF", r, w) := by
  have hfu : ∀ y : Bytes, 10 ∉ y → flatUntil 10 y = (y, []) := by
    intro y hy
    induction y with
    | nil => simp [flatUntil]
    | cons b y ih =>
      have hb : b ≠ 10 := fun e => hy (by simp [e])
      have hy' : 10 ∉ y := fun e => hy (by simp [e])
      simp [flatUntil, hb, ih hy']
  have hl : x.getLast? ≠ some 10 := by
    intro e
    exact hlf (List.mem_of_getLast? e)
  refine ⟨[], ?_⟩
  simp [Http.readLine, runFlat, hfu x hlf, hu, hl, Rd.failWith]

/-! ## line framing, second layer: the header block written by `write_to` is read back header for header -/

/-- a header line the writer can emit without changing its meaning: no colon or LF in the name, no LF in the value, the
value ends in a printable ASCII byte (so `trim_end` removes the CRLF and nothing else), the line is UTF-8 -/
def HeaderOk (kv : Bytes × Bytes) : Prop :=
  0x3A ∉ kv.1 ∧ 10 ∉ kv.1 ∧ 13 ∉ kv.2 ∧ 10 ∉ kv.2 ∧ (∃ v' b, kv.2 = v' ++ [b] ∧ 0x20 < b ∧ b < 0x80) ∧
  utf8Valid (kv.1 ++ Http.colonSp ++ kv.2 ++ [13, 10]) = true

/-- the bytes `headerLines` writes -/
def headBytes (hs : List (Bytes × Bytes)) : Bytes :=
  (hs.map fun kv => kv.1 ++ Http.colonSp ++ kv.2 ++ Http.crlf).flatten

theorem headerLines_writes (hs : List (Bytes × Bytes)) (s : Bytes) (w : W) :
    runFlat (Http.headerLines hs) s w = (.ok (), s, { w with pending := w.pending ++ headBytes hs }) := by
  induction hs generalizing w with
  | nil => simp [Http.headerLines, headBytes]
  | cons kv hs ih =>
    obtain ⟨k, v⟩ := kv
    simp [Http.headerLines, runFlat_bind, ih, headBytes, List.append_assoc]

open HttpLine in
/-- `read_headers` over what `write_to` wrote (header lines, then the blank line) returns exactly the headers, in order,
and leaves every byte behind the blank line unread — for every header list, every continuation -/
theorem headers_roundtrip (hs acc : List (Bytes × Bytes)) (rest : Bytes) (w : W) (fuel : Nat)
    (hok : ∀ kv ∈ hs, HeaderOk kv) (hf : hs.length < fuel) :
    runFlat (Http.readHeaders fuel acc) (headBytes hs ++ Http.crlf ++ rest) w = (.ok (acc.reverse ++ hs), rest, w) := by
  induction hs generalizing acc fuel with
  | nil =>
    cases fuel with
    | zero => simp at hf
    | succ f =>
      have h := readLine_exact [13] rest w (by decide) (by decide)
      simp only [List.cons_append, List.nil_append] at h
      simp [Http.readHeaders, runFlat_bind, headBytes, Http.crlf, h, trimEnd_blank]
  | cons kv hs ih =>
    obtain ⟨k, v⟩ := kv
    cases fuel with
    | zero => simp at hf
    | succ f =>
      obtain ⟨hc, hkl, hvr, hvl, ⟨v', b, hv, hb⟩, hu⟩ := hok (k, v) (by simp)
      have hlf : 10 ∉ k ++ Http.colonSp ++ v ++ [13] := by
        simp [Http.colonSp, hkl, hvl]
      have hu' : utf8Valid ((k ++ Http.colonSp ++ v ++ [13]) ++ [10]) = true := by
        simpa [List.append_assoc] using hu
      have h := readLine_exact (k ++ Http.colonSp ++ v ++ [13]) (headBytes hs ++ Http.crlf ++ rest) w hlf hu'
      have hbytes : headBytes ((k, v) :: hs) ++ Http.crlf ++ rest =
          (k ++ Http.colonSp ++ v ++ [13]) ++ 10 :: (headBytes hs ++ Http.crlf ++ rest) := by
        simp [headBytes, Http.crlf, List.append_assoc]
      have htrim : trimEnd ((k ++ Http.colonSp ++ v ++ [13]) ++ [10]) = k ++ Http.colonSp ++ v := by
        have := trimEnd_crlf (k ++ Http.colonSp ++ v') b hb
        subst hv
        simpa [List.append_assoc] using this
      have hne : k ++ Http.colonSp ++ v ≠ [] := by simp [Http.colonSp]
      have hsplit : splitOnce Http.colonSp (k ++ Http.colonSp ++ v) = some (k, v) := splitOnce_key 0x3A 0x20 k v hc
      have hrec := ih ((k, v) :: acc) f (fun kv hkv => hok kv (by simp [hkv])) (by simpa using hf)
      rw [hbytes]
      unfold Http.readHeaders
      rw [runFlat_bind, h]
      simp only [htrim, hne, if_false, hsplit, hrec]
      simp

example : HeaderOk ([72,111,115,116], [97,46,98,58,56,48]) := by
  refine ⟨by decide, by decide, by decide, by decide, ⟨[97,46,98,58,56], 48, by decide, by decide⟩, by decide⟩

/-! ## line framing, third layer: a whole response head (`HttpResponse::write_to` then `HttpResponse::read_from`) -/

/-- a response head the writer can emit without changing its meaning -/
def RespOk (r : Http.Resp) : Prop :=
  Http.httpSlash.isPrefixOf r.version = true ∧ 0x20 ∉ r.version ∧ 10 ∉ r.version ∧ r.code < 65536 ∧ 10 ∉ r.status ∧
  (∃ s' b, r.status = s' ++ [b] ∧ 0x20 < b ∧ b < 0x80) ∧
  utf8Valid (r.version ++ [0x20] ++ showNat r.code ++ [0x20] ++ r.status ++ [13, 10]) = true ∧
  ∀ kv ∈ r.headers, HeaderOk kv

/-- the bytes of a response head -/
def respBytes (r : Http.Resp) : Bytes :=
  r.version ++ [0x20] ++ showNat r.code ++ [0x20] ++ r.status ++ Http.crlf ++ headBytes r.headers ++ Http.crlf

theorem writeResponse_writes (r : Http.Resp) (s : Bytes) (w : W) :
    runFlat (Http.writeResponse r) s w =
      (.ok (), s, { flushed := w.flushed ++ (w.pending ++ respBytes r), pending := [] }) := by
  simp [Http.writeResponse, runFlat_bind, headerLines_writes, respBytes, List.append_assoc]

open HttpLine AddrText in
/-- `read_from` over what `write_to` wrote returns exactly the response (version, code, status text with its spaces,
headers in order) and leaves every byte behind the head — the first tunnel bytes — unread -/
theorem response_roundtrip (r : Http.Resp) (rest : Bytes) (w : W) (fuel : Nat) (hok : RespOk r)
    (hf : r.headers.length < fuel) :
    runFlat (Http.readResponse fuel) (respBytes r ++ rest) w = (.ok r, rest, w) := by
  obtain ⟨hpre, hvs, hvl, hcode, hsl, ⟨s', b, hs, hb⟩, hu, hh⟩ := hok
  obtain ⟨hne, hall, hval, _, _⟩ := showNat_spec r.code
  have hcs : (0x20 : Nat) ∉ showNat r.code := digit_not _ (by decide) _ hall
  have hcl : (10 : Nat) ∉ showNat r.code := digit_not _ (by decide) _ hall
  let line := r.version ++ [0x20] ++ showNat r.code ++ [0x20] ++ r.status
  have hlf : 10 ∉ line ++ [13] := by simp [line, hvl, hcl, hsl]
  have hu' : utf8Valid ((line ++ [13]) ++ [10]) = true := by simpa [line, List.append_assoc] using hu
  have h := readLine_exact (line ++ [13]) (headBytes r.headers ++ Http.crlf ++ rest) w hlf hu'
  have hbytes : respBytes r ++ rest = (line ++ [13]) ++ 10 :: (headBytes r.headers ++ Http.crlf ++ rest) := by
    simp [respBytes, line, Http.crlf, List.append_assoc]
  have htrim : trimEnd ((line ++ [13]) ++ [10]) = line := by
    have := trimEnd_crlf (r.version ++ [0x20] ++ showNat r.code ++ [0x20] ++ s') b hb
    simp only [line]
    rw [hs]
    simpa [List.append_assoc] using this
  have hsplit : splitN3 line = [r.version, showNat r.code, r.status] := by
    have e1 : line = r.version ++ 0x20 :: (showNat r.code ++ 0x20 :: r.status) := by simp [line, List.append_assoc]
    unfold splitN3
    rw [e1, splitOnce_single 0x20 _ _ hvs]
    simp only [splitOnce_single 0x20 _ _ hcs]
  have hparse : parseU16 (showNat r.code) = some r.code := by
    have := parseUnsigned_digits 65535 (showNat r.code) hne hall (by omega)
    rw [hval] at this
    exact this
  have hrec := headers_roundtrip r.headers [] rest w fuel hh hf
  rw [hbytes]
  unfold Http.readResponse
  rw [runFlat_bind, h]
  simp only [htrim, hsplit, hpre, if_true, hparse, runFlat_bind, hrec]
  simp

-- non-vacuity: "HTTP/1.1 200 Connection established" with one header
example : RespOk { version := [72,84,84,80,47,49,46,49], code := 200, status := [79,75,32,103,111], headers := [([72,111,115,116], [97,46,98,58,56,48])] } := by
  refine ⟨by decide +kernel, by decide, by decide, by decide, by decide, ⟨[79,75,32,103], 111, by decide, by decide⟩, by decide, ?_⟩
  intro kv hkv
  simp only [List.mem_cons, List.not_mem_nil, or_false] at hkv
  subst hkv
  exact ⟨by decide, by decide, by decide, by decide, ⟨[97,46,98,58,56], 48, by decide, by decide⟩, by decide⟩

/-! ## the upstream CONNECT exchange decides on the status code alone, and hands the tunnel its first bytes intact -/

/-- TCP over an HTTP upstream: whatever well-formed response head the upstream sends, `h11c_connect` reports success
exactly when the code is 200, and in that case every byte behind the head is left for the tunnel -/
theorem connect_exchange_verdict (tbl : V6Tbl) (t : Addr) (ch bs : Bytes) (req : Http.Req) (r : Http.Resp)
    (rest : Bytes) (w : W) (fuel : Nat)
    (hreq : Http.connectRequest tbl t .tcp ch bs = some req) (hok : RespOk r) (hf : r.headers.length < fuel) :
    (runFlat (Http.connectExchange tbl t .tcp ch bs fuel) (respBytes r ++ rest) w).1 =
      (if r.code = 200 then .ok none else .err "upstream server failure") ∧
    (runFlat (Http.connectExchange tbl t .tcp ch bs fuel) (respBytes r ++ rest) w).2.1 = rest := by
  have hw : ∀ w : W, ∃ w', runFlat (Http.writeRequest req) (respBytes r ++ rest) w = (.ok (), respBytes r ++ rest, w') := by
    intro w
    simp [Http.writeRequest, runFlat_bind, headerLines_writes]
  obtain ⟨w', hw'⟩ := hw w
  have hr := response_roundtrip r rest w' fuel hok hf
  unfold Http.connectExchange
  rw [hreq]
  simp only [runFlat_bind, hw', hr]
  by_cases hc : r.code = 200 <;> simp [hc]

/-! ## line framing, fourth layer: a whole request head (`HttpRequest::write_to` then `HttpRequest::read_from`) -/

/-- a token of the request line: not empty, no ASCII white space (LF included) -/
def Token (t : Bytes) : Prop := t ≠ [] ∧ ∀ x ∈ t, isAsciiWs x = false

/-- a request head the writer can emit without changing its meaning -/
def ReqOk (r : Http.Req) : Prop :=
  Token r.method ∧ Token r.resource ∧ Token r.version ∧ Http.httpSlash.isPrefixOf r.version = true ∧
  (∃ v' b, r.version = v' ++ [b] ∧ 0x20 < b ∧ b < 0x80) ∧
  utf8Valid (r.method ++ [0x20] ++ r.resource ++ [0x20] ++ r.version ++ [13, 10]) = true ∧
  ∀ kv ∈ r.headers, HeaderOk kv

def reqBytes (r : Http.Req) : Bytes :=
  r.method ++ [0x20] ++ r.resource ++ [0x20] ++ r.version ++ Http.crlf ++ headBytes r.headers ++ Http.crlf

theorem writeRequest_writes (r : Http.Req) (s : Bytes) (w : W) :
    runFlat (Http.writeRequest r) s w =
      (.ok (), s, { flushed := w.flushed ++ (w.pending ++ reqBytes r), pending := [] }) := by
  simp [Http.writeRequest, runFlat_bind, headerLines_writes, reqBytes, List.append_assoc]

open HttpLine in
/-- `read_from` over what `write_to` wrote returns exactly the request — method, resource (the destination text),
version, headers in order — and leaves every byte behind the head (early data) unread -/
theorem request_roundtrip (r : Http.Req) (rest : Bytes) (w : W) (fuel : Nat) (hok : ReqOk r)
    (hf : r.headers.length < fuel) :
    runFlat (Http.readRequest fuel) (reqBytes r ++ rest) w = (.ok r, rest, w) := by
  obtain ⟨⟨hm, hmw⟩, ⟨hr, hrw⟩, ⟨hv, hvw⟩, hpre, ⟨v', b, hvs, hb⟩, hu, hh⟩ := hok
  have nolf : ∀ t : Bytes, (∀ x ∈ t, isAsciiWs x = false) → 10 ∉ t := by
    intro t ht hmem
    have := ht 10 hmem
    simp [isAsciiWs] at this
  have hlf : 10 ∉ (r.method ++ [0x20] ++ r.resource ++ [0x20] ++ r.version) ++ [13] := by
    simp [nolf _ hmw, nolf _ hrw, nolf _ hvw]
  have hu' : utf8Valid (((r.method ++ [0x20] ++ r.resource ++ [0x20] ++ r.version) ++ [13]) ++ [10]) = true := by
    simpa [List.append_assoc] using hu
  have h := readLine_exact _ (headBytes r.headers ++ Http.crlf ++ rest) w hlf hu'
  have hbytes : reqBytes r ++ rest = ((r.method ++ [0x20] ++ r.resource ++ [0x20] ++ r.version) ++ [13]) ++
      10 :: (headBytes r.headers ++ Http.crlf ++ rest) := by
    simp [reqBytes, Http.crlf, List.append_assoc]
  have htrim : trimEnd (((r.method ++ [0x20] ++ r.resource ++ [0x20] ++ r.version) ++ [13]) ++ [10]) =
      r.method ++ [0x20] ++ r.resource ++ [0x20] ++ r.version := by
    have := trimEnd_crlf (r.method ++ [0x20] ++ r.resource ++ [0x20] ++ v') b hb
    rw [hvs]
    simpa [List.append_assoc] using this
  have hsplit := splitAsciiWs_three r.method r.resource r.version hm hr hv hmw hrw hvw
  have hrec := headers_roundtrip r.headers [] rest w fuel hh hf
  rw [hbytes]
  unfold Http.readRequest
  rw [runFlat_bind, h]
  simp only [htrim, hsplit, hpre, if_true, runFlat_bind, hrec]
  simp

/-- END TO END for HTTP CONNECT, bytes included: the bytes `h11c_connect` writes for a destination whose text reads back,
read by `HttpRequest::read_from` and interpreted by `h11c_handshake`, name exactly that destination — and the early
data behind the head is untouched -/
theorem connect_bytes_interpreted (tbl : V6Tbl) (t : Addr) (ch bs : Bytes) (req : Http.Req) (rest : Bytes) (w : W)
    (fuel : Nat) (hrt : Addr.parse tbl (t.toText tbl) = some t)
    (hreq : Http.connectRequest tbl t .tcp ch bs = some req) (hok : ReqOk req) (hf : req.headers.length < fuel) :
    ∃ got, runFlat (Http.readRequest fuel) (reqBytes req ++ rest) w = (.ok got, rest, w) ∧
      Http.interpret tbl got = .tcp t :=
  ⟨req, request_roundtrip req rest w fuel hok hf, connect_tcp_interpreted tbl t ch bs req hrt hreq⟩

/-- the same for UDP over CONNECT: bytes written by `h11c_connect` for a UDP association are read and interpreted as a UDP
association to exactly that destination, with the channel kind asked for -/
theorem connect_udp_bytes_interpreted (tbl : V6Tbl) (t : Addr) (ch bs : Bytes) (req : Http.Req) (rest : Bytes) (w : W)
    (fuel : Nat) (hrt : Addr.parse tbl (t.toText tbl) = some t)
    (hreq : Http.connectRequest tbl t .udpForward ch bs = some req) (hok : ReqOk req) (hf : req.headers.length < fuel) :
    ∃ got, runFlat (Http.readRequest fuel) (reqBytes req ++ rest) w = (.ok got, rest, w) ∧
      Http.interpret tbl got =
        .udp t (Http.eqIgnoreCase (if ch = [] then strBytes "inline" else ch) (strBytes "inline")) [] :=
  ⟨req, request_roundtrip req rest w fuel hok hf, connect_udp_interpreted tbl t ch bs req hrt hreq⟩

/-- a failure status from the upstream is never taken for success, whatever else the head says: with any code other
than 200 the exchange fails for every feature (TCP and both UDP modes) -/
theorem connect_exchange_non200_fails (tbl : V6Tbl) (t : Addr) (f : Http.Feature) (ch bs : Bytes) (req : Http.Req)
    (r : Http.Resp) (rest : Bytes) (w : W) (fuel : Nat)
    (hreq : Http.connectRequest tbl t f ch bs = some req) (hok : RespOk r) (hf : r.headers.length < fuel)
    (hc : r.code ≠ 200) :
    (runFlat (Http.connectExchange tbl t f ch bs fuel) (respBytes r ++ rest) w).1 = .err "upstream server failure" := by
  obtain ⟨w', hw'⟩ : ∃ w', runFlat (Http.writeRequest req) (respBytes r ++ rest) w = (.ok (), respBytes r ++ rest, w') := by
    simp [Http.writeRequest, runFlat_bind, headerLines_writes]
  have hr := response_roundtrip r rest w' fuel hok hf
  unfold Http.connectExchange
  rw [hreq]
  simp only [runFlat_bind, hw', hr]
  simp [hc]

-- non-vacuity: the request `h11c_connect` composes for "a.b:443" meets `ReqOk` ("CONNECT a.b:443 HTTP/1.1", Host header)
example : Http.connectRequest [] (.domain [97,46,98] 443) .tcp [] [] =
    some { method := [67,79,78,78,69,67,84], resource := [97,46,98,58,52,52,51], version := [72,84,84,80,47,49,46,49],
           headers := [([72,111,115,116], [97,46,98,58,52,52,51])] } := by decide +kernel
example : ReqOk { method := [67,79,78,78,69,67,84], resource := [97,46,98,58,52,52,51], version := [72,84,84,80,47,49,46,49],
                  headers := [([72,111,115,116], [97,46,98,58,52,52,51])] } := by
  refine ⟨⟨by decide, by decide⟩, ⟨by decide, by decide⟩, ⟨by decide, by decide⟩, by decide +kernel,
    ⟨[72,84,84,80,47,49,46], 49, by decide, by decide⟩, by decide, ?_⟩
  intro kv hkv
  simp only [List.mem_cons, List.not_mem_nil, or_false] at hkv
  subst hkv
  exact ⟨by decide, by decide, by decide, by decide, ⟨[97,46,98,58,52,52], 51, by decide, by decide⟩, by decide⟩

end Redproxy.Props.C03
