import Redproxy.Model.Route
/-! C15: non-vacuity examples (kept in their own module: inside Props/C15.lean the same `decide` calls take minutes) -/
namespace Redproxy.Props.C15Ex
open Redproxy.MiluEval Redproxy.Route Redproxy

/-! ### non-vacuity (filter-less rules: the kernel does not have to run the parser model) -/
private def conns0 : List Conn := [{ name := "a".toList, features := [] }]
private def good : RuleCfg := { target := "a".toList, filter := none }
private def badTarget : RuleCfg := { target := "nosuch".toList, filter := none }
example : (setRules conns0 [] [good, { target := "deny".toList, filter := none }]).2 = true := by decide
example : (setRules conns0 [] [good, good, badTarget]).2 = false ∧ (setRules conns0 [] [badTarget, good]).2 = false := by decide



end Redproxy.Props.C15Ex
