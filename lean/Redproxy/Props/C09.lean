import Redproxy.Model.MiluParser
/-!
# C09 — the rule-language parser accepts the documented grammar and precedence

`Gen.levels`, `Gen.unaryTags`, `Gen.binMap`, `Gen.documentedBinary` are REGENERATED from
`milu/src/parser.rs` and `milu/readme.md` on every run; every `decide` below is therefore re-checked
against what the source says now.

Layer A (characters): general lemmas about ordered-choice tag matching, and decidable conditions on the
generated ladder — no tag is shadowed by an earlier tag of its level (`PrefixOrdered`), tighter-level tags
that are prefixes of looser-level operators cannot be followed by an operand (`CrossSafe`), the levels form
one chain in strictly decreasing precedence, every documented spelling sits in the level of its documented
precedence, every tag has a builtin.

Layer B (structure), complete enumeration of the finite part the property names: every documented binary
operator alone and every ORDERED PAIR of them parses to the documented reading (higher precedence binds
tighter, equal precedence associates to the left), with and without blank/comment filler; unary and postfix
forms alone.  The unbounded statement `parse (render t) = t` for all trees is NOT proved; deeper trees and
all triples are covered by the correspondence run only (stated as such in DESIGN.md).
-/
namespace Redproxy.Props.C09
open Redproxy Redproxy.Milu

/-! ## Layer A: ordered choice over tags -/

theorem matchTag_sound (tags : List (List Char × Bool)) (s t r : List Char) (h : matchTag tags s = some (t, r)) :
    ∃ nc, (t, nc) ∈ tags ∧ stripTag t nc s = some r := by
  induction tags with
  | nil => simp [matchTag] at h
  | cons e tags ih =>
    obtain ⟨t', nc⟩ := e
    unfold matchTag at h
    cases hs : stripTag t' nc s with
    | some r' =>
      rw [hs] at h
      simp only [Option.some.injEq, Prod.mk.injEq] at h
      obtain ⟨h1, h2⟩ := h
      subst h1; subst h2
      exact ⟨nc, by simp, hs⟩
    | none =>
      rw [hs] at h
      obtain ⟨nc', hm, hst⟩ := ih h
      exact ⟨nc', by simp [hm], hst⟩

/-- ordered choice: the result is the FIRST tag of the list that matches -/
theorem matchTag_first (tags : List (List Char × Bool)) (s : List Char) (i : Nat) (t : List Char) (nc : Bool) (r : List Char)
    (hi : tags[i]? = some (t, nc)) (hm : stripTag t nc s = some r)
    (hbefore : ∀ j, j < i → ∀ t' nc', tags[j]? = some (t', nc') → stripTag t' nc' s = none) :
    matchTag tags s = some (t, r) := by
  induction tags generalizing i with
  | nil => simp at hi
  | cons e tags ih =>
    obtain ⟨t0, nc0⟩ := e
    cases i with
    | zero =>
      simp only [List.getElem?_cons_zero, Option.some.injEq, Prod.mk.injEq] at hi
      obtain ⟨h1, h2⟩ := hi
      subst h1; subst h2
      simp [matchTag, hm]
    | succ i =>
      have h0 := hbefore 0 (by omega) t0 nc0 (by simp)
      simp only [matchTag, h0]
      apply ih i
      · simpa using hi
      · intro j hj t' nc' hj'
        exact hbefore (j + 1) (by omega) t' nc' (by simpa using hj')

/-- a matching tag exists ⇒ ordered choice succeeds (with some tag that matches) -/
theorem matchTag_complete (tags : List (List Char × Bool)) (s t r : List Char) (nc : Bool)
    (hmem : (t, nc) ∈ tags) (hm : stripTag t nc s = some r) : ∃ t' r', matchTag tags s = some (t', r') := by
  induction tags with
  | nil => simp at hmem
  | cons e tags ih =>
    obtain ⟨t0, nc0⟩ := e
    unfold matchTag
    cases hs : stripTag t0 nc0 s with
    | some r0 => exact ⟨t0, r0, rfl⟩
    | none =>
      simp only [List.mem_cons, Prod.mk.injEq] at hmem
      cases hmem with
      | inl e => obtain ⟨e1, e2⟩ := e; subst e1; subst e2; rw [hm] at hs; simp at hs
      | inr h => exact ih h

def isProperPrefix (a b : List Char) : Bool := a.length < b.length && (b.take a.length).map lower == a.map lower

/-- no tag is a proper prefix of a LATER tag of the same level (else the later, longer operator is unreachable) -/
def PrefixOrdered : List (List Char × Bool) → Bool
  | [] => true
  | (t, _) :: rest => rest.all (fun e => !isProperPrefix t e.1) && PrefixOrdered rest

def allTags : List (List Char × Bool) := Gen.levels.flatMap fun l => l.2.2.2

/-- characters that can begin an operand (identifier / literal / grouping / unary operator) -/
def operandStart (c : Char) : Bool :=
  isAlnum c || c = '_' || c = '"' || c = '`' || c = '(' || c = '[' || Gen.unaryTags.any (fun t => t.head? == some c)

/-- a tag of a tighter level that is a proper prefix of a looser-level operator must not be followed, inside
    that operator, by something an operand could start with (then the tighter level's attempt fails without
    consuming and `many0` backs off, e.g. `&` inside `&&`) -/
def CrossSafe (levels : List (Nat × String × String × List (List Char × Bool))) : Bool :=
  levels.all fun tight => levels.all fun loose =>
    if loose.1 < tight.1 then
      tight.2.2.2.all fun t => loose.2.2.2.all fun o =>
        if isProperPrefix t.1 o.1 then
          match (o.1.drop t.1.length).head? with
          | some c => !operandStart c
          | none => true
        else true
    else true

/-- the levels form one chain: strictly decreasing precedence, each level's `next` is the level before it,
    the tightest level continues with the unary level -/
def Chain : List (Nat × String × String × List (List Char × Bool)) → String → Bool
  | [], _ => true
  | (p, name, next, _) :: rest, tighter =>
    next == tighter && (match rest with
      | [] => true
      | (p', _, _, _) :: _ => p' < p) && Chain rest name

/-- every documented spelling occurs in the level that has the documented precedence -/
def CoversDocumented : Bool :=
  Gen.documentedBinary.all fun d =>
    d.2.all fun sp =>
      Gen.levels.any fun l => l.1 == d.1 && l.2.2.2.any fun t => t.1.map lower == sp.map lower

theorem ladder_prefix_ordered : Gen.levels.all (fun l => PrefixOrdered l.2.2.2) = true := by decide
theorem ladder_cross_safe : CrossSafe Gen.levels = true := by decide
theorem ladder_chain : Chain Gen.levels "op_7" = true := by decide
theorem documented_covered : CoversDocumented = true := by decide
theorem documented_unary_covered : Gen.documentedUnary.all (fun u => Gen.unaryTags.contains u) = true := by decide
theorem every_tag_has_builtin :
    allTags.all (fun t => Gen.binMap.any fun e => e.1 == t.1.map lower) = true := by decide
theorem empty_comment_is_blank : Gen.emptyCommentOk = true := by decide

/-! ## Layer B: complete enumeration over the documented table -/

def a : Ast := .ident ['a']
def b : Ast := .ident ['b']
def c : Ast := .ident ['c']

def bin (sp : List Char) (x y : Ast) : Ast := .op (lookupName Gen.binMap sp) [x, y]

def parsesTo (s : List Char) (t : Ast) : Bool :=
  match parse s with
  | .ok x _ => x == t
  | _ => false

/-- (precedence ×10, spelling) for every documented binary spelling -/
def docOps : List (Nat × List Char) := Gen.documentedBinary.flatMap fun d => d.2.map fun sp => (d.1, sp)

/-- the documented reading of `a o1 b o2 c` -/
def readingOfPair (o1 o2 : Nat × List Char) : Ast :=
  if o1.1 ≥ o2.1 then bin o2.2 (bin o1.2 a b) c else bin o1.2 a (bin o2.2 b c)

def sp : List Char := [' ']

theorem every_binary_operator_alone :
    docOps.all (fun o => parsesTo (['a'] ++ sp ++ o.2 ++ sp ++ ['b']) (bin o.2 a b)) = true := by decide +kernel

theorem every_unary_operator_alone :
    Gen.documentedUnary.all (fun u => parsesTo (u ++ ['a']) (.op (lookupName Gen.unMap u) [a])) = true := by decide +kernel

/-- precedence and associativity: EVERY ordered pair of documented binary operators -/
theorem every_ordered_pair :
    docOps.all (fun o1 => docOps.all fun o2 =>
      parsesTo (['a'] ++ sp ++ o1.2 ++ sp ++ ['b'] ++ sp ++ o2.2 ++ sp ++ ['c']) (readingOfPair o1 o2)) = true := by
  decide +kernel

/-- the same pairs, fully parenthesised the documented way, give the same trees -/
theorem every_ordered_pair_parenthesised :
    docOps.all (fun o1 => docOps.all fun o2 =>
      parsesTo (if o1.1 ≥ o2.1 then ['(', 'a'] ++ sp ++ o1.2 ++ sp ++ ['b', ')'] ++ sp ++ o2.2 ++ sp ++ ['c']
                else ['a'] ++ sp ++ o1.2 ++ sp ++ ['(', 'b'] ++ sp ++ o2.2 ++ sp ++ ['c', ')']) (readingOfPair o1 o2)) = true := by
  decide +kernel

/-- blank / comment filler between the tokens of every pair does not change the tree -/
def fillers : List (List Char) := [['\t'], ['\r', '\n'], ['#', ' ', 'x', '\n'], ['#', '\n'], ['#', ' ', 'x', '\r'], ['#', '\r'], ['/', '*', '*', '/'], [' ', '/', '*', ' ', 'y', ' ', '*', '/', ' ']]

theorem every_operator_blank_insensitive :
    fillers.all (fun f => docOps.all fun o =>
      parsesTo (f ++ ['a'] ++ f ++ o.2 ++ f ++ ['b']) (bin o.2 a b)) = true := by decide +kernel

/-- postfix forms bind tighter than unary, unary tighter than every binary operator -/
theorem postfix_unary_binary :
    Gen.documentedUnary.all (fun u => docOps.all fun o =>
      parsesTo (u ++ ['a', '.', 'f', '[', 'b', ']'] ++ sp ++ o.2 ++ sp ++ u ++ ['c', '(', ')'])
        (bin o.2 (.op (lookupName Gen.unMap u) [.op ['I','n','d','e','x'] [.op ['A','c','c','e','s','s'] [a, .ident ['f']], b]])
                 (.op (lookupName Gen.unMap u) [.call c []]))) = true := by decide +kernel

/-- conditionals and let sit below every binary operator -/
theorem level0_forms :
    docOps.all (fun o =>
      parsesTo (['i','f',' ','a',' '] ++ o.2 ++ [' ','b',' ','t','h','e','n',' ','a',' ','e','l','s','e',' ','b',' '] ++ o.2 ++ [' ','c'])
        (.op ['I','f'] [bin o.2 a b, a, bin o.2 b c]) &&
      parsesTo (['a',' '] ++ o.2 ++ [' ','b',' ','?',' ','a',' ',':',' ','b',' '] ++ o.2 ++ [' ','c'])
        (.op ['I','f'] [bin o.2 a b, a, bin o.2 b c]) &&
      parsesTo (['l','e','t',' ','a',' ','=',' ','b',' '] ++ o.2 ++ [' ','c',' ','i','n',' ','a',' '] ++ o.2 ++ [' ','b'])
        (.op ['S','c','o','p','e'] [.array [.tuple [a, bin o.2 b c]], bin o.2 a b])) = true := by decide +kernel

/-- non-vacuity: the table is not empty and contains the operators the unrepaired parser rejected -/
example : docOps.length = 26 ∧ (40, ['>', '=']) ∈ docOps ∧ (41, ['>', '>', '>']) ∈ docOps ∧ (15, ['x', 'o', 'r']) ∈ docOps := by
  decide

end Redproxy.Props.C09
