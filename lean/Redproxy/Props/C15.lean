import Redproxy.Model.Route
import Redproxy.Props.C15Ex
/-!
  C15 — rule hot-reload is atomic and all-or-nothing.

  `setRules` is the model of `GlobalState::set_rules`; `stepL`/`runL` model concurrent requests (read lock, `find_map`
  over the shared list under the guard) and reloads (write lock) for EVERY schedule of their steps.
-/
namespace Redproxy.Props.C15
open Redproxy.MiluEval Redproxy.Route Redproxy

variable (conns : List Conn)

/-- a rejected replacement leaves the previous list fully in force -/
theorem rejected_keeps_old (cur : List CRule) (cfgs : List RuleCfg) (h : (setRules conns cur cfgs).2 = false) :
    (setRules conns cur cfgs).1 = cur := by
  unfold setRules at *
  split <;> simp_all

/-- an accepted replacement installs exactly the compiled new list, whatever the old list was -/
theorem accepted_is_new (cur : List CRule) (cfgs : List RuleCfg) (h : (setRules conns cur cfgs).2 = true) :
    compileAll conns cfgs = some (setRules conns cur cfgs).1 := by
  unfold setRules at *
  split <;> simp_all

/-- the installed list does not depend on the list it replaces: nothing of the old list (rule objects, targets,
    compiled filters) survives an accepted reload — whatever the old list was (seeded change C02d kept the old rule
    for every unchanged filter text) -/
theorem new_list_forgets_old (cur cur' : List CRule) (cfgs : List RuleCfg) (h : (setRules conns cur cfgs).2 = true) :
    (setRules conns cur cfgs).1 = (setRules conns cur' cfgs).1 ∧ (setRules conns cur' cfgs).2 = true := by
  unfold setRules at *
  split <;> simp_all

/-- the empty list is a legal replacement (and a legal configuration): accepted, and it routes nothing -/
theorem empty_list_accepted (cur : List CRule) : setRules conns cur [] = ([], true) := by
  simp [setRules, compileAll]

theorem compileAll_some (cfgs : List RuleCfg) (rs : List CRule) (h : compileAll conns cfgs = some rs) :
    rs.length = cfgs.length ∧ ∀ (i : Nat) (c : RuleCfg), cfgs[i]? = some c → ∃ r, rs[i]? = some r ∧ compileRule conns c = some r := by
  induction cfgs generalizing rs with
  | nil => simp [compileAll] at h; subst h; simp
  | cons c rest ih =>
    simp only [compileAll] at h
    cases hc : compileRule conns c <;> simp only [hc] at h
    · cases h
    · rename_i r
      cases hr : compileAll conns rest <;> simp only [hr] at h
      · cases h
      · rename_i rs'
        injection h with h
        subst h
        obtain ⟨hl, hall⟩ := ih rs' hr
        refine ⟨by simp [hl], ?_⟩
        intro i c' hi
        cases i with
        | zero => simp at hi; subst hi; exact ⟨r, by simp, hc⟩
        | succ i => simpa using hall i c' (by simpa using hi)

/-- **reject iff bad**: the call reports an error iff SOME rule, at any position, fails to compile (syntax error,
    non-boolean filter, unknown upstream) -/
theorem reject_iff_bad (cur : List CRule) (cfgs : List RuleCfg) :
    (setRules conns cur cfgs).2 = false ↔ ∃ c ∈ cfgs, compileRule conns c = none := by
  have key : compileAll conns cfgs = none ↔ ∃ c ∈ cfgs, compileRule conns c = none := by
    induction cfgs with
    | nil => simp [compileAll]
    | cons c rest ih =>
      simp only [compileAll]
      cases hc : compileRule conns c
      · simp [hc]
      · cases hr : compileAll conns rest
        · have := ih.1 hr
          obtain ⟨c', hc', hn⟩ := this
          simp only [List.mem_cons, exists_eq_or_imp, hc, reduceCtorEq, false_or, true_iff]
          exact ⟨c', hc', hn⟩
        · simp only [List.mem_cons, exists_eq_or_imp, hc, reduceCtorEq, false_or, false_iff]
          intro h
          have := ih.2 h
          rw [hr] at this
          cases this
  unfold setRules
  cases hca : compileAll conns cfgs with
  | none => simp [← key, hca]
  | some rs => simp [← key, hca]

/-- what makes a single rule bad: its filter does not compile (syntax error, type error, not boolean) or its
    target is neither `deny` nor a configured upstream -/
theorem compileRule_none_iff (c : RuleCfg) :
    compileRule conns c = none ↔
      (∃ txt, c.filter = some txt ∧ compileFilter txt = none) ∨
      (c.target ≠ "deny".toList ∧ conns.any (fun k => k.name == c.target) = false) := by
  have hf : compileFilterOpt c.filter = none ↔ ∃ txt, c.filter = some txt ∧ compileFilter txt = none := by
    unfold compileFilterOpt
    cases c.filter with
    | none => simp
    | some txt => cases h : compileFilter txt <;> simp [h]
  have ht : resolveTarget conns c.target = none ↔
      (c.target ≠ "deny".toList ∧ conns.any (fun k => k.name == c.target) = false) := by
    unfold resolveTarget
    by_cases h1 : (c.target == "deny".toList) = true
    · rw [if_pos h1]
      have : c.target = "deny".toList := by simpa using h1
      simp [this]
    · rw [if_neg h1]
      have hne : c.target ≠ "deny".toList := by simpa using h1
      by_cases h2 : (conns.any fun k => k.name == c.target) = true
      · rw [if_pos h2]; simp [h2]
      · rw [if_neg h2]
        have : (conns.any fun k => k.name == c.target) = false := by simpa using h2
        exact ⟨fun _ => ⟨hne, this⟩, fun _ => rfl⟩
  rw [← hf, ← ht]
  unfold compileRule
  cases compileFilterOpt c.filter <;> cases resolveTarget conns c.target <;> simp

/-- the serialised form of a compiled list is the configuration it was compiled from -/
theorem src_of_compiled (cfgs : List RuleCfg) (rs : List CRule) (h : compileAll conns cfgs = some rs) :
    rs.map (·.src) = cfgs := by
  induction cfgs generalizing rs with
  | nil => simp [compileAll] at h; subst h; rfl
  | cons c rest ih =>
    simp only [compileAll] at h
    cases hc : compileRule conns c <;> simp only [hc] at h
    · cases h
    · rename_i r
      cases hr : compileAll conns rest <;> simp only [hr] at h
      · cases h
      · rename_i rs'
        injection h with h
        subst h
        have hsrc : r.src = c := by
          unfold compileRule at hc
          split at hc
          · injection hc with hc; subst hc; rfl
          · cases hc
        simp [hsrc, ih rs' hr]

/-- **GET then POST unchanged**: posting back what `GET /rules` returned is accepted and installs the same list -/
theorem get_post_identity (cur : List CRule) (cfgs : List RuleCfg) (h : (setRules conns cur cfgs).2 = true) :
    setRules conns (setRules conns cur cfgs).1 ((setRules conns cur cfgs).1.map (·.src)) = ((setRules conns cur cfgs).1, true) := by
  have h1 := accepted_is_new conns cur cfgs h
  have h2 := src_of_compiled conns cfgs _ h1
  rw [h2]
  unfold setRules
  simp [h1]

/-! ### every schedule of concurrent requests and reloads -/
variable (x : Ext) (fuel : Nat)

/-- what each in-flight request has found so far is the first match among the rules it has examined of the list it
    saw when it took the lock — and that list is still the current one -/
def Inv (s : LS) : Prop :=
  ∀ p ∈ s.active, p.2.seen = s.rules ∧ p.2.result = firstMatchUpTo x p.2.q fuel p.2.seen p.2.pos

private theorem firstMatch_append (q : Req) (a b : List CRule) :
    firstMatch x q fuel (a ++ b) = match firstMatch x q fuel a with
      | some t => some t
      | none => firstMatch x q fuel b := by
  induction a with
  | nil => simp [firstMatch]
  | cons r rest ih =>
    simp only [List.cons_append, firstMatch]
    split
    · rfl
    · exact ih

private theorem mem_updReader (i : Nat) (f : Reader → Reader) (l : List (Nat × Reader)) (p : Nat × Reader)
    (h : p ∈ updReader i f l) : p ∈ l ∨ ∃ r, (p.1, r) ∈ l ∧ p.2 = f r := by
  induction l with
  | nil => simp [updReader] at h
  | cons a rest ih =>
    obtain ⟨j, r⟩ := a
    simp only [updReader] at h
    split at h
    · simp only [List.mem_cons] at h
      rcases h with h | h
      · subst h; exact Or.inr ⟨r, by simp, rfl⟩
      · exact Or.inl (by simp [h])
    · simp only [List.mem_cons] at h
      rcases h with h | h
      · exact Or.inl (by simp [h])
      · rcases ih h with h' | ⟨r', hr', he⟩
        · exact Or.inl (by simp [h'])
        · exact Or.inr ⟨r', by simp [hr'], he⟩

theorem inv_step (s s' : LS) (e : Ev) (hi : Inv x fuel s) (hs : stepL x fuel conns s e = some s') : Inv x fuel s' := by
  cases e with
  | acquire i q =>
    simp only [stepL] at hs
    injection hs with hs; subst hs
    intro p hp
    simp only [List.mem_cons] at hp
    rcases hp with rfl | hp
    · exact ⟨rfl, by simp [firstMatchUpTo, firstMatch]⟩
    · exact hi p hp
  | evalNext i =>
    simp only [stepL] at hs
    injection hs with hs; subst hs
    intro p hp
    rcases mem_updReader i _ s.active p hp with hp | ⟨r, hr, he⟩
    · exact hi p hp
    · obtain ⟨h1, h2⟩ := hi (p.1, r) hr
      simp only at h1 h2
      rw [he]
      split
      · rename_i rule hres hget
        refine ⟨h1, ?_⟩
        simp only [firstMatchUpTo] at *
        rw [h1] at h2 ⊢
        have ht : s.rules.take (r.pos + 1) = s.rules.take r.pos ++ [rule] := by
          rw [List.take_succ, hget]; rfl
        rw [ht, firstMatch_append, ← h2, hres]
        simp [firstMatch]
      · exact ⟨h1, h2⟩
  | release i =>
    simp only [stepL] at hs
    injection hs with hs; subst hs
    intro p hp
    exact hi p (List.mem_filter.1 hp).1
  | swap cfgs =>
    simp only [stepL] at hs
    split at hs
    · rename_i hempty
      injection hs with hs; subst hs
      intro p hp
      simp only [List.isEmpty_iff] at hempty
      simp [hempty] at hp
    · cases hs

/-- the invariant holds along every schedule that starts with no request in flight -/
theorem inv_run (s s' : LS) (evs : List Ev) (hi : Inv x fuel s) (hr : runL x fuel conns s evs = some s') : Inv x fuel s' := by
  induction evs generalizing s with
  | nil => simp [runL] at hr; subst hr; exact hi
  | cons e es ih =>
    simp only [runL] at hr
    cases hst : stepL x fuel conns s e with
    | none => simp [hst] at hr
    | some s1 => simp only [hst] at hr; exact ih s1 (inv_step conns x fuel s s1 e hi hst) hr

private theorem firstMatch_take_some (q : Req) (l : List CRule) (n : Nat) (t : Option Str)
    (h : firstMatch x q fuel (l.take n) = some t) : firstMatch x q fuel l = some t := by
  have : l = l.take n ++ l.drop n := (List.take_append_drop n l).symm
  rw [this, firstMatch_append, h]

/-- **decided by one version**: in every reachable state, a request that has finished its walk (found a match, or
    examined every rule) holds exactly the decision of `find_map` over ONE list — the list that was current when it
    took the lock, which is still the current list (no reload can land in between): old or new, never a mixture -/
theorem decided_by_one_version (rules0 : List CRule) (evs : List Ev) (s : LS)
    (hr : runL x fuel conns { rules := rules0, active := [] } evs = some s) (p : Nat × Reader) (hp : p ∈ s.active) :
    p.2.seen = s.rules ∧
    (∀ t, p.2.result = some t → firstMatch x p.2.q fuel p.2.seen = some t) ∧
    (p.2.result = none → p.2.seen.length ≤ p.2.pos → firstMatch x p.2.q fuel p.2.seen = none) := by
  have hinv : Inv x fuel s := inv_run conns x fuel _ s evs (by intro p hp; simp at hp) hr
  obtain ⟨h1, h2⟩ := hinv p hp
  refine ⟨h1, ?_, ?_⟩
  · intro t ht
    rw [h2, firstMatchUpTo] at ht
    exact firstMatch_take_some x fuel _ _ _ _ ht
  · intro hn hlen
    rw [h2, firstMatchUpTo, List.take_of_length_le hlen] at hn
    exact hn

/-- a reload is never granted while a request is walking the list -/
theorem no_swap_while_reading (s : LS) (cfgs : List RuleCfg) (h : s.active ≠ []) :
    stepL x fuel conns s (.swap cfgs) = none := by
  simp only [stepL]
  split
  · rename_i he; simp only [List.isEmpty_iff] at he; exact absurd he h
  · rfl

/-- a request that begins after an accepted reload has returned sees the new list only -/
theorem after_return_new_only (s s1 s2 : LS) (cfgs : List RuleCfg) (i : Nat) (q : Req)
    (h1 : stepL x fuel conns s (.swap cfgs) = some s1) (hok : (setRules conns s.rules cfgs).2 = true)
    (h2 : stepL x fuel conns s1 (.acquire i q) = some s2) :
    ∃ r, (i, r) ∈ s2.active ∧ compileAll conns cfgs = some r.seen := by
  simp only [stepL] at h1
  split at h1
  · injection h1 with h1; subst h1
    simp only [stepL] at h2
    injection h2 with h2; subst h2
    exact ⟨{ q := q, pos := 0, result := none, seen := (setRules conns s.rules cfgs).1 }, by simp,
      accepted_is_new conns s.rules cfgs hok⟩
  · cases h1

end Redproxy.Props.C15
