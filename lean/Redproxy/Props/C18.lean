import Redproxy.Model.Config
/-!
  C18 — bad configuration is an error, never a crash; accepted configuration runs (loader dispatch logic and the
  load balancer's member graph; serde struct deserialisation is a parameter; the rule-language part is C08/C15).
-/
namespace Redproxy.Props.C18
open Redproxy Redproxy.Config

/-- **loading a connector entry never panics**, whatever the document looks like (given that the per-kind struct
    parser does not) -/
theorem connector_from_value_no_panic (kp : String → Y → Res String) (hkp : ∀ t v s, kp t v ≠ .panic s) (v : Y) (s : String) :
    connectorFromValue kp v ≠ .panic s := by
  unfold connectorFromValue
  split
  · simp
  · split
    · simp
    · split
      · simp
      · split
        · exact hkp _ _ _
        · simp

/-- at the pinned commit `connectors: [{name: 1}]` panicked (fixed by e98ba56): kernel-checked witness -/
theorem connector_name_number_panicked (kp : String → Y → Res String) :
    connectorFromValueOld kp (.map [("name", .num 1)]) = .panic "as_str().unwrap()" := by
  simp [connectorFromValueOld, Y.get, Y.asStr]

theorem listener_from_value_no_panic (kp : String → Y → Res String) (hkp : ∀ t v s, kp t v ≠ .panic s) (v : Y) (s : String) :
    listenerFromValue kp v ≠ .panic s := by
  unfold listenerFromValue
  split
  · simp
  · simp only
    split
    · exact hkp _ _ _
    · simp

/-- a whole list of entries never panics either, and duplicate or reserved names are errors -/
theorem from_config_no_panic (fv : Y → Res String) (hfv : ∀ v s, fv v ≠ .panic s) (vs : List Y) (acc : List String) (s : String) :
    fromConfig fv vs acc ≠ .panic s := by
  induction vs generalizing acc with
  | nil => simp [fromConfig]
  | cons v rest ih =>
    simp only [fromConfig]
    cases h : fv v with
    | ok name =>
      simp only
      split
      · simp
      · exact ih _
    | err e => simp
    | panic p => exact absurd h (hfv v p)

theorem reserved_name_rejected (kp : String → Y → Res String) (rest : List (String × Y)) :
    connectorFromValue kp (.map (("name", .str "deny") :: rest)) = .err "reserved" := by
  simp [connectorFromValue, Y.get, Y.asStr]

theorem duplicate_rejected (fv : Y → Res String) (v : Y) (rest : List Y) (acc : List String) (name : String)
    (h : fv v = .ok name) (hd : acc.contains name = true) : fromConfig fv (v :: rest) acc = .err "duplicate name" := by
  simp only [fromConfig, h, hd, if_true]

/-- **accepted load balancers hand a request over finitely often**: if the depth check passes with bound `d`, then
    for EVERY sequence of member selections `connect` ends within `d` steps -/
theorem depthOk_terminates (g : Graph) (d : Nat) (n : String) (picks : List Nat) (h : depthOk g d n = true) :
    (lbConnect g d n picks).isSome = true := by
  induction d generalizing n picks with
  | zero => simp [depthOk] at h
  | succ d ih =>
    simp only [lbConnect]
    simp only [depthOk] at h
    cases hm : membersOf g n with
    | none => simp
    | some ms =>
      rw [hm] at h
      cases ms with
      | nil => simp
      | cons m ms =>
        simp only
        apply ih
        simp only [List.all_eq_true] at h
        apply h
        have hmem : ∀ k, (m :: ms).getD (k % (ms.length + 1)) m ∈ m :: ms := by
          intro k
          have hlt : k % (ms.length + 1) < (m :: ms).length := by simp; exact Nat.mod_lt _ (by omega)
          rw [List.getD_eq_getElem?_getD, List.getElem?_eq_getElem hlt]
          exact List.getElem_mem hlt
        cases picks with
        | nil => exact hmem 0
        | cons k r => exact hmem k

/-- hence: a load balancer accepted by `verify` serves every request, whatever the selection algorithm picks -/
theorem accepted_lb_serves (g : Graph) (n : String) (picks : List Nat) (h : lbVerify g n = true) :
    (lbConnect g (g.length + 1) n picks).isSome = true := by
  unfold lbVerify at h
  cases hm : membersOf g n with
  | none => simp [hm] at h
  | some ms =>
    simp only [hm, Bool.and_eq_true] at h
    exact depthOk_terminates g _ n picks h.2

/-- **a cycle is rejected**: a load balancer that (directly) lists itself never passes the depth check, for any
    bound — `verify` reports an error instead of accepting a configuration that would recurse forever -/
theorem self_loop_rejected (g : Graph) (n : String) (ms : List String) (hm : membersOf g n = some ms) (hself : n ∈ ms) (d : Nat) :
    depthOk g d n = false := by
  induction d with
  | zero => rfl
  | succ d ih =>
    simp only [depthOk, hm]
    rw [Bool.eq_false_iff]
    intro hall
    simp only [List.all_eq_true] at hall
    have := hall n hself
    rw [ih] at this
    cases this

/-- at the pinned commit `verify` only checked that the members exist; this two-balancer cycle passed it and
    `connect` never returns (no fuel is enough — shown here for the bound `verify` now uses) -/
theorem cycle_runs_forever :
    lbConnect [("a", ["b"]), ("b", ["a"]), ("d", [])] 4 "a" [] = none ∧
    lbVerify [("a", ["b"]), ("b", ["a"]), ("d", [])] "a" = false := by decide

/-! ### non-vacuity -/
example : lbVerify [("lb", ["x", "inner"]), ("inner", ["y"]), ("x", []), ("y", [])] "lb" = true := by decide
example : lbConnect [("lb", ["x", "inner"]), ("inner", ["y"]), ("x", []), ("y", [])] 5 "lb" [1, 0] = some "y" := by decide

end Redproxy.Props.C18
