import Redproxy.Model.Udp
import Redproxy.Props.C03
import Redproxy.Props.C11
/-!
  C10 — UDP datagram fidelity and session isolation (session logic; the codec round trips of the SOCKS5-UDP header,
  RPFM frames and QUIC fragments are the theorems of C03 and C11; UDP transport itself is observed, not modelled).
-/
namespace Redproxy.Props.C10
open Redproxy Redproxy.Udp

private theorem queueOf_enqueue_same (s : Sessions) (src : Nat) (p : Bytes) (h : hasSession s src = true) :
    queueOf (enqueue src p s) src = queueOf s src ++ [p] := by
  induction s with
  | nil => simp [hasSession] at h
  | cons e rest ih =>
    obtain ⟨k, q⟩ := e
    by_cases hk : (k == src) = true
    · simp [enqueue, queueOf, hk, List.find?]
    · have hk' : (k == src) = false := by simpa using hk
      have hr : hasSession rest src = true := by simpa [hasSession, hk'] using h
      simp only [enqueue, hk', Bool.false_eq_true, if_false]
      simp only [queueOf, List.find?, hk'] at ih ⊢
      exact ih hr

private theorem queueOf_enqueue_other (s : Sessions) (src other : Nat) (p : Bytes) (hne : other ≠ src) :
    queueOf (enqueue src p s) other = queueOf s other := by
  induction s with
  | nil => rfl
  | cons e rest ih =>
    obtain ⟨k, q⟩ := e
    by_cases hk : (k == src) = true
    · have : k = src := by simpa using hk
      subst this
      have ho : (k == other) = false := by simpa using (Ne.symm hne)
      simp [enqueue, queueOf, List.find?, ho]
    · have hk' : (k == src) = false := by simpa using hk
      simp only [enqueue, hk', Bool.false_eq_true, if_false]
      by_cases ho : (k == other) = true
      · simp [queueOf, List.find?, ho]
      · have ho' : (k == other) = false := by simpa using ho
        simp only [queueOf, List.find?, ho'] at ih ⊢
        exact ih

private theorem queueOf_append_new (s : Sessions) (src other : Nat) (q : List Bytes) (h : hasSession s src = false) :
    queueOf (s ++ [(src, q)]) other = if other = src then q else queueOf s other := by
  induction s with
  | nil =>
    by_cases ho : other = src
    · subst ho; simp [queueOf, List.find?]
    · have : (src == other) = false := by simpa using (Ne.symm ho)
      simp [queueOf, List.find?, this, ho]
  | cons e rest ih =>
    obtain ⟨k, q'⟩ := e
    have hk : (k == src) = false := by
      cases hkk : (k == src)
      · rfl
      · simp [hasSession, hkk] at h
    have hr : hasSession rest src = false := by simpa [hasSession, hk] using h
    by_cases ho : (k == other) = true
    · have hko : k = other := by simpa using ho
      have hne : other ≠ src := by
        intro e; subst e; subst hko; simp at hk
      simp [queueOf, List.find?, ho, hne]
    · have ho' : (k == other) = false := by simpa using ho
      simp only [List.cons_append, queueOf, List.find?, ho'] at ih ⊢
      exact ih hr

/-- what one datagram does to every session's queue -/
theorem udpAccept_queue (s : Sessions) (d : Dgram) (other : Nat) :
    queueOf (udpAccept s d) other = if other = d.src then queueOf s other ++ [d.payload] else queueOf s other := by
  unfold udpAccept
  by_cases h : hasSession s d.src = true
  · simp only [h, if_true]
    by_cases ho : other = d.src
    · subst ho; simp [queueOf_enqueue_same s _ d.payload h]
    · simp [ho, queueOf_enqueue_other s d.src other d.payload ho]
  · have h' : hasSession s d.src = false := by simpa using h
    simp only [h', Bool.false_eq_true, if_false]
    rw [queueOf_append_new s d.src other _ h']
    have hempty : queueOf s d.src = [] := by
      unfold queueOf
      have : s.find? (fun e => e.1 == d.src) = none := by
        rw [List.find?_eq_none]
        intro e he hc
        have : hasSession s d.src = true := by
          simp only [hasSession, List.any_eq_true]
          exact ⟨e, he, hc⟩
        rw [h'] at this; cases this
      rw [this]
    by_cases ho : other = d.src
    · rw [ho]; simp [hempty]
    · simp [ho]

/-- **fidelity + isolation + first datagram**: after EVERY interleaved history of datagrams from any number of
    sources, the frames handed to the session of source `k` are exactly the payloads received from `k`, in order,
    each once — the datagram that created the session included, and nothing from any other source -/
theorem session_exact (ds : List Dgram) (k : Nat) :
    queueOf (run ds) k = (ds.filter (fun d => d.src == k)).map (·.payload) := by
  have : ∀ (s : Sessions), queueOf (ds.foldl udpAccept s) k = queueOf s k ++ (ds.filter (fun d => d.src == k)).map (·.payload) := by
    induction ds with
    | nil => intro s; simp
    | cons d rest ih =>
      intro s
      simp only [List.foldl_cons]
      rw [ih, udpAccept_queue]
      by_cases hk : k = d.src
      · subst hk; simp [List.filter_cons]
      · have : (d.src == k) = false := by simpa using (Ne.symm hk)
        simp [hk, List.filter_cons, this]
  simpa [run, queueOf] using this []

/-- at the pinned commit the first datagram of every session was lost (fixed): kernel-checked witness -/
theorem first_datagram_was_dropped :
    queueOf ([Dgram.mk 1 [7], Dgram.mk 1 [8], Dgram.mk 1 [9]].foldl udpAcceptOld []) 1 = [[8], [9]] := by decide

/-- **a receive error never materialises as a datagram**, on the listener side and on the connector side: an error
    is an error, every frame that is yielded is a datagram that was received, and the connector labels it with the
    address it came from -/
theorem recv_error_not_a_datagram (target : Nat) :
    listenerRead target .error = .err "recv" ∧ connectorRead .error = .err "recv" ∧
    (∀ r f, listenerRead target r = .ok (some f) → ∃ a, r = .dgram a f.body) ∧
    (∀ r f, connectorRead r = .ok (some f) → ∃ a, r = .dgram a f.body ∧ f.addr = some a) := by
  refine ⟨rfl, rfl, ?_, ?_⟩
  · intro r f h
    cases r with
    | dgram a p => simp only [listenerRead, Res.ok.injEq, Option.some.injEq] at h; subst h; exact ⟨a, rfl⟩
    | error => simp [listenerRead] at h
  · intro r f h
    cases r with
    | dgram a p => simp only [connectorRead, Res.ok.injEq, Option.some.injEq] at h; subst h; exact ⟨a, rfl, rfl⟩
    | error => simp [connectorRead] at h

/-- at the pinned commit a receive error on the listener side became an empty datagram for the target (fixed) -/
theorem recv_error_was_a_datagram : listenerReadOld 5 .error = .ok (some { addr := some 5, body := [] }) := rfl

/-! ### non-vacuity -/
example : run [⟨1, [1]⟩, ⟨2, [2]⟩, ⟨1, [3]⟩] = [(1, [[1], [3]]), (2, [[2]])] := by decide

/-! ### the relay of an association: every datagram, of every length -/

/-- every frame the reader yields is written, in order, once — empty payloads included — for every history -/
theorem relay_delivers_all (fs : List Frame) : relayFrames (fs.map (fun f => Res.ok (some f))) = fs := by
  induction fs with
  | nil => rfl
  | cons f rest ih => simp [relayFrames, ih]

/-- a zero-length datagram in the middle of an association: with the writer's byte count as end-of-source signal
    (seeded change C10d) everything behind it is lost -/
theorem empty_datagram_must_not_end_the_relay :
    relayFramesLenStops ([⟨some 1, [1]⟩, ⟨some 1, []⟩, ⟨some 1, [2]⟩].map (fun f => Res.ok (some f))) = [⟨some 1, [1]⟩, ⟨some 1, []⟩] := by
  decide

end Redproxy.Props.C10
