import Redproxy.Props.C01
/-!
  C04 — end-of-stream and abort are relayed faithfully, identically in both I/O modes (relay logic; RST timing and
  TLS close_notify are observed end to end, not modelled).
-/
namespace Redproxy.Props.C04
open Redproxy Redproxy.Relay Redproxy.Props.C01

/-- where the half-close sits in what the destination observes -/
def endsWithShutdown : List Out → Bool
  | [] => false
  | [.shutdown] => true
  | _ :: r => endsWithShutdown r

def shutdownCount : List Out → Nat
  | [] => 0
  | .shutdown :: r => 1 + shutdownCount r
  | _ :: r => shutdownCount r

/-- **EOF after all bytes** (buffered): when the source ends its stream cleanly, the destination is half-closed
    exactly once, as the LAST thing it observes — after every byte, each flushed — and the half returns `Ok` -/
theorem eof_after_all_bytes (chunks : List Bytes) :
    endsWithShutdown (copyHalf chunks .eof).outs = true ∧ shutdownCount (copyHalf chunks .eof).outs = 1 ∧
    (copyHalf chunks .eof).ok = true ∧ delivered (copyHalf chunks .eof).outs = chunks.flatten := by
  refine ⟨?_, ?_, ?_, (relay_buffered_fidelity chunks .eof).1⟩
  · induction chunks with
    | nil => rfl
    | cons c rest ih =>
      simp only [copyHalf, endsWithShutdown]
      cases h : (copyHalf rest .eof).outs with
      | nil => rw [h] at ih; simp [endsWithShutdown] at ih
      | cons x xs => rw [h] at ih; simpa [endsWithShutdown] using ih
  · induction chunks with
    | nil => rfl
    | cons c rest ih => simpa [copyHalf, shutdownCount] using ih
  · induction chunks with
    | nil => rfl
    | cons c rest ih => simpa [copyHalf] using ih

/-- an aborted source (read error / RST) never produces a half-close: the error is returned instead -/
theorem reset_no_shutdown (chunks : List Bytes) :
    shutdownCount (copyHalf chunks .reset).outs = 0 ∧ (copyHalf chunks .reset).ok = false := by
  constructor
  · induction chunks with
    | nil => rfl
    | cons c rest ih => simpa [copyHalf, shutdownCount] using ih
  · induction chunks with
    | nil => rfl
    | cons c rest ih => simpa [copyHalf] using ih

/-- **the opposite direction keeps flowing**: a clean EOF in one direction changes nothing in the other — it
    still delivers everything its own sender writes before its own EOF -/
theorem other_direction_unaffected (c2s s2c : List Bytes) (se : End) :
    delivered (copyBidi c2s .eof s2c se).toClient = s2c.flatten ∧
    delivered (copyBidi c2s .eof s2c se).toServer = c2s.flatten := by
  simp [copyBidi, (relay_buffered_fidelity _ _).1]

/-- **both done ⇒ closed, recorded as finished**: `copy_bidi` returns `Ok` exactly when both directions ended
    cleanly, and in every case both sockets are dropped when it returns -/
theorem both_done_closes (c2s s2c : List Bytes) (ce se : End) :
    ((copyBidi c2s ce s2c se).ok = true ↔ ce = .eof ∧ se = .eof) ∧ (copyBidi c2s ce s2c se).closedBoth = true := by
  refine ⟨?_, rfl⟩
  have hk : ∀ (ch : List Bytes) (e : End), (copyHalf ch e).ok = true ↔ e = .eof := by
    intro ch e
    cases e
    · simp [(eof_after_all_bytes ch).2.2.1]
    · simp [(reset_no_shutdown ch).2]
  simp [copyBidi, hk]

/-- **abort closes both**: if either endpoint aborts, `copy_bidi` returns an error (recorded as ErrorOccured by
    `process_request`) and both sockets are dropped -/
theorem abort_closes_both (c2s s2c : List Bytes) (ce se : End) (h : ce = .reset ∨ se = .reset) :
    (copyBidi c2s ce s2c se).ok = false ∧ (copyBidi c2s ce s2c se).closedBoth = true := by
  refine ⟨?_, rfl⟩
  have := (both_done_closes c2s s2c ce se).1
  cases hok : (copyBidi c2s ce s2c se).ok
  · rfl
  · rcases this.1 hok with ⟨h1, h2⟩
    rcases h with h | h
    · rw [h1] at h; cases h
    · rw [h2] at h; cases h

/-- strip the chunk boundaries: the byte stream and the position of the half-close are what a peer can observe -/
def observable (o : List Out) : Bytes × Bool := (delivered o, endsWithShutdown o)

private theorem endsWith_append_shutdown (a : List Out) (b : List Out) (hb : endsWithShutdown b = true) :
    endsWithShutdown (a ++ b) = true := by
  induction a with
  | nil => simpa using hb
  | cons x xs ih =>
    cases hxs : xs ++ b with
    | nil =>
      have : b = [] := by
        cases xs <;> simp at hxs; exact hxs
      subst this; simp [endsWithShutdown] at hb
    | cons y ys =>
      simp only [List.cons_append, hxs]
      rw [hxs] at ih
      cases x <;> simpa [endsWithShutdown] using ih

/-- **both I/O modes behave the same** (repaired code): for every input, every way of ending and every sequence
    of partial `splice` results, the splice relay delivers the same byte stream, half-closes at the same point and
    returns the same result as the buffered relay -/
theorem modes_equivalent (chunks : List Bytes) (e : End) (script : List Nat) :
    delivered (copyHalfSplice chunks e script).outs = delivered (copyHalf chunks e).outs ∧
    (copyHalfSplice chunks e script).ok = (copyHalf chunks e).ok ∧
    (copyHalfSplice chunks e script).count = (copyHalf chunks e).count ∧
    shutdownCount (copyHalfSplice chunks e script).outs = shutdownCount (copyHalf chunks e).outs := by
  refine ⟨by rw [(relay_splice_fidelity chunks e script).1, (relay_buffered_fidelity chunks e).1], ?_,
    by rw [(relay_splice_fidelity chunks e script).2, (relay_buffered_fidelity chunks e).2], ?_⟩
  · induction chunks generalizing script with
    | nil => cases e <;> rfl
    | cons c rest ih => simp only [copyHalfSplice, copyHalf]; exact ih _
  · have hsc : ∀ (a b : List Out), shutdownCount (a ++ b) = shutdownCount a + shutdownCount b := by
      intro a b
      induction a with
      | nil => simp [shutdownCount]
      | cons x xs ihx => cases x <;> simp [shutdownCount, ihx] <;> omega
    have hdr : ∀ (fuel : Nat) (pipe : Bytes) (s : List Nat), shutdownCount (drainPipe fuel pipe s).1 = 0 := by
      intro fuel
      induction fuel with
      | zero => intro pipe s; rfl
      | succ fuel ihf =>
        intro pipe s
        cases pipe with
        | nil => rfl
        | cons b r => cases s <;> simp [drainPipe, shutdownCount, ihf]
    induction chunks generalizing script with
    | nil => cases e <;> rfl
    | cons c rest ih =>
      simp only [copyHalfSplice, copyHalf, hsc, hdr, shutdownCount, Nat.zero_add]
      exact ih _

/-- at the pinned commit the two modes differed: the splice relay never half-closed the destination
    (fixed; kernel-checked run of the old model) -/
theorem modes_differed_before_fix :
    shutdownCount (copyHalfSpliceOld [] [[1, 2]] .eof []).outs = 0 ∧ shutdownCount (copyHalf [[1, 2]] .eof).outs = 1 := by
  decide

/-! ### non-vacuity -/
example : (copyHalf [[1], [2, 3]] .eof).outs = [.data [1], .flush, .data [2, 3], .flush, .shutdown] := by decide
example : (copyBidi [[1]] .eof [[2]] .reset).ok = false := by decide

end Redproxy.Props.C04
