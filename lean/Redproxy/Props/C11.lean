import Redproxy.Model.Fragment
namespace Redproxy.Props.C11
open Redproxy.Fragment
theorem stub : divCeil 10 4 = 3 := by decide
end Redproxy.Props.C11
