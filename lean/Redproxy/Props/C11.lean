import Redproxy.Lemmas.Fragment
/-!
# C11 — fragmentation / reassembly is exact under reordering, duplication and interleaving

Property theorems about `Redproxy.Fragment` (model of `src/common/fragment.rs`), all unbounded:

* `make_fragments_sound`     sender: the payloads of the fragments concatenate to the frame, there are
                             `⌈len/(mtu-4)⌉ ≤ 127` of them, each fits the MTU, headers number them `0..n-1`
* `too_many_refused`         more than 127 fragments: nothing is emitted (the writer reports an error)
* `single_fragment_exact`    a one-fragment frame is delivered as is and leaves no state
* `reasm_follows_spec`       MAIN: for every frame of 2..127 fragments, every arrival sequence of its fragments
                             (any order, any duplicates) interleaved with ARBITRARY datagrams of other ids
                             (well-formed, malformed, short), reassembly emits exactly what the seen-set
                             specification says: the original buffer at the step where the set of distinct
                             fragments seen becomes complete, nothing at any other step
* `spec_incomplete_silent`, `spec_first_completion`   consequences for the specification: never-completed ⇒ nothing;
                             the first completion happens exactly when the last missing fragment arrives
* `other_ids_untouched`      a datagram never changes the reassembly state of any other id (frames independent)
* `inconsistent_ignored`     a fragment whose `total` differs from the frame being reassembled under its id is ignored
* `no_panic`                 invariant over every history of datagrams and timer calls: no panic site is reachable
* `timer_only_expired`       the timer removes a queue only if that queue's own deadline has passed
                             (a stale FIFO entry of a completed frame cannot evict a newer frame reusing the id)
-/
namespace Redproxy.Props.C11
open Redproxy Redproxy.Fragment

/-! ## sender -/

theorem make_fragments_sound (mtu id : Nat) (buf : Bytes) (hm : 4 < mtu)
    (hn : divCeil buf.length (mtu - 4) ≤ 127) :
    ∃ cs : List Bytes,
      makeFragments mtu id buf = .ok (withHeaders id (divCeil buf.length (mtu - 4)) 0 cs) ∧
      cs.flatten = buf ∧ cs.length = divCeil buf.length (mtu - 4) ∧
      (∀ c ∈ cs, c ≠ [] ∧ c.length + 4 ≤ mtu) ∧
      (∀ i, (withHeaders id (divCeil buf.length (mtu - 4)) 0 cs)[i]? =
              (cs[i]?).map (fun c => header id (divCeil buf.length (mtu - 4)) i ++ c)) := by
  refine ⟨chunks (mtu - 4) buf, ?_, chunks_flatten _ (by omega) _, chunks_length _ (by omega) _, ?_, ?_⟩
  · unfold makeFragments
    have h1 : ¬ mtu ≤ 4 := by omega
    have h2 : ¬ divCeil buf.length (mtu - 4) > 127 := by omega
    simp [h1, h2]
  · intro c hc
    have := chunks_bound (mtu - 4) (by omega) buf c hc
    exact ⟨this.1, by omega⟩
  · intro i
    have := withHeaders_getElem? id (divCeil buf.length (mtu - 4)) 0 (chunks (mtu - 4) buf) i
    simpa using this

theorem too_many_refused (mtu id : Nat) (buf : Bytes) (hm : 4 < mtu)
    (hn : 127 < divCeil buf.length (mtu - 4)) :
    makeFragments mtu id buf = .ok [] ∧ tooLarge mtu buf = true := by
  unfold makeFragments tooLarge
  have h1 : ¬ mtu ≤ 4 := by omega
  simp [h1, hn]

/-- non-vacuity: a 10-byte frame at mtu 8 gives the 3 fragments of the repository's own unit test -/
example : makeFragments 8 0 [49,50,51,52,53,54,55,56,57,48] =
    .ok [[0,0,3,0,49,50,51,52], [0,0,3,1,53,54,55,56], [0,0,3,2,57,48]] := by
  simp [makeFragments, divCeil, chunks, withHeaders, header]

/-! ## receiver: specification -/

/-- fragment `i` of the frame with id `id` whose payload chunks are `ps` (`n = ps.length`) -/
def frag (id n : Nat) (ps : List Bytes) (i : Nat) : Bytes := header id n i ++ (ps[i]?).getD []

/-- seen-set specification: `seen` = distinct fragment numbers received in the current round;
    returns the new set and whether the frame is emitted at this step -/
def specStep (n : Nat) (seen : List Nat) (i : Nat) : List Nat × Bool :=
  if i ∈ seen then (seen, false)
  else if ∀ j, j < n → (j = i ∨ j ∈ seen) then ([], true)
  else (i :: seen, false)

/-- what the model state must look like for id `id` when the specification has seen `seen` -/
def Rel (id n : Nat) (ps : List Bytes) (st : St) (seen : List Nat) : Prop :=
  match st.queue.get id with
  | none => seen = []
  | some q => seen ≠ [] ∧ q.frags.length = n ∧ q.bitmap < 2 ^ 128 ∧
      (∀ j, j < 128 → q.bitmap.testBit j = (decide (n ≤ j) || decide (j ∈ seen))) ∧
      (∀ j, j ∈ seen → j < n ∧ q.frags[j]? = ps[j]?) ∧ (∃ j, j < n ∧ j ∉ seen)

theorem header_decode (id n i : Nat) (hid : id < 65536) (hn : n ≤ 127) (hi : i < n) :
    be16 (id / 256 % 256) (id % 256) = id ∧ n % 256 = n ∧ i % 256 = i := by
  unfold be16; omega

theorem step_own (timeout now id n i : Nat) (ps : List Bytes) (st : St) (seen : List Nat)
    (hid : id < 65536) (hn2 : 2 ≤ n) (hn : n ≤ 127) (hps : ps.length = n) (hi : i < n)
    (hR : Rel id n ps st seen) :
    Rel id n ps (reassemble timeout st now (frag id n ps i)).1 (specStep n seen i).1 ∧
    (reassemble timeout st now (frag id n ps i)).2 =
      (if (specStep n seen i).2 then Out.frame ps.flatten else Out.none) := by
  obtain ⟨e1, e2, e3⟩ := header_decode id n i hid hn hi
  have hpi : ps[i]? = some ((ps[i]?).getD []) := by
    have : i < ps.length := by omega
    simp [List.getElem?_eq_getElem this]
  generalize hp : (ps[i]?).getD [] = p at hpi
  have c1 : ¬ (n = 0 ∨ n > 127 ∨ i ≥ n) := by omega
  have c2 : ¬ (n = 1 ∧ i = 0) := by omega
  unfold Rel at hR
  simp only [frag, header, hp, List.cons_append, List.nil_append, reassemble, e1, e2, e3, c1, c2, if_false]
  cases hq : st.queue.get id with
  | none =>
    rw [hq] at hR
    subst hR
    have hnew : RQ.new n i p (now + timeout) = some
        { bitmap := ((full128 <<< n) % 2 ^ 128) ||| (1 <<< i),
          frags := (List.replicate n ([] : Bytes)).set i p, deadline := now + timeout } := by
      unfold RQ.new
      have : ¬ (n ≥ 128 ∨ i ≥ 128 ∨ i ≥ n) := by omega
      simp [this]
    have hspec : specStep n [] i = ([i], false) := by
      unfold specStep
      have : ¬ ∀ j, j < n → (j = i ∨ j ∈ ([] : List Nat)) := by
        intro h
        by_cases h0 : i = 0
        · have := h 1 (by omega); simp at this; omega
        · have := h 0 (by omega); simp at this; omega
      rw [if_neg (by simp), if_neg this]
    simp only [hnew, hspec]
    refine ⟨?_, by simp⟩
    unfold Rel
    simp only [AMap.get_set_self]
    refine ⟨by simp, by simp, newmap_lt n i (by omega), ?_, ?_, ?_⟩
    · intro j hj
      rw [testBit_newmap n i j hj]
      by_cases hji : i = j
      · subst hji; simp
      · have : ¬ j = i := fun e => hji e.symm
        simp [hji, this]
    · intro j hj
      simp only [List.mem_singleton] at hj
      subst hj
      refine ⟨hi, ?_⟩
      simp [List.getElem?_set, hi, hpi]
    · by_cases h0 : i = 0
      · exact ⟨1, by omega, by simp; omega⟩
      · exact ⟨0, by omega, by simp; omega⟩
  | some q =>
    rw [hq] at hR
    obtain ⟨hne, hlen, hlt, hbits, hfr, hmiss⟩ := hR
    have c3 : ¬ (q.frags.length ≠ n) := by omega
    have c4 : ¬ (i ≥ 128) := by omega
    have hbi : q.bitmap.testBit i = decide (i ∈ seen) := by
      rw [hbits i (by omega)]
      have : ¬ n ≤ i := by omega
      simp [this]
    simp only [c3, c4, if_false, hbi]
    by_cases hin : i ∈ seen
    · have hspec : specStep n seen i = (seen, false) := by simp [specStep, hin]
      simp only [hin, decide_true, if_true, hspec]
      refine ⟨?_, by simp⟩
      unfold Rel; rw [hq]; exact ⟨hne, hlen, hlt, hbits, hfr, hmiss⟩
    · have c5 : ¬ (i ≥ q.frags.length) := by omega
      simp only [hin, decide_false, c5, if_false, Bool.false_eq_true]
      have hlt' : q.bitmap ||| (1 <<< i) < 2 ^ 128 := setbit_lt hlt (by omega)
      have hbits' : ∀ j, j < 128 → (q.bitmap ||| (1 <<< i)).testBit j =
          (decide (n ≤ j) || decide (j ∈ i :: seen)) := by
        intro j hj
        rw [testBit_setbit, hbits j hj]
        by_cases hji : i = j
        · subst hji; simp
        · have : ¬ j = i := fun e => hji e.symm
          simp [hji, this]
      have hfull : (q.bitmap ||| (1 <<< i) = full128) ↔ ∀ j, j < n → (j = i ∨ j ∈ seen) := by
        rw [eq_full128_iff hlt']
        constructor
        · intro h j hj
          have := h j (by omega)
          rw [hbits' j (by omega)] at this
          have hnj : ¬ n ≤ j := by omega
          simpa [hnj] using this
        · intro h j hj
          rw [hbits' j hj]
          by_cases hnj : n ≤ j
          · simp [hnj]
          · have := h j (by omega)
            simp [hnj, this]
      by_cases hall : ∀ j, j < n → (j = i ∨ j ∈ seen)
      · have hspec : specStep n seen i = ([], true) := by
          unfold specStep; rw [if_neg hin, if_pos hall]
        have hf := hfull.mpr hall
        simp only [hf, if_true, hspec]
        have hfrags : q.frags.set i p = ps := by
          apply List.ext_getElem?
          intro j
          rw [List.getElem?_set]
          by_cases hji : i = j
          · subst hji; simp [c5, hpi]
          · simp only [hji, if_false]
            by_cases hjn : j < n
            · have := hall j hjn
              cases this with
              | inl e => exact absurd e.symm hji
              | inr hm => exact (hfr j hm).2
            · have h1 : q.frags[j]? = none := by
                apply List.getElem?_eq_none; omega
              have h2 : ps[j]? = none := by
                apply List.getElem?_eq_none; omega
              rw [h1, h2]
        refine ⟨?_, by simp [hfrags]⟩
        unfold Rel
        simp
      · have hspec : specStep n seen i = (i :: seen, false) := by
          unfold specStep; rw [if_neg hin, if_neg hall]
        have hf : ¬ (q.bitmap ||| (1 <<< i) = full128) := fun e => hall (hfull.mp e)
        simp only [hf, if_false, hspec]
        refine ⟨?_, by simp⟩
        unfold Rel
        simp only [AMap.get_set_self]
        refine ⟨by simp, by simp [hlen], hlt', hbits', ?_, ?_⟩
        · intro j hj
          simp only [List.mem_cons] at hj
          rw [List.getElem?_set]
          cases hj with
          | inl e =>
            subst e
            refine ⟨hi, ?_⟩
            simp [c5, hpi]
          | inr hm =>
            have hji : ¬ i = j := fun e => hin (e ▸ hm)
            simp only [hji, if_false]
            exact hfr j hm
        · have : ∃ j, j < n ∧ ¬ (j = i ∨ j ∈ seen) := by
            apply Classical.byContradiction
            intro hno
            apply hall
            intro j hj
            apply Classical.byContradiction
            intro hc
            exact hno ⟨j, hj, hc⟩
          obtain ⟨j, hj, hnot⟩ := this
          exact ⟨j, hj, by simpa [List.mem_cons] using hnot⟩


/-! ## independence of ids -/

/-- the datagram does not carry id `id` (too short to have a header, or a different id) -/
def OtherId (id : Nat) (d : Bytes) : Prop :=
  match d with
  | a :: b :: _ :: _ :: _ => be16 a b ≠ id
  | _ => True

/-- a datagram never changes the reassembly state of any other id -/
theorem other_ids_untouched (timeout now k : Nat) (st : St) (d : Bytes) (h : OtherId k d) :
    (reassemble timeout st now d).1.queue.get k = st.queue.get k := by
  unfold reassemble
  split
  · rename_i i1 i0 total seq payload
    simp only [OtherId] at h
    have hk : k ≠ be16 i1 i0 := fun e => h e.symm
    by_cases c1 : (total = 0 ∨ total > 127 ∨ seq ≥ total)
    · simp [c1]
    · by_cases c2 : (total = 1 ∧ seq = 0)
      · simp [c1, c2]
      · simp only [c1, c2, if_false]
        cases hq : st.queue.get (be16 i1 i0) with
        | none =>
          cases hnew : RQ.new total seq payload (now + timeout) with
          | none => rfl
          | some q => simp only [AMap.get_set_ne _ _ hk]
        | some q =>
          simp only []
          repeat' split
          all_goals first | rfl | simp only [AMap.get_erase_ne _ hk, AMap.get_set_ne _ _ hk]
  · rfl

theorem single_fragment_exact (timeout now id : Nat) (st : St) (p : Bytes) :
    reassemble timeout st now (header id 1 0 ++ p) = (st, Out.frame p) := by
  simp [header, reassemble]

/-- a fragment whose `total` disagrees with the frame being reassembled under its id changes nothing -/
theorem inconsistent_ignored (timeout now : Nat) (st : St) (i1 i0 total seq : Nat) (payload : Bytes) (q : RQ)
    (hq : st.queue.get (be16 i1 i0) = some q) (hne : q.frags.length ≠ total) (h1 : ¬ (total = 1 ∧ seq = 0)) :
    reassemble timeout st now (i1 :: i0 :: total :: seq :: payload) = (st, Out.none) := by
  simp only [reassemble, hq]
  split
  · rfl
  · simp [h1, hne]

/-! ## MAIN: any arrival sequence, interleaved with arbitrary foreign traffic -/

inductive Ev where
  | own (now i : Nat)              -- fragment `i` of our frame arrives at time `now`
  | other (now : Nat) (d : Bytes)  -- any datagram not carrying our id arrives

def EvOk (id n : Nat) : Ev → Prop
  | .own _ i => i < n
  | .other _ d => OtherId id d

/-- outputs of the model for our fragments (`none` for foreign datagrams, whose output is not constrained) -/
def runEv (timeout id n : Nat) (ps : List Bytes) : St → List Ev → List (Option Out)
  | _, [] => []
  | st, .own now i :: evs =>
    let r := reassemble timeout st now (frag id n ps i)
    some r.2 :: runEv timeout id n ps r.1 evs
  | st, .other now d :: evs =>
    none :: runEv timeout id n ps (reassemble timeout st now d).1 evs

/-- what the seen-set specification prescribes -/
def specEv (n : Nat) (buf : Bytes) : List Nat → List Ev → List (Option Out)
  | _, [] => []
  | seen, .own _ i :: evs =>
    some (if (specStep n seen i).2 then Out.frame buf else Out.none) :: specEv n buf (specStep n seen i).1 evs
  | seen, .other _ _ :: evs => none :: specEv n buf seen evs

theorem reasm_follows_spec (timeout id n : Nat) (ps : List Bytes)
    (hid : id < 65536) (hn2 : 2 ≤ n) (hn : n ≤ 127) (hps : ps.length = n)
    (evs : List Ev) (hev : ∀ e ∈ evs, EvOk id n e) (st : St) (seen : List Nat) (hR : Rel id n ps st seen) :
    runEv timeout id n ps st evs = specEv n ps.flatten seen evs := by
  induction evs generalizing st seen with
  | nil => rfl
  | cons e evs ih =>
    have he := hev e (by simp)
    have hev' : ∀ e ∈ evs, EvOk id n e := fun e h => hev e (by simp [h])
    cases e with
    | own now i =>
      have := step_own timeout now id n i ps st seen hid hn2 hn hps he hR
      simp only [runEv, specEv, this.2]
      rw [ih hev' _ _ this.1]
    | other now d =>
      simp only [runEv, specEv]
      rw [ih hev' _ seen]
      unfold Rel
      rw [other_ids_untouched timeout now id st d he]
      exact hR

/-- the initial state (and any state without an entry for `id`) is related to the empty seen-set -/
theorem rel_init (id n : Nat) (ps : List Bytes) (st : St) (h : st.queue.get id = none) : Rel id n ps st [] := by
  unfold Rel; rw [h]

/-- end-to-end corollary: sender ∘ receiver.  For every buffer and MTU giving 2..127 fragments, the fragments
    produced by `makeFragments`, arriving in any order with any duplicates and interleaved with arbitrary foreign
    datagrams, are reassembled to exactly `buf` at exactly the steps the specification names. -/
theorem frag_reasm_exact (timeout mtu id : Nat) (buf : Bytes) (hm : 4 < mtu) (hid : id < 65536)
    (hn2 : 2 ≤ divCeil buf.length (mtu - 4)) (hn : divCeil buf.length (mtu - 4) ≤ 127)
    (evs : List Ev) (hev : ∀ e ∈ evs, EvOk id (divCeil buf.length (mtu - 4)) e)
    (st : St) (hst : st.queue.get id = none) :
    ∃ frs ps, makeFragments mtu id buf = .ok frs ∧
      (∀ i, i < divCeil buf.length (mtu - 4) → frs[i]? = some (frag id (divCeil buf.length (mtu - 4)) ps i)) ∧
      runEv timeout id (divCeil buf.length (mtu - 4)) ps st evs =
        specEv (divCeil buf.length (mtu - 4)) buf [] evs := by
  obtain ⟨cs, h1, h2, h3, _, h5⟩ := make_fragments_sound mtu id buf hm hn
  refine ⟨_, cs, h1, ?_, ?_⟩
  · intro i hi
    rw [h5 i]
    have : i < cs.length := by omega
    simp [frag, List.getElem?_eq_getElem this]
  · have := reasm_follows_spec timeout id _ cs hid hn2 hn h3 evs hev st [] (rel_init _ _ _ _ hst)
    rw [h2] at this
    exact this

/-! ## no panic site is reachable, for every history of datagrams and timer calls (also serves C05) -/

/-- state invariant: every queue has at most 127 slots and all bitmap bits from its length up to 127 are set
    (so a clear bit always denotes a valid slot index) -/
def Inv (st : St) : Prop := ∀ k q, st.queue.get k = some q →
  q.frags.length ≤ 127 ∧ ∀ j, q.frags.length ≤ j → j < 128 → q.bitmap.testBit j = true

theorem inv_init : Inv {} := by
  intro k q h; simp [AMap.get] at h

theorem inv_set (st : St) (id : Nat) (q : RQ) (tm : List (Nat × Nat)) (h : Inv st)
    (hq : q.frags.length ≤ 127 ∧ ∀ j, q.frags.length ≤ j → j < 128 → q.bitmap.testBit j = true) :
    Inv { queue := st.queue.set id q, timer := tm } := by
  intro k q' hk
  by_cases e : k = id
  · subst e; simp only [AMap.get_set_self, Option.some.injEq] at hk; subst hk; exact hq
  · simp only [AMap.get_set_ne _ _ e] at hk; exact h k q' hk

theorem inv_erase (st : St) (id : Nat) (tm : List (Nat × Nat)) (h : Inv st) :
    Inv { queue := st.queue.erase id, timer := tm } := by
  intro k q' hk
  by_cases e : k = id
  · subst e; simp at hk
  · simp only [AMap.get_erase_ne _ e] at hk; exact h k q' hk

theorem reassemble_safe (timeout now : Nat) (st : St) (d : Bytes) (h : Inv st) :
    (∀ s, (reassemble timeout st now d).2 ≠ Out.panic s) ∧ Inv (reassemble timeout st now d).1 := by
  unfold reassemble
  split
  · rename_i i1 i0 total seq payload
    by_cases c1 : (total = 0 ∨ total > 127 ∨ seq ≥ total)
    · simp [c1]; exact h
    · by_cases c2 : (total = 1 ∧ seq = 0)
      · simp [c1, c2]; exact h
      · simp only [c1, c2, if_false]
        cases hq : st.queue.get (be16 i1 i0) with
        | none =>
          have hnew : RQ.new total seq payload (now + timeout) = some
              { bitmap := ((full128 <<< total) % 2 ^ 128) ||| (1 <<< seq),
                frags := (List.replicate total ([] : Bytes)).set seq payload, deadline := now + timeout } := by
            unfold RQ.new
            have : ¬ (total ≥ 128 ∨ seq ≥ 128 ∨ seq ≥ total) := by omega
            simp [this]
          simp only [hnew]
          refine ⟨by simp, inv_set st _ _ _ h ⟨by simp; omega, ?_⟩⟩
          intro j hj hj'
          simp only [List.length_set, List.length_replicate] at hj
          rw [testBit_newmap total seq j hj']
          simp [hj]
        | some q =>
          obtain ⟨hql, hqb⟩ := h _ q hq
          simp only []
          by_cases c3 : q.frags.length ≠ total
          · simp [c3]; exact h
          · have c4 : ¬ seq ≥ 128 := by omega
            simp only [c3, c4, if_false]
            by_cases c5 : q.bitmap.testBit seq = true
            · simp [c5]; exact h
            · have c6 : ¬ seq ≥ q.frags.length := by
                intro hge
                exact c5 (hqb seq hge (by omega))
              rw [if_neg c5, if_neg c6]
              by_cases c7 : q.bitmap ||| (1 <<< seq) = full128
              · rw [if_pos c7]
                exact ⟨by simp, inv_erase st _ _ h⟩
              · rw [if_neg c7]
                refine ⟨by simp, inv_set st _ _ _ h ⟨by simp; omega, ?_⟩⟩
                intro j hj hj'
                simp only [List.length_set] at hj
                rw [testBit_setbit, hqb j hj hj']
                simp
  · exact ⟨by simp, h⟩

/-- what the timer may do to the queue of any id `k`: nothing, or remove it if its own deadline has passed -/
theorem timerGo_get (now : Nat) (l : List (Nat × Nat)) (queue : AMap RQ) (k : Nat) :
    (timerGo queue now l).queue.get k = queue.get k ∨
    (∃ q, queue.get k = some q ∧ q.deadline < now ∧ (timerGo queue now l).queue.get k = none) := by
  induction l generalizing queue with
  | nil => left; rfl
  | cons e l ih =>
    obtain ⟨id, dl⟩ := e
    unfold timerGo
    by_cases hdl : dl < now
    · simp only [hdl, if_true]
      cases hq : queue.get id with
      | none => exact ih queue
      | some q =>
        simp only []
        by_cases hle : q.deadline ≤ dl
        · simp only [hle, if_true]
          by_cases e : k = id
          · subst e
            right
            refine ⟨q, hq, by omega, ?_⟩
            cases ih (queue.erase k) with
            | inl h => rw [h]; simp
            | inr h => exact h.choose_spec.2.2
          · cases ih (queue.erase id) with
            | inl h => left; rw [h, AMap.get_erase_ne _ e]
            | inr h =>
              obtain ⟨q', h1, h2, h3⟩ := h
              right
              rw [AMap.get_erase_ne _ e] at h1
              exact ⟨q', h1, h2, h3⟩
        · simp only [hle, if_false]; exact ih queue
    · simp [hdl]

/-- the timer removes a queue only if that queue's OWN deadline has passed: a stale FIFO entry left behind by a
    completed frame cannot evict a newer, still incomplete frame that reuses the id -/
theorem timer_only_expired (st : St) (now k : Nat) :
    (timer st now).queue.get k = st.queue.get k ∨
    (∃ q, st.queue.get k = some q ∧ q.deadline < now ∧ (timer st now).queue.get k = none) := by
  unfold timer
  exact timerGo_get now st.timer.reverse st.queue k

theorem timer_keeps_fresh (st : St) (now k : Nat) (q : RQ) (hq : st.queue.get k = some q) (hd : now ≤ q.deadline) :
    (timer st now).queue.get k = some q := by
  cases timer_only_expired st now k with
  | inl h => rw [h, hq]
  | inr h =>
    obtain ⟨q', h1, h2, _⟩ := h
    rw [hq] at h1
    simp only [Option.some.injEq] at h1
    subst h1; omega

theorem timer_inv (st : St) (now : Nat) (h : Inv st) : Inv (timer st now) := by
  intro k q hk
  cases timer_only_expired st now k with
  | inl e => rw [e] at hk; exact h k q hk
  | inr e => obtain ⟨_, _, _, e3⟩ := e; rw [e3] at hk; simp at hk

inductive Op where
  | dgram (now : Nat) (d : Bytes)
  | tick (now : Nat)

def stepOp (timeout : Nat) (st : St) : Op → St × Out
  | .dgram now d => reassemble timeout st now d
  | .tick now => (timer st now, Out.none)

def runOps (timeout : Nat) : St → List Op → List Out
  | _, [] => []
  | st, op :: ops => (stepOp timeout st op).2 :: runOps timeout (stepOp timeout st op).1 ops

/-- for EVERY history of datagrams (any bytes, any length) and timer calls from the initial state, at every
    clock value: no output is a panic, i.e. no `split_to`, index, or shift-overflow site is reachable -/
theorem no_panic (timeout : Nat) (ops : List Op) : ∀ o ∈ runOps timeout {} ops, ∀ s, o ≠ Out.panic s := by
  suffices H : ∀ st, Inv st → ∀ o ∈ runOps timeout st ops, ∀ s, o ≠ Out.panic s from H {} inv_init
  induction ops with
  | nil => intro st _ o ho; simp [runOps] at ho
  | cons op ops ih =>
    intro st hst o ho
    simp only [runOps, List.mem_cons] at ho
    have hstep : (∀ s, (stepOp timeout st op).2 ≠ Out.panic s) ∧ Inv (stepOp timeout st op).1 := by
      cases op with
      | dgram now d => exact reassemble_safe timeout now st d hst
      | tick now => exact ⟨by simp [stepOp], timer_inv st now hst⟩
    cases ho with
    | inl e => rw [e]; exact hstep.1
    | inr h => exact ih _ hstep.2 o h

/-- non-vacuity: hostile headers that crashed the unrepaired code (short datagram, total = 0, seq ≥ total,
    total = 200) are covered by the quantifier and yield `none` -/
example : runOps 5 {} [.dgram 0 [1, 2], .dgram 0 [0, 0, 0, 0, 9], .dgram 0 [0, 0, 3, 4, 9], .dgram 1 [0, 0, 200, 150, 9],
    .tick 9] = [.none, .none, .none, .none, .none] := by decide

/-! ## consequences for the specification (what "exactly once" means) -/

def specEmits (n : Nat) : List Nat → List Nat → List Bool
  | _, [] => []
  | seen, i :: is => (specStep n seen i).2 :: specEmits n (specStep n seen i).1 is

/-- a frame of which some fragment never arrives produces nothing, whatever else arrives how often -/
theorem spec_incomplete_silent (n : Nat) (is : List Nat) (seen : List Nat) (m : Nat) (hm : m < n)
    (hms : m ∉ seen) (hmi : m ∉ is) : ∀ b ∈ specEmits n seen is, b = false := by
  induction is generalizing seen with
  | nil => simp [specEmits]
  | cons i is ih =>
    have hne : m ≠ i := fun e => hmi (by simp [e])
    have hmi' : m ∉ is := fun h => hmi (by simp [h])
    have hnot : ¬ ∀ j, j < n → (j = i ∨ j ∈ seen) := by
      intro h
      cases h m hm with
      | inl e => exact hne e
      | inr h => exact hms h
    intro b hb
    simp only [specEmits, List.mem_cons] at hb
    by_cases hin : i ∈ seen
    · have e : specStep n seen i = (seen, false) := by unfold specStep; rw [if_pos hin]
      rw [e] at hb
      cases hb with
      | inl h => exact h
      | inr h => exact ih seen hms hmi' b h
    · have e : specStep n seen i = (i :: seen, false) := by unfold specStep; rw [if_neg hin, if_neg hnot]
      rw [e] at hb
      cases hb with
      | inl h => exact h
      | inr h =>
        refine ih (i :: seen) ?_ hmi' b h
        simp only [List.mem_cons]
        intro h'
        cases h' with
        | inl e => exact hne e
        | inr h' => exact hms h'

/-- the frame is emitted at the step at which the last missing fragment arrives (and the round restarts empty) -/
theorem spec_completion_step (n : Nat) (seen : List Nat) (i : Nat) (hi : i ∉ seen)
    (hall : ∀ j, j < n → (j = i ∨ j ∈ seen)) : specStep n seen i = ([], true) := by
  unfold specStep; rw [if_neg hi, if_pos hall]

/-- a duplicate of a fragment already seen in this round never emits and changes nothing -/
theorem spec_duplicate_silent (n : Nat) (seen : List Nat) (i : Nat) (hi : i ∈ seen) :
    specStep n seen i = (seen, false) := by
  unfold specStep; rw [if_pos hi]

/-- non-vacuity and a worked instance: 3 fragments arriving as 2,0,0,1 — one frame, at the last step -/
example : specEmits 3 [] [2, 0, 0, 1] = [false, false, false, true] := by decide

end Redproxy.Props.C11
