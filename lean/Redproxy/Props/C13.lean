import Redproxy.Model.Idle
/-!
  C13 — idle tunnels are closed after the configured timeout, and only then (the timeout logic and its wiring;
  wall-clock behaviour of the real process is observed, not modelled).
-/
namespace Redproxy.Props.C13
open Redproxy.Idle

/-- **wiring**: a TCP tunnel runs with `timeouts.idle`, a UDP association with `timeouts.udp`, whatever they are -/
theorem wiring (cfg : Timeouts) : tcpTunnelTimeout cfg = cfg.idle ∧ udpSessionTimeout cfg = cfg.udp := ⟨rfl, rfl⟩

/-- at the pinned commit `timeouts.idle` never reached a tunnel (fixed by 62086b6): kernel-checked witness -/
theorem wiring_was_broken : tcpTunnelTimeoutOld { idle := 3, udp := 3 } = 600 := by decide

theorem closed_stays (T : Nat) (s : S) (evs : List Ev) (t : Nat) (h : s.closedAt = some t) :
    (run T s evs).closedAt = some t := by
  induction evs generalizing s with
  | nil => exact h
  | cons e es ih => simp only [run, List.foldl_cons]; apply ih; simp [step, h]

/-- **zero disables**: with timeout 0 a tunnel is never closed for idleness, whatever happens -/
theorem zero_disables (s : S) (evs : List Ev) (h : s.closedAt = none) : (run 0 s evs).closedAt = none := by
  induction evs generalizing s with
  | nil => exact h
  | cons e es ih =>
    simp only [run, List.foldl_cons]
    apply ih
    cases e with
    | data c t => cases c <;> simp [step, h]
    | tick t => simp [step, h, isTimeout]

/-- the last activity seen by a run: the later of the two directions' last data -/
def lastActivity (s : S) : Nat := max s.lastC s.lastS

/-- **never early**: if a tunnel is closed for idleness at time `t`, then at that moment NEITHER direction had
    carried data within the period: both last-data times are more than `T` seconds before `t` (and `T ≠ 0`) -/
theorem never_early (T : Nat) (s : S) (evs : List Ev) (t : Nat) (h0 : s.closedAt = none)
    (h : (run T s evs).closedAt = some t) :
    T ≠ 0 ∧ ∃ pre post, evs = pre ++ Ev.tick t :: post ∧
      t - (run T s pre).lastC > T * 1000 ∧ t - (run T s pre).lastS > T * 1000 ∧ (run T s pre).closedAt = none := by
  induction evs generalizing s with
  | nil => simp [run, h0] at h
  | cons e es ih =>
    simp only [run, List.foldl_cons] at h
    cases hc : (step T s e).closedAt with
    | none =>
      obtain ⟨hT, pre, post, he, h1, h2, h3⟩ := ih (step T s e) hc h
      exact ⟨hT, e :: pre, post, by simp [he], by simpa [run] using h1, by simpa [run] using h2, by simpa [run] using h3⟩
    | some t' =>
      have ht : t' = t := by
        have := closed_stays T (step T s e) es t' hc
        simp only [run] at this
        rw [this] at h
        exact Option.some.inj h
      subst ht
      cases e with
      | data c tt => cases c <;> simp [step, h0] at hc
      | tick tt =>
        simp only [step, h0] at hc
        split at hc
        · rename_i hcond
          simp only [Option.some.injEq] at hc
          subst hc
          simp only [isTimeout, Bool.and_eq_true, bne_iff_ne, ne_eq, decide_eq_true_eq] at hcond
          exact ⟨hcond.1.1, [], es, rfl, by simpa [run] using hcond.1.2, by simpa [run] using hcond.2.2, by simpa [run] using h0⟩
        · simp [h0] at hc

/-- **closes in time**: once a tick arrives more than `T` seconds after the last data of BOTH directions (and the
    timeout is not 0) the tunnel is closed at that tick at the latest -/
theorem closes_in_time (T : Nat) (s : S) (t : Nat) (hT : T ≠ 0) (h0 : s.closedAt = none)
    (hc : t - s.lastC > T * 1000) (hs : t - s.lastS > T * 1000) : (step T s (.tick t)).closedAt = some t := by
  simp [step, h0, isTimeout, hT, hc, hs]

/-- with ticks every second the close comes at most one second after the period has elapsed: among the ticks
    `t0, t0+1000, t0+2000, …` the first one later than `L + 1000·T` is at most `L + 1000·T + 1000` -/
theorem tick_within_granularity (t0 L T : Nat) (h : t0 ≤ L + T * 1000 + 1000) :
    ∃ k, L + T * 1000 < t0 + k * 1000 ∧ t0 + k * 1000 ≤ L + T * 1000 + 1000 := by
  refine ⟨(L + T * 1000 + 1000 - t0) / 1000, ?_, ?_⟩
  · have := Nat.div_add_mod (L + T * 1000 + 1000 - t0) 1000
    have hm := Nat.mod_lt (L + T * 1000 + 1000 - t0) (by decide : 1000 > 0)
    omega
  · have := Nat.div_mul_le_self (L + T * 1000 + 1000 - t0) 1000
    omega

/-! ### non-vacuity: the scenarios the correspondence run plays against the real binary (T = 2 s; the last-data stamps
    start at the context's creation = 0, the relay's ticker starts 5 ms later) -/
private def ticks (n : Nat) : List Ev := (List.range n).map (fun k => Ev.tick (5 + k * 1000))
private def ins (e : Ev) : List Ev → List Ev
  | [] => [e]
  | x :: xs => if e.time ≤ x.time then e :: x :: xs else x :: ins e xs
private def merge (evs : List Ev) : List Ev := evs.foldr ins []
/-- silent tunnel: closed at the first tick after 2 s -/
example : (run 2 { lastC := 0, lastS := 0 } (ticks 10)).closedAt = some 2005 := by decide
/-- a burst at 0.5 s then silence: still closed at 3 s… -/
example : (run 2 { lastC := 0, lastS := 0 } (merge (Ev.data true 505 :: Ev.data false 505 :: ticks 10))).closedAt = some 3005 := by decide
/-- … a trickle in one direction only (every second until 4.3 s) keeps the tunnel open until 7 s -/
example : (run 2 { lastC := 0, lastS := 0 }
    (merge ([305, 1305, 2305, 3305, 4305].map (Ev.data true) ++ ticks 10))).closedAt = some 7005 := by decide

/-- `timeouts.udp: 0` disables the timeout of UDP associations whatever `timeouts.idle` says; ignoring a 0 in the
    setter (seeded change C13c) hands them the TCP period instead -/
theorem udp_zero_is_applied (idle : Nat) : udpSessionTimeout { idle := idle, udp := 0 } = 0 ∧
    udpSessionTimeoutIgnoringZero { idle := 5, udp := 0 } = 5 := ⟨rfl, by decide⟩

/-- data that does not refresh `last_read` (seeded change C13d, splice path): a tunnel with traffic every 500 ms is
    closed at the first tick after the period, although a byte was relayed 500 ms before -/
theorem stale_last_read_closes_a_busy_tunnel :
    ([Ev.data true 500, .tick 1000, .data true 1500, .tick 2000, .data true 2500, .tick 3000].foldl (stepStaleOnSplice 2) { lastC := 0, lastS := 0 }).closedAt = some 3000 ∧
    (run 2 { lastC := 0, lastS := 0 } [Ev.data true 500, .tick 1000, .data true 1500, .tick 2000, .data true 2500, .tick 3000]).closedAt = none := by
  decide

end Redproxy.Props.C13
