import Redproxy.Model.Rd
/-!
  Model of the relay (`src/copy.rs`): `drain_buffers`, `copy_half` in its buffered and its splice form, `copy_bidi`.

  A direction's input is the list of chunks its `read`s return (each non-empty; any other segmentation of the same
  bytes is just another list) and the way the source ends.  The destination observes writes, flushes and at most
  one shutdown (half-close).  In the splice form the kernel decides how much of the pipe each `splice` moves to the
  destination: that is a script of numbers.
-/
namespace Redproxy.Relay
open Redproxy

inductive End | eof | reset
  deriving Repr, DecidableEq

/-- what the destination of one direction observes -/
inductive Out where
  | data (b : Bytes)
  | flush
  | shutdown
  deriving Repr, DecidableEq

structure HalfResult where
  outs : List Out
  ok : Bool           -- `copy_half` returned `Ok`
  count : Nat         -- `stat.incr_sent_bytes` total
  deriving Repr, DecidableEq

/-- buffered `copy_half`: `read` → `write_all` → `flush` per chunk; a zero-length read (EOF) ends the loop and the
    destination's write half is shut down; a read error returns `Err` at once -/
def copyHalf : List Bytes → End → HalfResult
  | [], .eof => { outs := [.shutdown], ok := true, count := 0 }
  | [], .reset => { outs := [], ok := false, count := 0 }
  | c :: rest, e =>
    let r := copyHalf rest e
    { outs := .data c :: .flush :: r.outs, ok := r.ok, count := c.length + r.count }

def delivered : List Out → Bytes
  | [] => []
  | .data b :: r => b ++ delivered r
  | _ :: r => delivered r

/-- one `splice` out of the pipe: the kernel moves `k` bytes (at least 1, at most what is there) -/
def spliceOut (pipe : Bytes) (k : Nat) : Bytes × Bytes :=
  let n := max 1 (min k pipe.length)
  (pipe.take n, pipe.drop n)

/-- drain the pipe with repeated `splice` calls (the loop of the repaired code); `script` gives the kernel's choices,
    an exhausted script means "everything that is left" -/
def drainPipe : Nat → Bytes → List Nat → List Out × List Nat
  | 0, _, s => ([], s)
  | _ + 1, [], s => ([], s)
  | fuel + 1, pipe, s =>
    let (k, s') := match s with
      | [] => (pipe.length, [])
      | k :: s' => (k, s')
    let (w, rest) := spliceOut pipe k
    let (outs, s'') := drainPipe fuel rest s'
    (.data w :: outs, s'')

/-- splice `copy_half` as repaired (fix: drain the pipe completely after every read; half-close at EOF) -/
def copyHalfSplice : List Bytes → End → List Nat → HalfResult
  | [], .eof, _ => { outs := [.shutdown], ok := true, count := 0 }
  | [], .reset, _ => { outs := [], ok := false, count := 0 }
  | c :: rest, e, s =>
    let (w, s') := drainPipe c.length c s
    let r := copyHalfSplice rest e s'
    { outs := w ++ r.outs, ok := r.ok, count := c.length + r.count }

/-- splice `copy_half` as it was at the pinned commit: ONE splice out of the pipe per read (what is not taken stays
    in the pipe and is written with the next read's data), nothing at EOF — neither the residue nor a half-close -/
def copyHalfSpliceOld : Bytes → List Bytes → End → List Nat → HalfResult
  | _, [], .eof, _ => { outs := [], ok := true, count := 0 }
  | _, [], .reset, _ => { outs := [], ok := false, count := 0 }
  | pipe, c :: rest, e, s =>
    let (k, s') := match s with
      | [] => ((pipe ++ c).length, [])
      | k :: s' => (k, s')
    let (w, left) := spliceOut (pipe ++ c) k
    let r := copyHalfSpliceOld left rest e s'
    { outs := .data w :: r.outs, ok := r.ok, count := c.length + r.count }

/-- `copy_bidi`: both halves run; the first error aborts the whole relay (both sockets are dropped);
    otherwise the result is `Ok` once both have finished -/
structure BidiResult where
  toServer : List Out
  toClient : List Out
  ok : Bool
  closedBoth : Bool        -- both sockets dropped when `copy_bidi` returns (always: the streams are owned by it)
  clientBytes : Nat
  serverBytes : Nat

def copyBidi (c2s : List Bytes) (ce : End) (s2c : List Bytes) (se : End) : BidiResult :=
  let a := copyHalf c2s ce
  let b := copyHalf s2c se
  { toServer := a.outs, toClient := b.outs, ok := a.ok && b.ok, closedBoth := true,
    clientBytes := a.count, serverBytes := b.count }

/-- `drain_buffers` + relay after a handshake: the read-ahead still in the `BufReader` is written to the other side
    first (and counted), then the relay forwards what arrives on the wire -/
def afterHandshake (s : SS) (e : End) : HalfResult :=
  let r := copyHalf (s.wire.filter (fun c => !c.isEmpty)) e
  { r with outs := (if s.buf = [] then [] else [.data s.buf]) ++ .flush :: r.outs, count := s.buf.length + r.count }

/-- `write_all(&sbuf[..len])` on a destination that accepts `n_i` bytes per `write` call (a script of short counts; a
    count is at least 1 — 0 would be the `WriteZero` error; an exhausted script = the destination takes the rest at
    once): each call continues at the offset the previous one reached.  Result: the bytes on the wire. -/
def writeAll : Nat → Bytes → List Nat → Bytes
  | 0, _, _ => []
  | _ + 1, [], _ => []
  | _ + 1, chunk, [] => chunk
  | f + 1, chunk, n :: ns =>
    let k := min (max n 1) chunk.length
    chunk.take k ++ writeAll f (chunk.drop k) ns

/-- the variant of seeded change C01d: after a short write the loop starts again at offset 0 of the chunk and only counts
    how much is left — the head is sent again, the tail never -/
def writeAllRestarting : Nat → Bytes → Nat → List Nat → Bytes
  | 0, _, _, _ => []
  | f + 1, chunk, left, script =>
    if left = 0 then [] else
    match script with
    | [] => chunk.take left
    | n :: ns =>
      let k := min (max n 1) left
      chunk.take k ++ writeAllRestarting f chunk (left - k) ns

end Redproxy.Relay
