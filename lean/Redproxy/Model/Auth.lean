import Redproxy.Model.Socks
/-!
  Model of peer authentication: the SOCKS gate (`PasswordAuth::select_method` in `src/common/socks.rs`, the handshake of
  `src/listeners/socks.rs`, `AuthData::check` and its verdict `Cache` in `src/common/auth.rs`) and the SELECTION of TLS
  verifiers per listener / connector kind (`src/common/tls.rs`, `src/common/quic.rs`).  rustls' own path validation and
  name matching are trusted, not modelled.
-/
namespace Redproxy.Auth
open Redproxy

abbrev Cred := Bytes × Bytes

structure AuthCfg where
  required : Bool
  users : List Cred
  hasCmd : Bool
  cacheTimeout : Nat            -- seconds; 0 = do not cache

/-- the verdict cache: (credentials, verdict, time stored) -/
abbrev Cache := List (Cred × Bool × Nat)

/-- an entry is evicted `timeout` seconds after it was stored (a timer per store) -/
def cacheLookup (c : Cache) (timeout now : Nat) (k : Cred) : Option Bool :=
  match c.find? (fun e => e.1 == k && now < e.2.2 + timeout) with
  | some e => some e.2.1
  | none => none

def cacheStore (c : Cache) (timeout now : Nat) (k : Cred) (v : Bool) : Cache :=
  if timeout == 0 then c else (k, v, now) :: c.filter (fun e => !(e.1 == k))

/-- `AuthData::check`: returns the verdict and the new cache; `cmd` is the external command (an oracle) -/
def check (cfg : AuthCfg) (cmd : Cred → Bool) (c : Cache) (now : Nat) (user : Option Cred) : Bool × Cache :=
  if !cfg.required then (true, c)
  else match user with
    | none => (false, c)
    | some u =>
      if cfg.users.contains u then (true, c)
      else if !cfg.hasCmd then (false, c)
      else match cacheLookup c cfg.cacheTimeout now u with
        | some v => (v, c)
        | none => let v := cmd u; (v, cacheStore c cfg.cacheTimeout now u v)

/-- what a SOCKS5 client does in the negotiation: the methods it offers (in order) and, if asked for
    username/password, the credentials it sends -/
structure Client5 where
  offered : Bytes
  creds : Cred

/-- the SOCKS5 gate: `some` = the request is routed; the credentials the server then checks -/
def socks5Gate (cfg : AuthCfg) (cl : Client5) : Option (Option Cred) :=
  match Socks.selectMethod cfg.required cl.offered with
  | none => none                      -- `05 FF`, connection closed
  | some 0 => some none               -- no authentication
  | some _ => some (some cl.creds)    -- RFC 1929 exchange

def socks5Routed (cfg : AuthCfg) (cmd : Cred → Bool) (c : Cache) (now : Nat) (cl : Client5) : Bool :=
  match socks5Gate cfg cl with
  | none => false
  | some u => (check cfg cmd c now u).1

/-- SOCKS4: the user id is the credential, with an empty password -/
def socks4Routed (cfg : AuthCfg) (cmd : Cred → Bool) (c : Cache) (now : Nat) (userId : Bytes) : Bool :=
  (check cfg cmd c now (some (userId, []))).1

/-! ### TLS verifier selection -/
inductive ClientVerifier | none | optional | required
  deriving Repr, DecidableEq

structure TlsClientPolicy where
  required : Bool

inductive ListenerKind | http | socks | quic
  deriving Repr, DecidableEq

/-- `TlsServerConfig::client_auth` as used by the http / socks listeners (`init`) and by `create_quic_server` -/
def clientVerifierOf (_k : ListenerKind) (policy : Option TlsClientPolicy) : ClientVerifier :=
  match policy with
  | none => .none
  | some p => if p.required then .required else .optional

/-- as it was at the pinned commit: the QUIC listener ignored `tls.client` (`with_no_client_auth()`) -/
def clientVerifierOfOld (k : ListenerKind) (policy : Option TlsClientPolicy) : ClientVerifier :=
  match k with
  | .quic => .none
  | _ => clientVerifierOf k policy

inductive ServerCheck | insecure | webpki
  deriving Repr, DecidableEq

/-- `TlsClientConfig::init` (http / socks connectors): the `insecure` flag selects the accept-all verifier;
    `create_quic_client` always uses the root store -/
def serverCheckOf (quic : Bool) (insecure : Bool) : ServerCheck :=
  if quic then .webpki else if insecure then .insecure else .webpki

/-- the handshake verdict given what the peer presents; `chains` / `nameOk` are rustls' verdicts (trusted) -/
def clientAdmitted (v : ClientVerifier) (presented : Option Bool /- chains to the configured CA -/) : Bool :=
  match v, presented with
  | .none, _ => true
  | .optional, none => true
  | .optional, some ok => ok
  | .required, none => false
  | .required, some ok => ok

def serverAccepted (c : ServerCheck) (chains nameOk : Bool) : Bool :=
  match c with
  | .insecure => true
  | .webpki => chains && nameOk

end Redproxy.Auth
