import Redproxy.Model.MiluEval
import Redproxy.Model.Cidr
/-!
  Model of the rule router: `GlobalState::set_rules` (`src/main.rs:46-66`), `Rule::init` / `Rule::evaluate`
  (`src/rules/mod.rs`), `Filter::validate` / `Filter::evaluate` (`src/rules/filter.rs`) and the decision part of
  `process_request` (`src/main.rs:179-247`) as an effect trace.
-/
namespace Redproxy.Route
open Redproxy.MiluEval

/-- a rule as configured: target name and optional filter text -/
structure RuleCfg where
  target : Str
  filter : Option Str
  deriving Repr

/-- a compiled rule: `target = none` is the reserved `deny` -/
structure CRule where
  target : Option Str
  filter : Option Expr

structure Conn where
  name : Str
  features : List Str          -- `Feature` names this connector can carry

def fuelFor (n : Nat) : Nat := 8 * n + 200

/-- `Rule::init`: parse the filter and require `type_of == Boolean` (the checker's `==`, so `any` passes) -/
def compileFilter (txt : Str) : Option Expr :=
  match Redproxy.Milu.parse txt with
  | .ok a _ =>
    (match ofAst a with
     | some e =>
       (match typeOf (fuelFor txt.length) [] e with
        | .ok t => if Ty.compat t .bool then some e else none
        | _ => none)
     | none => none)
  | _ => none

def compileRule (conns : List Conn) (r : RuleCfg) : Option CRule :=
  let flt : Option (Option Expr) := match r.filter with
    | none => some none
    | some txt => (compileFilter txt).map some
  match flt with
  | none => none
  | some f =>
    if r.target == "deny".toList then some { target := none, filter := f }
    else if conns.any (fun c => c.name == r.target) then some { target := some r.target, filter := f }
    else none

/-- all rules compile or nothing changes -/
def compileAll (conns : List Conn) : List RuleCfg → Option (List CRule)
  | [] => some []
  | r :: rest =>
    match compileRule conns r, compileAll conns rest with
    | some c, some cs => some (c :: cs)
    | _, _ => none

/-- `GlobalState::set_rules`: returns the new rule list, or `none` (error) leaving the old list in force -/
def setRules (conns : List Conn) (cur : List CRule) (cfgs : List RuleCfg) : List CRule × Bool :=
  match compileAll conns cfgs with
  | some rs => (rs, true)
  | none => (cur, false)

/-- `Filter::evaluate` then `Rule::evaluate`: a filter that fails to evaluate (or does not yield a boolean)
    counts as not matching; a rule without a filter matches everything -/
def ruleMatches (x : Ext) (q : Req) (fuel : Nat) (r : CRule) : Bool :=
  match r.filter with
  | none => true
  | some e =>
    match valueOf x q fuel [] e with
    | .ok (.bool b) => b
    | _ => false

inductive Refusal | noRule | denied | unsupportedFeature
  deriving Repr, DecidableEq

inductive Decision where
  | connect (c : Str)
  | refuse (why : Refusal)
  deriving Repr, DecidableEq

/-- `rules.iter().find_map(|x| if x.evaluate(ctx) { Some(x.target.clone()) } else { None })` -/
def firstMatch (x : Ext) (q : Req) (fuel : Nat) : List CRule → Option (Option Str)
  | [] => none
  | r :: rest => if ruleMatches x q fuel r then some r.target else firstMatch x q fuel rest

def hasFeature (conns : List Conn) (c : Str) (feature : Str) : Bool :=
  match conns.find? (fun k => k.name == c) with
  | some k => k.features.contains feature
  | none => false

def route (x : Ext) (q : Req) (fuel : Nat) (conns : List Conn) (rules : List CRule) : Decision :=
  match firstMatch x q fuel rules with
  | none => .refuse .noRule
  | some none => .refuse .denied
  | some (some c) => if hasFeature conns c q.feature then .connect c else .refuse .unsupportedFeature

/-- observable effects of `process_request` -/
inductive Eff where
  | setConnecting (c : Str)          -- state ServerConnecting + connector name recorded
  | connect (c : Str)                -- `connector.connect(..)` called: an upstream connection is opened
  | onConnect                        -- callback: the client is told "established"
  | relay                            -- `copy_bidi`: client payload is forwarded
  | onError                          -- callback: the client is refused / told about the failure
  | terminated
  | onFinish
  deriving Repr, DecidableEq

/-- `connectOk c` = the connector's `connect` succeeds; `relayOk` = `copy_bidi` returns `Ok` -/
def process (x : Ext) (q : Req) (fuel : Nat) (conns : List Conn) (rules : List CRule)
    (connectOk : Str → Bool) (relayOk : Bool) : List Eff :=
  match route x q fuel conns rules with
  | .refuse _ => [.onError]
  | .connect c =>
    if connectOk c then
      [.setConnecting c, .connect c, .onConnect, .relay] ++ (if relayOk then [.terminated, .onFinish] else [.onError])
    else [.setConnecting c, .connect c, .onError]

end Redproxy.Route
