import Redproxy.Model.MiluEval
import Redproxy.Model.Cidr
/-!
  Model of the rule router: `GlobalState::set_rules` (`src/main.rs:46-66`), `Rule::init` / `Rule::evaluate`
  (`src/rules/mod.rs`), `Filter::validate` / `Filter::evaluate` (`src/rules/filter.rs`) and the decision part of
  `process_request` (`src/main.rs:179-247`) as an effect trace.
-/
namespace Redproxy.Route
open Redproxy.MiluEval

/-- a rule as configured: target name and optional filter text -/
structure RuleCfg where
  target : Str
  filter : Option Str
  deriving Repr

/-- a compiled rule: `target = none` is the reserved `deny` -/
structure CRule where
  target : Option Str
  filter : Option Expr
  src : RuleCfg := { target := [], filter := none }     -- what `GET /rules` serialises: target name and filter text

structure Conn where
  name : Str
  features : List Str          -- `Feature` names this connector can carry

def fuelFor (n : Nat) : Nat := 8 * n + 200

/-- `Rule::init`: parse the filter and require `type_of == Boolean` (the checker's `==`, so `any` passes) -/
def compileFilter (txt : Str) : Option Expr :=
  match Redproxy.Milu.parse txt with
  | .ok a _ =>
    (match ofAst a with
     | some e =>
       (match typeOf (fuelFor txt.length) [] e with
        | .ok t => if Ty.compat t .bool then some e else none
        | _ => none)
     | none => none)
  | _ => none

/-- the filter part of `Rule::init`: `some none` = no filter, `none` = the filter does not compile -/
def compileFilterOpt (f : Option Str) : Option (Option Expr) :=
  match f with
  | none => some none
  | some txt => (compileFilter txt).map some

/-- target resolution in `set_rules`: `some none` = the reserved `deny`, `none` = unknown upstream -/
def resolveTarget (conns : List Conn) (t : Str) : Option (Option Str) :=
  if t == "deny".toList then some none
  else if conns.any (fun c => c.name == t) then some (some t)
  else none

def compileRule (conns : List Conn) (r : RuleCfg) : Option CRule :=
  match compileFilterOpt r.filter, resolveTarget conns r.target with
  | some f, some t => some { target := t, filter := f, src := r }
  | _, _ => none

/-- all rules compile or nothing changes -/
def compileAll (conns : List Conn) : List RuleCfg → Option (List CRule)
  | [] => some []
  | r :: rest =>
    match compileRule conns r, compileAll conns rest with
    | some c, some cs => some (c :: cs)
    | _, _ => none

/-- `GlobalState::set_rules`: returns the new rule list, or `none` (error) leaving the old list in force -/
def setRules (conns : List Conn) (cur : List CRule) (cfgs : List RuleCfg) : List CRule × Bool :=
  match compileAll conns cfgs with
  | some rs => (rs, true)
  | none => (cur, false)

/-- `Filter::evaluate` then `Rule::evaluate`: a filter that fails to evaluate (or does not yield a boolean)
    counts as not matching; a rule without a filter matches everything -/
def ruleMatches (x : Ext) (q : Req) (fuel : Nat) (r : CRule) : Bool :=
  match r.filter with
  | none => true
  | some e =>
    match valueOf x q fuel [] e with
    | .ok (.bool b) => b
    | _ => false

inductive Refusal | noRule | denied | unsupportedFeature
  deriving Repr, DecidableEq

inductive Decision where
  | connect (c : Str)
  | refuse (why : Refusal)
  deriving Repr, DecidableEq

/-- `rules.iter().find_map(|x| if x.evaluate(ctx) { Some(x.target.clone()) } else { None })` -/
def firstMatch (x : Ext) (q : Req) (fuel : Nat) : List CRule → Option (Option Str)
  | [] => none
  | r :: rest => if ruleMatches x q fuel r then some r.target else firstMatch x q fuel rest

def hasFeature (conns : List Conn) (c : Str) (feature : Str) : Bool :=
  match conns.find? (fun k => k.name == c) with
  | some k => k.features.contains feature
  | none => false

def route (x : Ext) (q : Req) (fuel : Nat) (conns : List Conn) (rules : List CRule) : Decision :=
  match firstMatch x q fuel rules with
  | none => .refuse .noRule
  | some none => .refuse .denied
  | some (some c) => if hasFeature conns c q.feature then .connect c else .refuse .unsupportedFeature

/-- observable effects of `process_request` -/
inductive Eff where
  | setConnecting (c : Str)          -- state ServerConnecting + connector name recorded
  | connect (c : Str)                -- `connector.connect(..)` called: an upstream connection is opened
  | onConnect                        -- callback: the client is told "established"
  | relay                            -- `copy_bidi`: client payload is forwarded
  | onError                          -- callback: the client is refused / told about the failure
  | terminated
  | onFinish
  deriving Repr, DecidableEq

/-- `connectOk c` = the connector's `connect` succeeds; `relayOk` = `copy_bidi` returns `Ok` -/
def process (x : Ext) (q : Req) (fuel : Nat) (conns : List Conn) (rules : List CRule)
    (connectOk : Str → Bool) (relayOk : Bool) : List Eff :=
  match route x q fuel conns rules with
  | .refuse _ => [.onError]
  | .connect c =>
    if connectOk c then
      [.setConnecting c, .connect c, .onConnect, .relay] ++ (if relayOk then [.terminated, .onFinish] else [.onError])
    else [.setConnecting c, .connect c, .onError]

end Redproxy.Route

namespace Redproxy.Route
open Redproxy.MiluEval

/-! ### concurrent readers and writers of the rule list (`tokio::sync::RwLock<Vec<Arc<Rule>>>`)

  A request takes the read lock, walks the SHARED list rule by rule (`find_map` under the guard), and releases;
  `set_rules` compiles outside the lock and then needs the write lock, which is granted only while no reader
  holds the lock.  `seen` is a ghost copy of the list the reader saw when it took the lock. -/
structure Reader where
  q : Req
  pos : Nat                      -- rules examined so far
  result : Option (Option Str)   -- target of the first matching rule found so far
  seen : List CRule              -- ghost

structure LS where
  rules : List CRule
  active : List (Nat × Reader)

inductive Ev where
  | acquire (i : Nat) (q : Req)
  | evalNext (i : Nat)
  | release (i : Nat)
  | swap (cfgs : List RuleCfg)

def updReader (i : Nat) (f : Reader → Reader) : List (Nat × Reader) → List (Nat × Reader)
  | [] => []
  | (j, r) :: rest => if j == i then (j, f r) :: rest else (j, r) :: updReader i f rest

/-- one step of the system; `none` = the step is not enabled (the task is blocked on the lock) -/
def stepL (x : Ext) (fuel : Nat) (conns : List Conn) (s : LS) : Ev → Option LS
  | .acquire i q => some { s with active := (i, { q := q, pos := 0, result := none, seen := s.rules }) :: s.active }
  | .evalNext i =>
    some { s with active := updReader i (fun r =>
      match r.result, s.rules[r.pos]? with
      | none, some rule => { r with pos := r.pos + 1, result := if ruleMatches x r.q fuel rule then some rule.target else none }
      | _, _ => r) s.active }
  | .release i => some { s with active := s.active.filter (fun p => p.1 != i) }
  | .swap cfgs => if s.active.isEmpty then some { s with rules := (setRules conns s.rules cfgs).1 } else none

def runL (x : Ext) (fuel : Nat) (conns : List Conn) : LS → List Ev → Option LS
  | s, [] => some s
  | s, e :: es => match stepL x fuel conns s e with
    | some s' => runL x fuel conns s' es
    | none => none

/-- what a reader has found after examining the first `n` rules of `rules` -/
def firstMatchUpTo (x : Ext) (q : Req) (fuel : Nat) (rules : List CRule) (n : Nat) : Option (Option Str) :=
  firstMatch x q fuel (rules.take n)

end Redproxy.Route
