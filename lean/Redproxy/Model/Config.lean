import Redproxy.Model.Core
/-!
  Model of configuration loading (`src/connectors/mod.rs`, `src/listeners/mod.rs` `from_value` / `from_config`) and of
  the load balancer's member graph (`src/connectors/loadbalance.rs` `verify` / `connect`).  The per-kind struct
  deserialisation (serde) is a parameter `kindParse`, assumed to return `Ok` or `Err`.
-/
namespace Redproxy.Config
open Redproxy

/-- an abstract YAML value -/
inductive Y where
  | null
  | bool (b : Bool)
  | num (n : Int)
  | str (s : String)
  | seq (xs : List Y)
  | map (kvs : List (String × Y))
  deriving Inhabited

def Y.get (v : Y) (k : String) : Option Y :=
  match v with
  | .map kvs => (kvs.find? (fun e => e.1 == k)).map (·.2)
  | _ => none

def Y.asStr : Y → Option String
  | .str s => some s
  | _ => none

def connectorKinds : List String := ["direct", "http", "socks", "loadbalance", "quic"]
def listenerKinds : List String := ["http", "socks", "reverse", "quic", "tproxy"]

/-- `connectors::from_value` (repaired: a name / type that is not a string is an error) -/
def connectorFromValue (kindParse : String → Y → Res String) (v : Y) : Res String :=
  match v.get "name" with
  | none => .err "missing connector name"
  | some name =>
    if name.asStr == some "deny" then .err "reserved" else
    match ((v.get "type").getD name).asStr with
    | none => .err "name and type must be strings"
    | some t => if connectorKinds.contains t then kindParse t v else .err "unknown connector type"

/-- as it was at the pinned commit: `as_str().unwrap()` -/
def connectorFromValueOld (kindParse : String → Y → Res String) (v : Y) : Res String :=
  match v.get "name" with
  | none => .err "missing connector name"
  | some name =>
    if name.asStr == some "deny" then .err "reserved" else
    match ((v.get "type").getD name).asStr with
    | none => .panic "as_str().unwrap()"
    | some t => if connectorKinds.contains t then kindParse t v else .err "unknown connector type"

/-- `listeners::from_value` -/
def listenerFromValue (kindParse : String → Y → Res String) (v : Y) : Res String :=
  match (v.get "name").bind Y.asStr with
  | none => .err "missing listener name"
  | some name =>
    let t := ((v.get "type").bind Y.asStr).getD name
    if listenerKinds.contains t then kindParse t v else .err "unknown listener type"

/-- `from_config`: every entry must load, names must be distinct; returns the names -/
def fromConfig (fromValue : Y → Res String) : List Y → List String → Res (List String)
  | [], acc => .ok acc.reverse
  | v :: rest, acc =>
    match fromValue v with
    | .ok name => if acc.contains name then .err "duplicate name" else fromConfig fromValue rest (name :: acc)
    | .err e => .err e
    | .panic s => .panic s

/-! ### the load balancer's member graph -/
/-- connector table: name ↦ members (empty for every connector that is not a load balancer) -/
abbrev Graph := List (String × List String)

def membersOf (g : Graph) (n : String) : Option (List String) := (g.find? (fun e => e.1 == n)).map (·.2)

/-- `check_depth` of `verify` (repaired): following members from `n` takes at most `depth` steps -/
def depthOk (g : Graph) : Nat → String → Bool
  | 0, _ => false
  | d + 1, n =>
    match membersOf g n with
    | none => true                       -- (existence of direct members is checked separately)
    | some ms => ms.all (fun m => depthOk g d m)

/-- `verify` of a load balancer `n`: members non-empty, all defined, no cycle -/
def lbVerify (g : Graph) (n : String) : Bool :=
  match membersOf g n with
  | none => false
  | some ms => !ms.isEmpty && ms.all (fun m => (membersOf g m).isSome) && depthOk g (g.length + 1) n

/-- `connect` of connector `n`: a load balancer picks a member (`picks` = the selection algorithm's choices) and
    hands the request over; any other connector connects.  `none` = the recursion did not end within `fuel` steps -/
def lbConnect (g : Graph) : Nat → String → List Nat → Option String
  | 0, _, _ => none
  | f + 1, n, picks =>
    match membersOf g n with
    | none => some n
    | some [] => some n
    | some (m :: ms) =>
      let (k, rest) := match picks with
        | [] => (0, [])
        | k :: r => (k, r)
      lbConnect g f ((m :: ms).getD (k % (ms.length + 1)) m) rest

end Redproxy.Config
