/-!
  Model of lock usage by the tasks of the proxy (`tokio::sync::Mutex` / `RwLock` of the registry `alive` / `terminated`, of each
  connection `ctx_i`, of the rule list): a task is a straight-line program of lock acquisitions, releases, internal
  steps and EXTERNAL waits (a read from a client or peer that may never complete).  Every lock is treated as exclusive
  (a reader blocks a reader): this only adds blocking, so "nobody is blocked" carries over to shared read locks.
-/
namespace Redproxy.Locks

inductive Act where
  | acq (l : Nat)      -- wait for and take lock l
  | rel (l : Nat)      -- release lock l
  | ext                -- wait for a peer (client bytes, upstream connect, relay, timer)
  | step               -- internal work
  deriving Repr, DecidableEq

abbrev Prog := List Act

/-- locks held after running `acts` starting with `held` -/
def heldAfter (held : List Nat) : List Act → List Nat
  | [] => held
  | .acq l :: r => heldAfter (l :: held) r
  | .rel l :: r => heldAfter (held.erase l) r
  | _ :: r => heldAfter held r

structure Task where
  prog : Prog
  pc : Nat
  deriving Repr

def Task.held (t : Task) : List Nat := heldAfter [] (t.prog.take t.pc)
def Task.next (t : Task) : Option Act := t.prog[t.pc]?

/-- lock 0 = the registry's map `alive`, lock 1 = the rule list, lock 2 = the registry's history list `terminated`,
    lock 3+i = connection i.  Order in which the code nests them: history list (the collector takes it first), then
    `alive`, then a connection, then the rule list (rank 0 < 1 < 2 < 3) -/
def rank (l : Nat) : Nat := if l = 2 then 0 else if l = 0 then 1 else if l = 1 then 3 else 2

/-- the discipline of the repaired code: no lock is held at an external wait, locks are taken in increasing rank
    (so a task never holds two connections' locks at once), and a finished task holds nothing -/
def wellLocked (held : List Nat) : Prog → Bool
  | [] => held.isEmpty
  | .acq l :: r => held.all (fun m => rank m < rank l) && wellLocked (l :: held) r
  | .rel l :: r => wellLocked (held.erase l) r
  | .ext :: r => held.isEmpty && wellLocked held r
  | .step :: r => wellLocked held r

/-- t waits for a lock that u holds -/
def blockedBy (t u : Task) : Bool :=
  match t.next with
  | some (.acq l) => u.held.contains l
  | _ => false

def blocked (sys : List Task) (t : Task) : Bool := sys.any (fun u => blockedBy t u)

end Redproxy.Locks
