/-!
  Model of the load-balancing connector (`src/connectors/loadbalance.rs`): member selection.
  * round robin: `idx.fetch_add(1)` on an `AtomicUsize` (wraps at 2^64), member `prev % n`
  * hash-by: `DefaultHasher` over the evaluated key (a parameter `h`), member `h key % n`
  * random: `choose` over the member list (a parameter `draw`), member `draw % n`
-/
namespace Redproxy.Lb

def W : Nat := 2 ^ 64

/-- the member picked when the counter holds `idx`, and the counter afterwards -/
def rrStep (idx n : Nat) : Nat × Nat := (idx % n, (idx + 1) % W)

/-- `k` consecutive selections starting from counter value `idx` -/
def rrSeq (idx n : Nat) : Nat → List Nat
  | 0 => []
  | k + 1 => (rrStep idx n).1 :: rrSeq (rrStep idx n).2 n k

def hashPick (h : α → Nat) (key : α) (n : Nat) : Nat := (h key % W) % n
def randomPick (draw n : Nat) : Nat := draw % n

/-- tasks calling `fetch_add` in the order of a schedule: each call returns the previous value (atomicity);
    result: (task, value it obtained) in execution order, and the final counter -/
def runFetch (c : Nat) : List Nat → List (Nat × Nat) × Nat
  | [] => ([], c)
  | t :: rest => let (r, c') := runFetch ((c + 1) % W) rest; ((t, c) :: r, c')

end Redproxy.Lb
