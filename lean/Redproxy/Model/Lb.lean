/-!
  Model of the load-balancing connector (`src/connectors/loadbalance.rs`): member selection.
  * round robin: `idx.fetch_add(1)` on an `AtomicUsize` (wraps at 2^64), member `prev % n`
  * hash-by: `DefaultHasher` over the evaluated key (a parameter `h`), member `h key % n`
  * random: `choose` over the member list (a parameter `draw`), member `draw % n`
-/
namespace Redproxy.Lb

def W : Nat := 2 ^ 64

/-- the member picked when the counter holds `idx`, and the counter afterwards -/
def rrStep (idx n : Nat) : Nat × Nat := (idx % n, (idx + 1) % W)

/-- `k` consecutive selections starting from counter value `idx` -/
def rrSeq (idx n : Nat) : Nat → List Nat
  | 0 => []
  | k + 1 => (rrStep idx n).1 :: rrSeq (rrStep idx n).2 n k

def hashPick (h : α → Nat) (key : α) (n : Nat) : Nat := (h key % W) % n
def randomPick (draw n : Nat) : Nat := draw % n

/-- tasks calling `fetch_add` in the order of a schedule: each call returns the previous value (atomicity);
    result: (task, value it obtained) in execution order, and the final counter -/
def runFetch (c : Nat) : List Nat → List (Nat × Nat) × Nat
  | [] => ([], c)
  | t :: rest => let (r, c') := runFetch ((c + 1) % W) rest; ((t, c) :: r, c')

/-- several balancers in one process, each with its OWN counter: `sizes b` members, `ctr b` the counter of balancer `b`;
    `sched` names the balancer each request goes to.  Result: (balancer, member picked) in request order. -/
def multiRr (sizes : Nat → Nat) (ctr : Nat → Nat) : List Nat → List (Nat × Nat)
  | [] => []
  | b :: rest =>
    (b, (rrStep (ctr b) (sizes b)).1) ::
      multiRr sizes (fun x => if x = b then (rrStep (ctr b) (sizes b)).2 else ctr x) rest

/-- the variant of seeded change C17c: one cursor shared by all balancers -/
def sharedRr (sizes : Nat → Nat) (cur : Nat) : List Nat → List (Nat × Nat)
  | [] => []
  | b :: rest => (b, (rrStep cur (sizes b)).1) :: sharedRr sizes (rrStep cur (sizes b)).2 rest

end Redproxy.Lb
