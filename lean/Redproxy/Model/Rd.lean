import Redproxy.Model.Core
/-!
  `Rd α`: programs over the read/write primitives the stream decoders of redproxy-rs use
  (`read_u8`, `read_u16`, `read_exact`, `read_until`, `read_line`, `write`, `flush`), and two
  interpreters:

  * `runSeg`  over a *segmented* wire through a buffered reader: `SS.buf` is the read-ahead
              buffer (`BufReader`), `SS.wire` the list of segments still to arrive from the
              network; each refill takes one whole segment (a smaller refill is just a finer
              segmentation), an exhausted wire is end-of-stream;
  * `runFlat` over the flat byte string.

  The C12 theorem is that both agree for every program and every segmentation, so it holds for
  every decoder written as an `Rd` program at once.
-/
namespace Redproxy

inductive Rd (α : Type) where
  | pure (a : α)
  | fail (e : String)
  | panic (site : String)
  | byteOpt (k : Option Nat → Rd α)            -- one byte, `none` at end of stream
  | untilD (delim : Nat) (k : Bytes → Rd α)     -- `read_until`: up to and incl. `delim`, or to end of stream
  | write (b : Bytes) (k : Rd α)                -- buffered write towards the peer
  | flush (k : Rd α)

namespace Rd

def bind {α β : Type} : Rd α → (α → Rd β) → Rd β
  | .pure a, f => f a
  | .fail e, _ => .fail e
  | .panic s, _ => .panic s
  | .byteOpt k, f => .byteOpt fun o => bind (k o) f
  | .untilD d k, f => .untilD d fun b => bind (k b) f
  | .write b k, f => .write b (bind k f)
  | .flush k, f => .flush (bind k f)

instance : Monad Rd where
  pure := .pure
  bind := Rd.bind

/-- `read_u8` (end of stream is an error: `UnexpectedEof`) -/
def u8 : Rd Nat := .byteOpt fun
  | some b => .pure b
  | none => .fail "eof"

def u16 : Rd Nat := do
  let a ← u8; let b ← u8; pure (a * 256 + b)

def u32 : Rd Nat := do
  let a ← u8; let b ← u8; let c ← u8; let d ← u8
  pure (((a * 256 + b) * 256 + c) * 256 + d)

/-- `read_exact` of `n` bytes -/
def exact : Nat → Rd Bytes
  | 0 => pure []
  | n + 1 => do let b ← u8; let r ← exact n; pure (b :: r)

def wr (b : Bytes) : Rd Unit := .write b (.pure ())
def fl : Rd Unit := .flush (.pure ())
def failWith {α} (e : String) : Rd α := .fail e

end Rd

/-- buffered reader over a segmented wire -/
structure SS where
  buf : Bytes
  wire : List Bytes
  deriving Repr

namespace SS
def flat (s : SS) : Bytes := s.buf ++ s.wire.flatten

/-- refill: the first byte of the next non-empty segment -/
def nextWire : List Bytes → Option (Nat × SS)
  | [] => none
  | [] :: w => nextWire w
  | (b :: r) :: w => some (b, { buf := r, wire := w })

/-- next byte: from the buffer, else refill with the next (non-empty) segment -/
def next (s : SS) : Option (Nat × SS) :=
  match s.buf with
  | b :: r => some (b, { s with buf := r })
  | [] => nextWire s.wire

/-- `read_until(delim)`: bytes up to and including the first `delim`, or everything at end of stream -/
def takeUntil (d : Nat) (fuel : Nat) (s : SS) (acc : Bytes) : Bytes × SS :=
  match fuel with
  | 0 => (acc.reverse, s)
  | fuel + 1 =>
    match s.next with
    | none => (acc.reverse, s)
    | some (b, s') => if b = d then ((b :: acc).reverse, s') else takeUntil d fuel s' (b :: acc)
end SS

/-- bytes written to the peer: `pending` sits in the `BufWriter`, `flushed` has reached the wire -/
structure W where
  flushed : Bytes := []
  pending : Bytes := []
  deriving Repr, DecidableEq

/-- flat `read_until` -/
def flatUntil (d : Nat) : Bytes → Bytes × Bytes
  | [] => ([], [])
  | b :: r => if b = d then ([b], r) else let (x, y) := flatUntil d r; (b :: x, y)

def runSeg {α : Type} : Rd α → SS → W → Res α × SS × W
  | .pure a, s, w => (.ok a, s, w)
  | .fail e, s, w => (.err e, s, w)
  | .panic p, s, w => (.panic p, s, w)
  | .byteOpt k, s, w =>
    match s.next with
    | none => runSeg (k none) s w
    | some (b, s') => runSeg (k (some b)) s' w
  | .untilD d k, s, w =>
    let (l, s') := SS.takeUntil d (s.flat.length + 1) s []
    runSeg (k l) s' w
  | .write b k, s, w => runSeg k s { w with pending := w.pending ++ b }
  | .flush k, s, w => runSeg k s { flushed := w.flushed ++ w.pending, pending := [] }

def runFlat {α : Type} : Rd α → Bytes → W → Res α × Bytes × W
  | .pure a, s, w => (.ok a, s, w)
  | .fail e, s, w => (.err e, s, w)
  | .panic p, s, w => (.panic p, s, w)
  | .byteOpt k, s, w =>
    match s with
    | [] => runFlat (k none) [] w
    | b :: r => runFlat (k (some b)) r w
  | .untilD d k, s, w =>
    let (l, r) := flatUntil d s
    runFlat (k l) r w
  | .write b k, s, w => runFlat k s { w with pending := w.pending ++ b }
  | .flush k, s, w => runFlat k s { flushed := w.flushed ++ w.pending, pending := [] }

end Redproxy
