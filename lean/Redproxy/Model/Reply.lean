import Redproxy.Model.Http
import Redproxy.Model.Socks
import Redproxy.Model.Route
/-!
  Model of what the CLIENT is told: the three callbacks (`ConnectCallback` in `src/common/h11c.rs`, `Callback` in
  `src/listeners/socks.rs`) as reply programs, run against the client's buffered stream, driven by the effect
  trace of `process_request` (`Route.process`).  Bytes left `pending` in the `BufWriter` when the stream is dropped
  never reach the client; once the relay has taken the streams (`take_streams`) a later `on_error` writes nothing.
-/
namespace Redproxy.Reply
open Redproxy Redproxy.Socks

inductive Proto | http | socks4 | socks5
  deriving Repr, DecidableEq

def strB (s : String) : Bytes := strBytes s

/-- `HttpResponse::new(200, "Connection established").write_to` -/
def httpOk : Rd Unit :=
  Http.writeResponse { version := strB "HTTP/1.1", code := 200, status := strB "Connection established", headers := [] }

/-- the 503 of `ConnectCallback::on_error`: `msg` is `format!("Error: {} Cause: {:?}", error, error.cause)` -/
def httpFail (msg : Bytes) : Rd Unit :=
  Http.writeResponseBody
    { version := strB "HTTP/1.1", code := 503, status := strB "Service unavailable",
      headers := [(strB "Content-Type", strB "text/plain"), (strB "Content-Length", showNat msg.length)] } msg

def successReply (p : Proto) (target : Addr) : Rd Unit :=
  match p with
  | .http => httpOk
  | .socks4 => writeResponse { version := 4, cmd := 0, target := target }
  | .socks5 => writeResponse { version := 5, cmd := 0, target := target }

def failureReply (p : Proto) (msg : Bytes) : Rd Unit :=
  match p with
  | .http => httpFail msg
  | .socks4 => writeResponse { version := 4, cmd := 1, target := .v4 0 0 }
  | .socks5 => writeResponse { version := 5, cmd := 1, target := .v4 0 0 }

/-- client-side state while `process_request` runs -/
structure Client where
  w : W := {}
  streamHeld : Bool := true      -- the context still owns the client stream (`borrow_client_stream` is `Some`)
  relayed : Bool := false        -- the relay started: `drain_buffers` flushes whatever is pending

def runReply (prog : Rd Unit) (c : Client) : Client :=
  { c with w := (runFlat prog [] c.w).2.2 }

/-- one effect of `process_request` on what the client receives -/
def applyEff (p : Proto) (target : Addr) (msg : Bytes) (c : Client) : Route.Eff → Client
  | .onConnect => if c.streamHeld then runReply (successReply p target) c else c
  | .onError => if c.streamHeld then runReply (failureReply p msg) c else c
  | .relay => { c with streamHeld := false, relayed := true, w := { flushed := c.w.flushed ++ c.w.pending, pending := [] } }
  | _ => c

/-- the bytes that reach the client (apart from relayed payload): only what was flushed -/
def clientSees (p : Proto) (target : Addr) (msg : Bytes) (effs : List Route.Eff) : Bytes :=
  (effs.foldl (applyEff p target msg) {}).w.flushed

end Redproxy.Reply
