import Redproxy.Model.Rd
import Redproxy.Model.Addr
/-!
  HTTP/1.1 head reader/writer (`src/common/http.rs`) and the CONNECT exchange of
  `src/common/h11c.rs` (request composition in `h11c_connect`, request interpretation in
  `h11c_handshake`).
-/
namespace Redproxy.Http
open Redproxy
open Redproxy.Rd (wr fl failWith)

structure Req where
  method : Bytes
  resource : Bytes
  version : Bytes
  headers : List (Bytes × Bytes)
  deriving Repr, DecidableEq

structure Resp where
  version : Bytes
  code : Nat
  status : Bytes
  headers : List (Bytes × Bytes)
  deriving Repr, DecidableEq

/-- `read_line`: to the first LF; end of stream before the LF = error "EOF"; must be UTF-8 -/
def readLine : Rd Bytes :=
  .untilD 10 fun l =>
    if !utf8Valid l then failWith "utf8"
    else if l.getLast? ≠ some 10 then failWith "EOF"
    else pure l

def colonSp : Bytes := [0x3A, 0x20]

/-- `read_headers`; `fuel` bounds the number of header lines (every line consumes input, so
    `input length + 1` always suffices; the driver passes more than any generated input has) -/
def readHeaders : Nat → List (Bytes × Bytes) → Rd (List (Bytes × Bytes))
  | 0, _ => failWith "fuel"
  | fuel + 1, acc => do
    let l ← readLine
    let l := trimEnd l
    if l = [] then pure acc.reverse
    else match splitOnce colonSp l with
      | none => failWith "bad response"
      | some (k, v) => readHeaders fuel ((k, v) :: acc)

def httpSlash : Bytes := strBytes "HTTP/"

def readRequest (fuel : Nat) : Rd Req := do
  let l ← readLine
  let l := trimEnd l
  match splitAsciiWs l with
  | [m, r, v] =>
    if httpSlash.isPrefixOf v then do
      let hs ← readHeaders fuel []
      pure { method := m, resource := r, version := v, headers := hs }
    else failWith "bad request"
  | _ => failWith "bad request"

def readResponse (fuel : Nat) : Rd Resp := do
  let l ← readLine
  let l := trimEnd l
  match splitN3 l with
  | [v, c, s] =>
    if httpSlash.isPrefixOf v then
      match parseU16 c with
      | none => failWith "failed to parse response code"
      | some code => do
        let hs ← readHeaders fuel []
        pure { version := v, code := code, status := s, headers := hs }
    else failWith "bad response"
  | _ => failWith "bad response"

def crlf : Bytes := [13, 10]

def headerLines (hs : List (Bytes × Bytes)) : Rd Unit :=
  match hs with
  | [] => pure ()
  | (k, v) :: r => do wr (k ++ colonSp ++ v ++ crlf); headerLines r

/-- `HttpRequest::write_to` -/
def writeRequest (r : Req) : Rd Unit := do
  wr (r.method ++ [0x20] ++ r.resource ++ [0x20] ++ r.version ++ crlf)
  headerLines r.headers
  wr crlf; fl

/-- `HttpResponse::write_to` -/
def writeResponse (r : Resp) : Rd Unit := do
  wr (r.version ++ [0x20] ++ showNat r.code ++ [0x20] ++ r.status ++ crlf)
  headerLines r.headers
  wr crlf; fl

/-- `HttpResponse::write_with_body` -/
def writeResponseBody (r : Resp) (body : Bytes) : Rd Unit := do
  writeResponse r; wr body; fl

/-- `with_header`: empty values are skipped -/
def withHeader (hs : List (Bytes × Bytes)) (k v : Bytes) : List (Bytes × Bytes) :=
  if v = [] then hs else hs ++ [(k, v)]

def toLowerAscii (b : Nat) : Nat := if 0x41 ≤ b ∧ b ≤ 0x5A then b + 32 else b
def eqIgnoreCase (a b : Bytes) : Bool := a.map toLowerAscii == b.map toLowerAscii

/-- `header(name, default)` -/
def header (hs : List (Bytes × Bytes)) (name dflt : Bytes) : Bytes :=
  match hs.find? (fun kv => eqIgnoreCase kv.1 name) with
  | some kv => kv.2
  | none => dflt

/-- the host-name check of `h11c_connect` -/
def hostOkForConnect (a : Addr) : Bool :=
  match a with
  | .domain h _ => !(h = [] || h.any (fun b => b ≤ 0x20 || b = 0x7f))
  | _ => true

inductive Feature where
  | tcp | udpForward | udpBind
  deriving Repr, DecidableEq

/-- the request `h11c_connect` sends (`none` = refused before anything is written) -/
def connectRequest (tbl : V6Tbl) (target : Addr) (feature : Feature) (channel bindSrc : Bytes) : Option Req :=
  if !hostOkForConnect target then none else
  let t := target.toText tbl
  let hs := withHeader [] (strBytes "Host") t
  let hs := match feature with
    | .tcp => hs
    | .udpForward => withHeader (withHeader hs (strBytes "Proxy-Protocol") (strBytes "udp")) (strBytes "Proxy-Channel") channel
    | .udpBind => withHeader (withHeader (withHeader hs (strBytes "Proxy-Protocol") (strBytes "udp"))
                    (strBytes "Proxy-Channel") channel) (strBytes "Udp-Bind-Source") bindSrc
  some { method := strBytes "CONNECT", resource := t, version := strBytes "HTTP/1.1", headers := hs }

/-- `h11c_connect`: write the CONNECT request, read the response, accept only 200 (and, for UDP, a numeric
    `Session-Id`).  Nothing is written when the target is refused. -/
def connectExchange (tbl : V6Tbl) (target : Addr) (feature : Feature) (channel bindSrc : Bytes) (fuel : Nat) :
    Rd (Option Nat) :=
  match connectRequest tbl target feature channel bindSrc with
  | none => failWith "host name not representable in CONNECT"
  | some req => do
    writeRequest req
    let resp ← readResponse fuel
    if resp.code ≠ 200 then failWith "upstream server failure"
    else if feature = .tcp then pure none
    else match parseU32 (header resp.headers (strBytes "Session-Id") (strBytes "0")) with
      | some sid => pure (some sid)
      | none => failWith "upstream server sent a bad Session-Id"

/-- how `h11c_handshake` interprets a request head -/
inductive Hs where
  | tcp (target : Addr)
  | udp (target : Addr) (inline : Bool) (bindSrc : Bytes)
  | reply400                       -- a 400 response is written, then the handshake fails
  | error                          -- handshake fails without a reply
  deriving Repr, DecidableEq

def interpret (tbl : V6Tbl) (r : Req) : Hs :=
  if eqIgnoreCase r.method (strBytes "CONNECT") then
    let protocol := header r.headers (strBytes "Proxy-Protocol") (strBytes "tcp")
    match Addr.parse tbl r.resource with
    | none => .error
    | some target =>
      if eqIgnoreCase protocol (strBytes "tcp") then .tcp target
      else if eqIgnoreCase protocol (strBytes "udp") then
        let channel := header r.headers (strBytes "Proxy-Channel") (strBytes "inline")
        .udp target (eqIgnoreCase channel (strBytes "inline")) (header r.headers (strBytes "Udp-Bind-Source") [])
      else .reply400
  else .reply400

end Redproxy.Http
