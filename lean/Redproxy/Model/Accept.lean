/-!
# Accept loops: who gets a task when some clients stall

A listener takes clients from its backlog one after the other.  After taking a client the loop performs the awaits
listed for it (regenerated from the source by `translate/acceptsites.py`) and then hands the client to a task of its
own.  A `peer` await — one that waits for handshake progress of that client — or a blocking send into that client's session
queue (`squeue`) never returns when the client (its session's consumer) stalls:
the loop is stuck and nobody behind it is ever taken.  Any other await returns.
-/
namespace Redproxy.Accept

inductive Wait | source | peer | squeue | localWait
  deriving Repr, DecidableEq

/-- `true` = this client never sends what its handshake waits for -/
abbrev Stalls := Bool

/-- a wait on one client's (or one session's upstream's) progress: a `peer` await, or a blocking send into that session's
bounded queue -/
def hasPeerWait (ws : List Wait) : Bool := ws.any (fun w => w == .peer || w == .squeue)

/-- the (arrival-order) indices of the clients that are handed to a task of their own; `i` = index of the head -/
def tasks (ws : List Wait) : List Stalls → Nat → List Nat
  | [], _ => []
  | c :: cs, i =>
    if c && hasPeerWait ws then []            -- stuck in the loop on this client, forever
    else i :: tasks ws cs (i + 1)

/-- client `k` is served: it got a task and completes its own handshake -/
def served (ws : List Wait) (cs : List Stalls) (k : Nat) : Bool :=
  (tasks ws cs 0).contains k && !(cs.getD k true)

theorem tasks_all (ws : List Wait) (h : hasPeerWait ws = false) (cs : List Stalls) (i : Nat) :
    tasks ws cs i = (List.range cs.length).map (· + i) := by
  induction cs generalizing i with
  | nil => simp [tasks]
  | cons c cs ih =>
    simp only [tasks, h, Bool.and_false, Bool.false_eq_true, ↓reduceIte, List.length_cons]
    rw [ih (i + 1), List.range_succ_eq_map]
    simp only [List.map_cons, Nat.zero_add, List.map_map, List.cons.injEq, true_and]
    apply List.map_congr_left
    intro a _
    simp only [Function.comp_apply]
    omega

theorem tasks_bound (ws : List Wait) (cs : List Stalls) (i : Nat) : ∀ k ∈ tasks ws cs i, i ≤ k := by
  induction cs generalizing i with
  | nil => simp [tasks]
  | cons c cs ih =>
    intro k hk
    unfold tasks at hk
    split at hk
    · simp at hk
    · rcases List.mem_cons.mp hk with rfl | hk
      · exact Nat.le_refl _
      · exact Nat.le_of_succ_le (ih (i + 1) k hk)

/-- with a peer wait in the loop, nobody behind a stalled client is ever taken -/
theorem tasks_stuck (ws : List Wait) (h : hasPeerWait ws = true) (pre post : List Stalls) (i : Nat) :
    ∀ k ∈ tasks ws (pre ++ true :: post) i, k < i + pre.length := by
  induction pre generalizing i with
  | nil => simp [tasks, h]
  | cons c cs ih =>
    intro k hk
    simp only [List.cons_append, tasks] at hk
    split at hk
    · simp at hk
    · rcases List.mem_cons.mp hk with rfl | hk
      · simp only [List.length_cons]; omega
      · have := ih (i + 1) k hk
        simp only [List.length_cons]; omega

end Redproxy.Accept
