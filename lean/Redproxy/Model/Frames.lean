import Redproxy.Model.Rd
import Redproxy.Model.Addr
import Redproxy.Model.Socks
/-!
  RPFM frames (`src/common/frames.rs`): `read_head`, `from_buffer`, `make_header`,
  `encode_address` / `decode_address`, `check_encodable`, and the `StreamFrameReader` loop with its
  carry-over buffer.
-/
namespace Redproxy.Frames
open Redproxy
open Redproxy.Socks (UFrame be16Bytes)

def magic : Bytes := [0x52, 0x50, 0x46, 0x4d]
def be32Bytes (n : Nat) : Bytes := [n / 16777216 % 256, n / 65536 % 256, n / 256 % 256, n % 256]

/-- `encode_address` -/
def encodeAddress : Option Addr → Bytes
  | some (.domain h p) => [3, (h.length + 2) % 256] ++ h ++ be16Bytes p
  | some (.v4 ip p) => [1, 6] ++ Addr.ip4Octets ip ++ be16Bytes p
  | some (.v6 ip p) => [2, 18] ++ ip ++ be16Bytes p
  | _ => []

/-- `Frame::check_encodable` -/
def encodable (f : UFrame) : Bool :=
  (match f.addr with
   | some (.domain h _) => h.length + 2 ≤ 255
   | _ => true) && f.body.length ≤ 65535

/-- `Frame::make_header` -/
def makeHeader (f : UFrame) : Bytes :=
  let attr := encodeAddress f.addr
  magic ++ be32Bytes f.sessionId ++ be16Bytes (attr.length % 65536) ++ be16Bytes (f.body.length % 65536) ++ attr

/-- the serialized frame (`write_to` / `as_buffer`): `none` = refused by `check_encodable` -/
def serialize (f : UFrame) : Option Bytes :=
  if encodable f then some (makeHeader f ++ f.body) else none

/-- `decode_address` -/
def decodeAddress (buf : Bytes) : Res (Option Addr) :=
  match buf with
  | [] => .ok none
  | [_] => .err "bad header"
  | tag :: len :: rest =>
    if len > rest.length then .err "bad header"
    else if tag = 3 then
      if len < 2 then .err "bad header" else
      let h := rest.take (len - 2)
      if !utf8Valid h then .err "utf8" else
      match rest.drop (len - 2) with
      | p1 :: p0 :: _ => .ok (some (.domain h (p1 * 256 + p0)))
      | _ => .panic "get_u16"
    else if tag = 1 then
      if len ≠ 6 then .err "bad header" else
      match rest with
      | a :: b :: c :: d :: p1 :: p0 :: _ => .ok (some (.v4 (Addr.ip4OfOctets a b c d) (p1 * 256 + p0)))
      | _ => .panic "get_u32"
    else if tag = 2 then
      if len ≠ 18 then .err "bad header" else
      match rest.drop 16 with
      | p1 :: p0 :: _ => .ok (some (.v6 (rest.take 16) (p1 * 256 + p0)))
      | _ => .panic "copy_to_slice"
    else .err "bad header"

/-- `Frame::read_head`: `ok none` = need more bytes -/
def readHead (buf : Bytes) : Res (Option Nat) :=
  match buf with
  | m0 :: m1 :: m2 :: m3 :: _ :: _ :: _ :: _ :: a1 :: a0 :: b1 :: b0 :: _ =>
    if [m0, m1, m2, m3] ≠ magic then .err "Invalid magic"
    else .ok (some (12 + (a1 * 256 + a0) + (b1 * 256 + b0)))
  | _ => .ok none

/-- `Frame::from_buffer` -/
def fromBuffer (buf : Bytes) : Res UFrame :=
  match buf with
  | m0 :: m1 :: m2 :: m3 :: s3 :: s2 :: s1 :: s0 :: a1 :: a0 :: b1 :: b0 :: rest =>
    if [m0, m1, m2, m3] ≠ magic then .err "Invalid magic" else
    let attrLen := a1 * 256 + a0
    let bodyLen := b1 * 256 + b0
    if rest.length < attrLen + bodyLen then .err "Truncated frame" else
    let attr := rest.take attrLen
    let body := (rest.drop attrLen).take bodyLen
    match decodeAddress attr with
    | .ok addr => .ok { addr := addr, sessionId := ((s3 * 256 + s2) * 256 + s1) * 256 + s0, body := body }
    | .err e => .err e
    | .panic s => .panic s
  | _ => .err "Buffer too short"

/-- one `read()` on the underlying buffered stream: what is buffered, else the next segment -/
def readChunk (s : SS) : Option (Bytes × SS) :=
  if s.buf ≠ [] then some (s.buf, { s with buf := [] })
  else match s.wire.dropWhile (· = []) with
    | [] => none
    | seg :: w => some (seg, { buf := [], wire := w })

/-- `StreamFrameReader::read`: `rem` is the carry-over buffer (`self.remaining`) -/
def streamRead (fuel : Nat) (rem : Bytes) (s : SS) : Res (Option UFrame) × Bytes × SS :=
  match fuel with
  | 0 => (.err "fuel", rem, s)
  | fuel + 1 =>
    match readHead rem with
    | .err e => (.err e, rem, s)
    | .panic p => (.panic p, rem, s)
    | .ok hd =>
      let complete := match hd with
        | some n => if rem.length ≥ n then some n else none
        | none => none
      match complete with
      | some n =>
        match fromBuffer (rem.take n) with
        | .ok f => (.ok (some f), rem.drop n, s)
        | .err e => (.err e, rem.drop n, s)
        | .panic p => (.panic p, rem.drop n, s)
      | none =>
        match readChunk s with
        | none => (.ok none, [], s)           -- end of stream: `remaining` was taken and is not restored
        | some (seg, s') => streamRead fuel (rem ++ seg) s'

end Redproxy.Frames
