import Redproxy.Model.Utf8
/-!
  `TargetAddress` (`src/context.rs`) with its `Display` and `FromStr`.

  The text form of an IPv6 socket address (`[…]:port`, zero-run compression, embedded IPv4, scope
  ids) is std's business, not redproxy's: it enters as the parameter `V6Tbl`, a finite table
  `text ↔ (16 address bytes, port)` that the harness fills from the real `std::net` for exactly the
  addresses/texts a case uses.  Assumed law (sampled by the correspondence run): std parses what
  it prints.
-/
namespace Redproxy

inductive Addr where
  | domain (host : Bytes) (port : Nat)
  | v4 (ip : Nat) (port : Nat)                 -- ip : u32
  | v6 (ip : Bytes) (port : Nat)               -- 16 bytes
  | unknown
  deriving Repr, DecidableEq

abbrev V6Tbl := List (Bytes × (Bytes × Nat))

namespace Addr

def port : Addr → Nat
  | .domain _ p => p
  | .v4 _ p => p
  | .v6 _ p => p
  | .unknown => 0

def ip4Octets (ip : Nat) : Bytes := [ip / 16777216 % 256, ip / 65536 % 256, ip / 256 % 256, ip % 256]
def ip4OfOctets (a b c d : Nat) : Nat := ((a * 256 + b) * 256 + c) * 256 + d

def dot : Nat := 0x2E
def colon : Nat := 0x3A

def showIp4 (ip : Nat) : Bytes :=
  match ip4Octets ip with
  | [a, b, c, d] => showNat a ++ [dot] ++ showNat b ++ [dot] ++ showNat c ++ [dot] ++ showNat d
  | _ => []

def show6 (tbl : V6Tbl) (ip : Bytes) (port : Nat) : Bytes :=
  match tbl.find? (fun e => e.2 = (ip, port)) with
  | some e => e.1
  | none => strBytes "[?]:" ++ showNat port

/-- `impl Display for TargetAddress` -/
def toText (tbl : V6Tbl) : Addr → Bytes
  | .domain h p => h ++ [colon] ++ showNat p
  | .v4 ip p => showIp4 ip ++ [colon] ++ showNat p
  | .v6 ip p => show6 tbl ip p
  | .unknown => strBytes "unknown"

/-- one IPv4 octet as `core::net::parser` reads it: 1–3 digits, no leading zero unless it is "0", ≤ 255 -/
def parseOctet (l : Bytes) : Option Nat :=
  if l ≠ [] ∧ l.length ≤ 3 ∧ l.all isDigit ∧ (l.length = 1 ∨ l.head? ≠ some 0x30) ∧ decVal l ≤ 255
  then some (decVal l) else none

/-- the port of a socket address: at least one digit, leading zeros allowed, ≤ 65535 -/
def parsePortStd (l : Bytes) : Option Nat :=
  if l ≠ [] ∧ l.all isDigit ∧ decVal l ≤ 65535 then some (decVal l) else none

def splitAll (sep : Nat) (l : Bytes) : List Bytes :=
  l.foldr (fun b acc => if b = sep then [] :: acc else
    match acc with
    | cur :: rest => (b :: cur) :: rest
    | [] => [[b]]) [[]]

/-- `SocketAddrV4::from_str` -/
def parseSock4 (l : Bytes) : Option Addr :=
  match rsplitColon l with
  | none => none
  | some (h, p) =>
    match splitAll dot h, parsePortStd p with
    | [a, b, c, d], some port =>
      match parseOctet a, parseOctet b, parseOctet c, parseOctet d with
      | some a, some b, some c, some d => some (.v4 (ip4OfOctets a b c d) port)
      | _, _, _, _ => none
    | _, _ => none

/-- `impl FromStr for TargetAddress` -/
def parse (tbl : V6Tbl) (l : Bytes) : Option Addr :=
  match parseSock4 l with
  | some a => some a
  | none =>
    match tbl.find? (fun e => e.1 = l) with
    | some e => some (.v6 e.2.1 e.2.2)
    | none =>
      match rsplitColon l with
      | none => none
      | some (h, p) =>
        match parseU16 p with
        | some port => some (.domain h port)
        | none => none

end Addr
end Redproxy
