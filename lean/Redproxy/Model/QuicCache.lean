/-!
  Model of how connectors reach their upstream after an outage.  `direct`, `http` and `socks` connectors dial per
  request (stateless).  The QUIC connector (`src/connectors/quic.rs`) shares ONE long-lived connection: `get_connection`
  creates it when the cache is empty, `connect` opens a stream on it and runs the CONNECT exchange, and the cache is
  cleared when the failure is attributed to the shared connection (error context starting with `quic:`).

  What the local endpoint knows about the cached connection is the environment's business (quinn loss detection /
  idle timeout): `live`, `deadKnown` (closed and the local endpoint has noticed: `open_bi` fails at once) or
  `deadUnknown` (the upstream crashed or was restarted; nothing has been noticed yet, streams open locally and then
  nothing ever comes back).
-/
namespace Redproxy.QuicCache

inductive Live | live | deadKnown | deadUnknown
  deriving Repr, DecidableEq

inductive Outcome
  | ok
  | failFast          -- an error right away
  | timedOut          -- no answer until the bound on the CONNECT exchange expired (repaired code)
  | hang              -- no answer, ever (pinned code: the exchange had no bound)
  deriving Repr, DecidableEq

abbrev Cache := Option Live

/-- one request through the QUIC connector (repaired): the CONNECT exchange is bounded; a timeout is attributed to the
    shared connection, which is dropped -/
def attempt (upstreamUp : Bool) (c : Cache) : Cache × Outcome :=
  match c with
  | none => if upstreamUp then (some .live, .ok) else (none, .failFast)
  | some .live => (some .live, .ok)
  | some .deadKnown => (none, .failFast)
  | some .deadUnknown => (none, .timedOut)

/-- as it was at the pinned commit: no bound on the exchange, and its failure is not attributed to the shared
    connection, which therefore stays cached -/
def attemptOld (upstreamUp : Bool) (c : Cache) : Cache × Outcome :=
  match c with
  | none => if upstreamUp then (some .live, .ok) else (none, .failFast)
  | some .live => (some .live, .ok)
  | some .deadKnown => (none, .failFast)
  | some .deadUnknown => (some .deadUnknown, .hang)

/-- the upstream goes away: a cached live connection becomes dead; whether the endpoint notices is up to `noticed` -/
def outage (noticed : Bool) : Cache → Cache
  | some .live => some (if noticed then .deadKnown else .deadUnknown)
  | c => c

def attempts (f : Bool → Cache → Cache × Outcome) (up : Bool) : Nat → Cache → Cache × List Outcome
  | 0, c => (c, [])
  | n + 1, c => let (c', o) := f up c; let (c'', os) := attempts f up n c'; (c'', o :: os)

/-- the cached handle of the shared connection together with the tunnels relaying over that connection (each tunnel
    holds its own handle: dropping the cached handle does not close the connection under them) -/
structure Shared where
  cache : Cache
  tunnels : Nat
  deriving Repr, DecidableEq

/-- a request whose ORIGIN is silent while the upstream and the shared connection are fine: the CONNECT exchange runs
    into its bound, the failure is attributed to the shared connection and the cached handle is cleared.
    `closeOnClear = false` is the code (the handle is dropped); `true` is the variant that closes the connection. -/
def silentOrigin (closeOnClear : Bool) (s : Shared) : Shared × Outcome :=
  match s.cache with
  | some .live => ({ cache := none, tunnels := if closeOnClear then 0 else s.tunnels }, .timedOut)
  | none => ({ cache := none, tunnels := s.tunnels }, .timedOut)     -- dials (upstream up), then times out the same way
  | some .deadKnown => ({ cache := none, tunnels := s.tunnels }, .failFast)
  | some .deadUnknown => ({ cache := none, tunnels := s.tunnels }, .timedOut)

/-- a stateless connector: the outcome of a request depends only on the upstream's state when it is made -/
def statelessAttempt (upstreamUp : Bool) : Outcome := if upstreamUp then .ok else .failFast

/-- a round-robin balancer over stateless members: the member whose turn it is decides; nothing is remembered -/
def lbAttempt (up : Nat → Bool) (n rr : Nat) : Outcome := statelessAttempt (up (rr % n))

/-- the variant of seeded change C19d: a member that failed is marked and never tried again (marks are cleared only by
    a success of that member, which cannot happen any more); `none` left to try = fail -/
def lbStickyAttempt (up : Nat → Bool) (failed : List Nat) (n rr : Nat) : List Nat × Outcome :=
  match (List.range n).filter (fun m => !failed.contains m) with
  | [] => (failed, .failFast)
  | cand => let m := cand.getD (rr % cand.length) 0
            if up m then (failed, .ok) else (m :: failed, .failFast)

end Redproxy.QuicCache
