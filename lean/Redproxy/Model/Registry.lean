/-!
  Model of the connection registry (`src/context.rs`: `GlobalState::create_context`, `impl Drop for Context`,
  `gc_thread`) and of the access-log queue.  A record is identified by its id; `payload` stands for the rest of it.
-/
namespace Redproxy.Registry

structure St where
  historySize : Nat
  nextId : Nat := 0
  alive : List Nat := []          -- keys of the `alive` map
  gcList : List Nat := []         -- dropped contexts waiting for the next GC tick, oldest first
  terminated : List Nat := []     -- the history, newest first
  logged : List Nat := []         -- access-log lines, in the order written
  deriving Repr

inductive Op where
  | create            -- a listener accepted a connection
  | drop (id : Nat)   -- the last reference to the context went away
  | gcTick            -- the 1-second GC timer fired
  deriving Repr

/-- `create_context`: returns the new id -/
def create (s : St) : St × Nat :=
  ({ s with nextId := s.nextId + 1, alive := s.nextId :: s.alive }, s.nextId)

/-- `Drop for Context`: only a context that exists can be dropped, and only once -/
def dropCtx (s : St) (id : Nat) : St :=
  if id ∈ s.alive ∧ id ∉ s.gcList then { s with gcList := s.gcList ++ [id] } else s

/-- one GC tick: every waiting record is logged (in order), removed from `alive`, pushed to the front of the history;
    then the history is trimmed to `historySize` from the back -/
def gcTick (s : St) : St :=
  { s with
    gcList := []
    logged := s.logged ++ s.gcList
    alive := s.alive.filter (fun i => !s.gcList.contains i)
    terminated := (s.gcList.reverse ++ s.terminated).take s.historySize }

def step (s : St) : Op → St
  | .create => (create s).1
  | .drop id => dropCtx s id
  | .gcTick => gcTick s

def run (s : St) (ops : List Op) : St := ops.foldl step s

/-- the collector's `alive.remove(&id).unwrap()`: `true` iff every waiting record is still registered (otherwise the
    collector task panics, and with `panic = abort` the process dies) -/
def gcTickSafe (s : St) : Bool := s.gcList.all (fun i => s.alive.contains i)

/-- what the management API reads (`GET /api/live`, `/api/history`): a pure function of the state -/
def apiLive (s : St) : List Nat := s.alive.filter (fun i => !s.gcList.contains i)
def apiHistory (s : St) : List Nat := s.terminated

/-- the variant of seeded change C16c: the `/api/live` handler also prunes the dead entries from `alive` -/
def apiLivePruning (s : St) : St := { s with alive := s.alive.filter (fun i => !s.gcList.contains i) }

/-- the connections that exist right now: what `GET /live` lists (`Weak::upgrade` succeeds) -/
def live (s : St) : List Nat := s.alive.filter (fun i => !s.gcList.contains i)

end Redproxy.Registry
