import Redproxy.Model.Core
/-
  Model of `src/common/fragment.rs` (QUIC datagram fragmentation / reassembly).

  * `makeFragments`  = `Fragments::make_fragments` + the `MakeFragments` iterator collected
  * `reassemble`     = `Fragments::reassemble` (with `ReassembleQueue::{new,add_fragment,assemble}`)
  * `timer`          = `Fragments::timer`

  The `u128` bitmap is a `Nat` reduced `% 2^128` where the Rust shifts drop bits.  The `HashMap`
  is an association list with unique keys (`AMap`).  Time is a logical clock (`now : Nat`): the
  code calls `Instant::now()`, the model takes the instant as an argument.
  Every Rust operation that can panic (slice split, `Vec` index, over-wide shift under the dev
  profile's overflow checks) is an explicit `Out.panic`.
-/
namespace Redproxy.Fragment

/-! ### association map -/
abbrev AMap (β : Type) := List (Nat × β)

namespace AMap
def get {β} : AMap β → Nat → Option β
  | [], _ => none
  | (k, v) :: m, i => if k = i then some v else get m i
def erase {β} : AMap β → Nat → AMap β
  | [], _ => []
  | (k, v) :: m, i => if k = i then erase m i else (k, v) :: erase m i
def set {β} (m : AMap β) (i : Nat) (v : β) : AMap β := (i, v) :: erase m i
end AMap

/-! ### sender side -/

def divCeil (a b : Nat) : Nat := if a % b > 0 ∧ b > 0 then a / b + 1 else a / b

/-- payload chunks of at most `size` bytes (`size > 0`), in order -/
def chunks (size : Nat) (buf : Bytes) : List Bytes :=
  if h : size = 0 ∨ buf = [] then [] else
    buf.take size :: chunks size (buf.drop size)
termination_by buf.length
decreasing_by
  have : buf ≠ [] := fun e => h (Or.inr e)
  have : 0 < buf.length := List.length_pos_iff.mpr this
  simp only [List.length_drop]; omega

def header (id total seq : Nat) : Bytes := [id / 256 % 256, id % 256, total % 256, seq % 256]

def withHeaders (id total : Nat) : Nat → List Bytes → List Bytes
  | _, [] => []
  | seq, c :: cs => (header id total seq ++ c) :: withHeaders id total (seq + 1) cs

/-- `Fragments::make_fragments(mtu, &mut id, thing).collect()`.  `mtu ≤ 4` is the `assert!`. -/
def makeFragments (mtu id : Nat) (buf : Bytes) : Res (List Bytes) :=
  if mtu ≤ 4 then .panic "assert mtu > 4" else
  let total := divCeil buf.length (mtu - 4)
  if total > 127 then .ok []            -- `too_large`: yields nothing, writer reports an error
  else .ok (withHeaders id total 0 (chunks (mtu - 4) buf))

def tooLarge (mtu : Nat) (buf : Bytes) : Bool := divCeil buf.length (mtu - 4) > 127

/-- the `u16` frame id counter of `QuicFrameWriter` -/
def nextId (id : Nat) : Nat := (id + 1) % 65536

/-! ### receiver side -/

structure RQ where
  bitmap : Nat
  frags : List Bytes
  deadline : Nat
  deriving Repr

structure St where
  queue : AMap RQ := []
  timer : List (Nat × Nat) := []      -- FIFO of (id, deadline), NEWEST first (push = cons)
  deriving Repr

inductive Out where
  | none
  | frame (b : Bytes)
  | panic (site : String)
  deriving Repr, DecidableEq

def full128 : Nat := 2 ^ 128 - 1

/-- `ReassembleQueue::new`; `none` = panic (`!0u128 << total` / `1 << seq` overflow, `fragments[seq]`) -/
def RQ.new (total seq : Nat) (buf : Bytes) (deadline : Nat) : Option RQ :=
  if total ≥ 128 ∨ seq ≥ 128 ∨ seq ≥ total then none else
  some { bitmap := ((full128 <<< total) % 2 ^ 128) ||| (1 <<< seq)
         frags := (List.replicate total ([] : Bytes)).set seq buf
         deadline := deadline }

def reassemble (timeout : Nat) (st : St) (now : Nat) (d : Bytes) : St × Out :=
  match d with
  | i1 :: i0 :: total :: seq :: payload =>
    let id := be16 i1 i0
    if total = 0 ∨ total > 127 ∨ seq ≥ total then (st, .none)
    else if total = 1 ∧ seq = 0 then (st, .frame payload)
    else match st.queue.get id with
      | some q =>
        if q.frags.length ≠ total then (st, .none)
        else if seq ≥ 128 then (st, .panic "1 << seq")
        else if q.bitmap.testBit seq then (st, .none)
        else if seq ≥ q.frags.length then (st, .panic "fragments[seq]")
        else
          let q' := { q with bitmap := q.bitmap ||| (1 <<< seq), frags := q.frags.set seq payload }
          if q'.bitmap = full128 then
            ({ st with queue := st.queue.erase id }, .frame q'.frags.flatten)
          else ({ st with queue := st.queue.set id q' }, .none)
      | none =>
        match RQ.new total seq payload (now + timeout) with
        | some q => ({ queue := st.queue.set id q, timer := (id, now + timeout) :: st.timer }, .none)
        | none => (st, .panic "ReassembleQueue::new")
  | _ => (st, .none)

/-- `Fragments::timer`: pop every FIFO entry whose deadline is before `now` (the FIFO is sorted
    because deadlines are `creation time + timeout`), removing the queue of that id only if the
    queue's own deadline is not later than the popped one. -/
def timerGo (queue : AMap RQ) (now : Nat) : List (Nat × Nat) → St
  | [] => { queue := queue, timer := [] }
  | (id, dl) :: rest =>
    if dl < now then
      let queue' := match queue.get id with
        | some q => if q.deadline ≤ dl then queue.erase id else queue
        | none => queue
      timerGo queue' now rest
    else { queue := queue, timer := (id, dl) :: rest }

def timer (st : St) (now : Nat) : St :=
  let r := timerGo st.queue now st.timer.reverse      -- oldest first
  { queue := r.queue, timer := r.timer.reverse }

end Redproxy.Fragment
