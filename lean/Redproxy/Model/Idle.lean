/-!
  Model of the idle timeout (`src/copy.rs` ticker in `copy_bidi`, `ContextStatistics::is_timeout` in `src/context.rs`)
  and of how the configured values reach a tunnel (`src/main.rs` startup, `create_context`, the UDP listeners).
  Time is in milliseconds.
-/
namespace Redproxy.Idle

/-- `is_timeout`: disabled for 0, otherwise "more than T seconds since the last data" (the clock is assumed monotone) -/
def isTimeout (now last T : Nat) : Bool := T != 0 && now - last > T * 1000

inductive Ev where
  | data (client : Bool) (t : Nat)     -- a chunk was relayed in that direction at time t
  | tick (t : Nat)                     -- the 1-second ticker fired at time t
  deriving Repr, DecidableEq

def Ev.time : Ev → Nat
  | .data _ t => t
  | .tick t => t

structure S where
  lastC : Nat
  lastS : Nat
  closedAt : Option Nat := none
  deriving Repr, DecidableEq

/-- one event of a tunnel whose idle timeout is `T` seconds -/
def step (T : Nat) (s : S) (e : Ev) : S :=
  match s.closedAt with
  | some _ => s
  | none =>
    match e with
    | .data true t => { s with lastC := t }
    | .data false t => { s with lastS := t }
    | .tick t => if isTimeout t s.lastC T && isTimeout t s.lastS T then { s with closedAt := some t } else s

def run (T : Nat) (s : S) (evs : List Ev) : S := evs.foldl (step T) s

/-- the configuration as loaded, and what each kind of tunnel runs with -/
structure Timeouts where
  idle : Nat := 600
  udp : Nat := 600

/-- `main`: the loaded configuration is stored, then the registry default is taken from it; `create_context` copies the
    registry default; the UDP listeners override it with `timeouts.udp` -/
def tcpTunnelTimeout (cfg : Timeouts) : Nat := cfg.idle
def udpSessionTimeout (cfg : Timeouts) : Nat := cfg.udp

/-- the UDP listeners apply `timeouts.udp` through `set_idle_timeout`; the variant of seeded change C13c ignores the
    value 0 there ("not configured"), so a disabled UDP timeout never reaches the association -/
def udpSessionTimeoutIgnoringZero (cfg : Timeouts) : Nat := if cfg.udp > 0 then cfg.udp else cfg.idle

/-- the variant of seeded change C13d: data relayed on the splice path does not refresh `last_read` -/
def stepStaleOnSplice (T : Nat) (s : S) (e : Ev) : S :=
  match s.closedAt with
  | some _ => s
  | none =>
    match e with
    | .data _ _ => s
    | .tick t => if isTimeout t s.lastC T && isTimeout t s.lastS T then { s with closedAt := some t } else s

/-- as it was at the pinned commit: the registry default was copied BEFORE the configuration was stored -/
def tcpTunnelTimeoutOld (_cfg : Timeouts) : Nat := ({} : Timeouts).idle

end Redproxy.Idle
