/-!
  Model of `cidr_match(ip, cidr)` (`src/rules/script_ext.rs`): `str::parse::<IpAddr>` (std's address parser),
  `str::parse::<AnyIpCidr>` (crate `cidr` 0.2: `any`, `addr`, `addr/len` with the IPv4 short forms and the
  zero-host-part requirement) and prefix containment.  Addresses are numbers (`< 2^32`, `< 2^128`).
-/
namespace Redproxy.Cidr

abbrev Str := List Char

inductive Ip where
  | v4 (a : Nat)
  | v6 (a : Nat)
  deriving Repr, DecidableEq

def isDigit (c : Char) : Bool := '0' ≤ c && c ≤ '9'
def hexVal? (c : Char) : Option Nat :=
  if '0' ≤ c && c ≤ '9' then some (c.toNat - 48)
  else if 'a' ≤ c && c ≤ 'f' then some (c.toNat - 87)
  else if 'A' ≤ c && c ≤ 'F' then some (c.toNat - 55)
  else none

/-- std `read_number(10, Some(3), allow_zero_prefix = false)` into a `u8`: all digits are read; more than 3, a
    leading zero before another digit, or a value above 255 fails -/
def readOctet (s : Str) : Option (Nat × Str) :=
  let ds := s.takeWhile isDigit
  if ds.isEmpty || ds.length > 3 then none else
  if ds.length > 1 && ds.head? == some '0' then none else
  let n := ds.foldl (fun a c => a * 10 + (c.toNat - 48)) 0
  if n > 255 then none else some (n, s.drop ds.length)

/-- std `read_ipv4_addr`: four octets separated by single dots -/
def readV4 (s : Str) : Option (Nat × Str) := do
  let (a, r) ← readOctet s
  let r ← (match r with | '.' :: r => some r | _ => none)
  let (b, r) ← readOctet r
  let r ← (match r with | '.' :: r => some r | _ => none)
  let (c, r) ← readOctet r
  let r ← (match r with | '.' :: r => some r | _ => none)
  let (d, r) ← readOctet r
  some (((a * 256 + b) * 256 + c) * 256 + d, r)

def parseV4 (s : Str) : Option Nat :=
  match readV4 s with
  | some (a, []) => some a
  | _ => none

/-- std `read_number(16, Some(4), true)`: 1–4 hex digits -/
def readGroup (s : Str) : Option (Nat × Str) :=
  let ds := s.takeWhile (fun c => (hexVal? c).isSome)
  if ds.isEmpty || ds.length > 4 then none else
  some (ds.foldl (fun a c => a * 16 + (hexVal? c).getD 0) 0, s.drop ds.length)

/-- std `read_groups`: up to `limit` 16-bit groups separated by ':'; an embedded IPv4 address may end the list.
    returns the groups read, whether an IPv4 tail was read, and the rest -/
def readGroups (limit : Nat) (s : Str) : List Nat × Bool × Str :=
  let rec go (fuel : Nat) (i : Nat) (s : Str) (acc : List Nat) : List Nat × Bool × Str :=
    match fuel with
    | 0 => (acc.reverse, false, s)
    | fuel + 1 =>
      if i ≥ limit then (acc.reverse, false, s) else
      -- read_separator(':', i, ..): a ':' is required before every group but the first; atomically
      let s' : Option Str := if i == 0 then some s else (match s with | ':' :: r => some r | _ => none)
      match s' with
      | none => (acc.reverse, false, s)
      | some body =>
        let v4 := if i + 1 < limit then readV4 body else none
        match v4 with
        | some (a, r) => ((a % 65536) :: (a / 65536) :: acc |>.reverse, true, r)
        | none =>
          match readGroup body with
          | some (g, r) => go fuel (i + 1) r (g :: acc)
          | none => (acc.reverse, false, s)
  go (limit + 1) 0 s []

def groupsToNat (gs : List Nat) : Nat := gs.foldl (fun a g => a * 65536 + g) 0

/-- std `read_ipv6_addr` followed by end of input -/
def parseV6 (s : Str) : Option Nat :=
  let (head, headV4, r) := readGroups 8 s
  if head.length == 8 then (if r.isEmpty then some (groupsToNat head) else none)
  else if headV4 then none
  else match r with
    | ':' :: ':' :: r =>
      let limit := 8 - (head.length + 1)
      let (tail, _, r') := readGroups limit r
      if r'.isEmpty then
        some (groupsToNat (head ++ List.replicate (8 - head.length - tail.length) 0 ++ tail))
      else none
    | _ => none

/-- `IpAddr::from_str`: IPv4 first, then IPv6 -/
def parseIp (s : Str) : Option Ip :=
  match parseV4 s with
  | some a => some (.v4 a)
  | none => (parseV6 s).map .v6

/-- `u8::from_str`: optional '+', at least one digit, value ≤ 255 -/
def parseU8 (s : Str) : Option Nat :=
  let ds := match s with | '+' :: r => r | r => r
  if ds.isEmpty || !ds.all isDigit then none else
  let n := ds.foldl (fun a c => a * 10 + (c.toNat - 48)) 0
  if n ≤ 255 then some n else none

def splitDots (s : Str) : List Str :=
  let rec go : Str → Str → List Str
    | [], cur => [cur.reverse]
    | c :: r, cur => if c == '.' then cur.reverse :: go r [] else go r (c :: cur)
  go s []

/-- crate `cidr` `special_ipv4_parser`: up to four octets, missing ones are 0 -/
def shortV4 (s : Str) : Option Nat :=
  let parts := splitDots s
  if parts.length > 4 then none else
  match parts.mapM parseU8 with
  | some os => some (((os ++ List.replicate (4 - os.length) 0).foldl (fun a o => a * 256 + o) 0))
  | none => none

/-- `IpAddr::address_from_str` of crate `cidr` -/
def parseIpLoose (s : Str) : Option Ip :=
  match parseIp s with
  | some ip => some ip
  | none => (shortV4 s).map .v4

inductive Net where
  | any
  | v4 (a len : Nat)
  | v6 (a len : Nat)
  deriving Repr, DecidableEq

def rfindSlash (s : Str) : Option (Str × Str) :=
  match (s.reverse.span (· != '/')) with
  | (after, '/' :: before) => some (before.reverse, after.reverse)
  | _ => none

/-- host part of `a` (width `w`) below prefix length `len` is zero -/
def zeroHost (w a len : Nat) : Bool := a % 2 ^ (w - len) == 0

def parseNet (s : Str) : Option Net :=
  if s == "any".toList then some .any else
  match rfindSlash s with
  | none => (match parseIpLoose s with
    | some (.v4 a) => some (.v4 a 32)
    | some (.v6 a) => some (.v6 a 128)
    | none => none)
  | some (a, l) =>
    match parseIpLoose a, parseU8 l with
    | some (.v4 a), some len => if len ≤ 32 && zeroHost 32 a len then some (.v4 a len) else none
    | some (.v6 a), some len => if len ≤ 128 && zeroHost 128 a len then some (.v6 a len) else none
    | _, _ => none

/-- prefix containment: the top `len` bits agree -/
def contains : Net → Ip → Bool
  | .any, _ => true
  | .v4 n len, .v4 a => a / 2 ^ (32 - len) == n / 2 ^ (32 - len)
  | .v6 n len, .v6 a => a / 2 ^ (128 - len) == n / 2 ^ (128 - len)
  | _, _ => false

/-- the builtin: unparsable address or network ⇒ `false` -/
def cidrMatch (ip cidr : Str) : Bool :=
  match parseIp ip with
  | none => false
  | some a => match parseNet cidr with
    | none => false
    | some n => contains n a

end Redproxy.Cidr
