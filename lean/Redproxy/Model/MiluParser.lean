import Redproxy.Gen.Ladder
/-!
  Model of the milu expression parser (`milu/src/parser.rs`): a scannerless recursive-descent parser over
  `List Char` that mirrors the nom combinators (ordered `alt`, `many0` that stops at the first failing
  iteration and restores the input, `ws` = skip blanks then parse, `cut` inside arrays).  The binary-operator
  ladder is NOT written here: it is `Gen.levels`, regenerated from the source on every run.

  Not modelled (the parser returns `unsupported`): template strings (backtick) and the `\u{…}` / escaped-
  white-space forms inside string literals.
-/
namespace Redproxy.Milu

inductive Ast where
  | int (n : Nat)
  | bool (b : Bool)
  | str (s : List Char)
  | ident (s : List Char)
  | array (xs : List Ast)
  | tuple (xs : List Ast)
  | op (name : List Char) (args : List Ast)      -- builtin applied: Plus(a,b), Not(a), Index(a,i), Access(a,f), If(c,y,n), Scope(vars,e)
  | call (f : Ast) (args : List Ast)          -- `f(args)`
  deriving Repr, Inhabited

mutual
  /-- structural equality (kernel-reducible, unlike the derived instance for a nested inductive) -/
  def Ast.beq : Ast → Ast → Bool
    | .int a, .int b => a == b
    | .bool a, .bool b => a == b
    | .str a, .str b => a == b
    | .ident a, .ident b => a == b
    | .array a, .array b => Ast.beqList a b
    | .tuple a, .tuple b => Ast.beqList a b
    | .op n a, .op m b => n == m && Ast.beqList a b
    | .call f a, .call g b => Ast.beq f g && Ast.beqList a b
    | _, _ => false
  def Ast.beqList : List Ast → List Ast → Bool
    | [], [] => true
    | x :: xs, y :: ys => Ast.beq x y && Ast.beqList xs ys
    | _, _ => false
end

instance : BEq Ast := ⟨Ast.beq⟩

/-- parse result: `err` is nom's recoverable `Err::Error`, `fatal` its `Err::Failure` (after `cut`) -/
inductive PR (α : Type) where
  | ok (a : α) (rest : List Char)
  | err
  | fatal
  | unsupported
  deriving Repr

def isSpace (c : Char) : Bool := c = ' ' || c = '\t' || c = '\n' || c = '\r'

def dropLine : List Char → List Char
  | [] => []
  | c :: r => if c = '\n' || c = '\r' then c :: r else dropLine r

/-- after `/*`: drop up to and including the first `*/`; `none` if there is none (`take_until` fails) -/
def dropBlockComment : List Char → Option (List Char)
  | [] => none
  | '*' :: '/' :: r => some r
  | _ :: r => dropBlockComment r

/-- `blank`: `many0(alt((multispace1, eol_comment, inline_comment)))` -/
def blank (fuel : Nat) (s : List Char) : List Char :=
  match fuel with
  | 0 => s
  | fuel + 1 =>
    match s with
    | c :: r =>
      if isSpace c then blank fuel r
      else if c = '#' then
        (if !Gen.emptyCommentOk && (match r with | [] => true | d :: _ => d = '\n' || d = '\r') then s
         else blank fuel (dropLine r))
      else if c = '/' then
        match r with
        | '*' :: r' => match dropBlockComment r' with
          | some r'' => blank fuel r''
          | none => s
        | _ => s
      else s
    | [] => []

def bl (s : List Char) : List Char := blank (s.length + 1) s

def isAlpha (c : Char) : Bool := ('a' ≤ c && c ≤ 'z') || ('A' ≤ c && c ≤ 'Z')
def isDigitC (c : Char) : Bool := '0' ≤ c && c ≤ '9'
def isAlnum (c : Char) : Bool := isAlpha c || isDigitC c

def lower (c : Char) : Char := if 'A' ≤ c && c ≤ 'Z' then Char.ofNat (c.toNat + 32) else c

/-- `tag` / `tag_no_case`: the rest after the tag -/
def stripTag (t : List Char) (noCase : Bool) (s : List Char) : Option (List Char) :=
  let pre := s.take t.length
  if pre.length = t.length && (if noCase then pre.map lower == t.map lower else pre == t) then some (s.drop t.length) else none

/-- `alt` over tags: the FIRST tag in list order that matches -/
def matchTag : List (List Char × Bool) → List Char → Option (List Char × List Char)
  | [], _ => none
  | (t, nc) :: ts, s =>
    match stripTag t nc s with
    | some r => some (t, r)
    | none => matchTag ts s

def lookupName (m : List (List Char × List Char)) (t : List Char) : List Char :=
  match m.find? (fun e => e.1 == t.map lower) with
  | some e => e.2
  | none => ['?']

/-- identifier: `[A-Za-z_][A-Za-z0-9_]*` (after leading blanks) -/
def pIdent (s : List Char) : PR (List Char) :=
  match bl s with
  | c :: r =>
    if isAlpha c || c = '_' then
      let body := r.takeWhile (fun d => isAlnum d || d = '_')
      .ok (c :: body) (r.drop body.length)
    else .err
  | [] => .err

def digitVal (c : Char) : Nat :=
  if isDigitC c then c.toNat - 48 else if 'a' ≤ c && c ≤ 'f' then c.toNat - 87 else if 'A' ≤ c && c ≤ 'F' then c.toNat - 55 else 0

def isRadixDigit (radix : Nat) (c : Char) : Bool :=
  if radix = 16 then isDigitC c || ('a' ≤ c && c ≤ 'f') || ('A' ≤ c && c ≤ 'F')
  else isDigitC c && c.toNat - 48 < radix

/-- `recognize(many1(terminated(digits1, many0('_'))))` then `i64::from_str_radix` on the recognised text:
    a text containing `_` or exceeding `i64::MAX` makes this alternative fail -/
def pRadix (radix : Nat) (s : List Char) : Option (Nat × List Char) :=
  let text := s.takeWhile (fun c => isRadixDigit radix c || c = '_')
  match text with
  | [] => none
  | c :: _ =>
    if c = '_' then none
    else if text.any (· = '_') then none
    else
      let v := text.foldl (fun acc d => acc * radix + digitVal d) 0
      if v ≤ 9223372036854775807 then some (v, s.drop text.length) else none

def pInteger (s : List Char) : PR Nat :=
  let s := bl s
  let try2 (p : Char) (radix : Nat) : Option (Nat × List Char) :=
    match s with
    | '0' :: x :: r => if lower x = p then pRadix radix r else none
    | _ => none
  match try2 'b' 2 with
  | some (v, r) => .ok v r
  | none =>
    match try2 'o' 8 with
    | some (v, r) => .ok v r
    | none =>
      match try2 'x' 16 with
      | some (v, r) => .ok v r
      | none =>
        match pRadix 10 s with
        | some (v, r) => .ok v r
        | none => .err

/-- string literal body after the opening quote: plain characters and the single-character escapes -/
def pStringBody (fuel : Nat) (s : List Char) (acc : List Char) : PR (List Char) :=
  match fuel with
  | 0 => .err
  | fuel + 1 =>
    match s with
    | [] => .err
    | '"' :: r => .ok acc.reverse r
    | '\\' :: e :: r =>
      if e = 'n' then pStringBody fuel r ('\n' :: acc)
      else if e = 'r' then pStringBody fuel r ('\r' :: acc)
      else if e = 't' then pStringBody fuel r ('\t' :: acc)
      else if e = '\\' then pStringBody fuel r ('\\' :: acc)
      else if e = '/' then pStringBody fuel r ('/' :: acc)
      else if e = '"' then pStringBody fuel r ('"' :: acc)
      else .unsupported
    | ['\\'] => .err
    | c :: r => pStringBody fuel r (c :: acc)

mutual
  /-- `value`: string, template, boolean, integer, identifier, array, tuple (in this order) -/
  def pValue (fuel : Nat) (s : List Char) : PR Ast :=
    match fuel with
    | 0 => .err
    | fuel + 1 =>
      let s := bl s
      match s with
      | '"' :: r =>
        match pStringBody (r.length + 1) r [] with
        | .ok str rest => .ok (.str str) rest
        | .unsupported => .unsupported
        | _ => .err           -- falls through the remaining alternatives, none of which accepts a quote
      | '`' :: _ => .unsupported
      | _ =>
        match stripTag ['t','r','u','e'] false s with
        | some r => .ok (.bool true) r
        | none =>
          match stripTag ['f','a','l','s','e'] false s with
          | some r => .ok (.bool false) r
          | none =>
            match pInteger s with
            | .ok v r => .ok (.int v) r
            | _ =>
              match pIdent s with
              | .ok id r => .ok (.ident id) r
              | _ =>
                match s with
                | '[' :: r =>
                  -- array: cut(body) then ws(']')
                  match pList fuel r with
                  | .ok xs r' =>
                    let r' := match bl r' with
                      | ',' :: r'' => r''          -- opt(ws(','))
                      | _ => r'
                    (match bl r' with
                     | ']' :: r'' => .ok (.array xs) r''
                     | _ => .err)
                  | .unsupported => .unsupported
                  | _ => .fatal
                | '(' :: r =>
                  -- tuple: many0(op_0 ws(',')) then opt(op_0); a single element without comma is not a tuple
                  match pTupleItems fuel r [] with
                  | .ok (items, hadComma) r' =>
                    (match bl r' with
                     | ')' :: r'' => if items.length = 1 && !hadComma then .err else .ok (.tuple items) r''
                     | _ => .err)
                  | .unsupported => .unsupported
                  | .fatal => .fatal
                  | .err => .err
                | _ => .err

  /-- `separated_list0(ws(','), op_0)` -/
  def pList (fuel : Nat) (s : List Char) : PR (List Ast) :=
    match fuel with
    | 0 => .err
    | fuel + 1 =>
      match pOp0 fuel s with
      | .ok x r => pListTail fuel r [x]
      | .err => .ok [] s
      | .fatal => .fatal
      | .unsupported => .unsupported

  def pListTail (fuel : Nat) (s : List Char) (acc : List Ast) : PR (List Ast) :=
    match fuel with
    | 0 => .err
    | fuel + 1 =>
      match bl s with
      | ',' :: r =>
        match pOp0 fuel r with
        | .ok x r' => pListTail fuel r' (acc ++ [x])
        | .err => .ok acc s
        | .fatal => .fatal
        | .unsupported => .unsupported
      | _ => .ok acc s

  /-- tuple body: items each followed by a comma, then an optional last item; returns (items, any comma seen) -/
  def pTupleItems (fuel : Nat) (s : List Char) (acc : List Ast) : PR (List Ast × Bool) :=
    match fuel with
    | 0 => .err
    | fuel + 1 =>
      match pOp0 fuel s with
      | .ok x r =>
        (match bl r with
         | ',' :: r' => pTupleItems fuel r' (acc ++ [x])
         | _ => .ok (acc ++ [x], !acc.isEmpty) r)
      | .err => .ok (acc, !acc.isEmpty) s
      | .fatal => .fatal
      | .unsupported => .unsupported

  /-- `op_value`: `( op_0 )`, `( value )`, `value` -/
  def pOpValue (fuel : Nat) (s : List Char) : PR Ast :=
    match fuel with
    | 0 => .err
    | fuel + 1 =>
      let s := bl s
      let grouped : PR Ast := match s with
        | '(' :: r =>
          (match pOp0 fuel r with
           | .ok x r' => (match bl r' with
             | ')' :: r'' => .ok x r''
             | _ => .err)
           | .fatal => .fatal
           | .unsupported => .unsupported
           | .err => .err)
        | _ => .err
      match grouped with
      | .ok x r => .ok x r
      | .fatal => .fatal
      | .unsupported => .unsupported
      | .err =>
        let grouped2 : PR Ast := match s with
          | '(' :: r =>
            (match pValue fuel r with
             | .ok x r' => (match bl r' with
               | ')' :: r'' => .ok x r''
               | _ => .err)
             | .fatal => .fatal
             | .unsupported => .unsupported
             | .err => .err)
          | _ => .err
        match grouped2 with
        | .ok x r => .ok x r
        | .fatal => .fatal
        | .unsupported => .unsupported
        | .err => pValue fuel s

  /-- postfix chain of `op_8`: index, access, call -/
  def pPostfix (fuel : Nat) (acc : Ast) (s : List Char) : PR Ast :=
    match fuel with
    | 0 => .ok acc s
    | fuel + 1 =>
      match bl s with
      | '[' :: r =>
        (match pOp0 fuel r with
         | .ok i r' => (match bl r' with
           | ']' :: r'' => pPostfix fuel (.op ['I','n','d','e','x'] [acc, i]) r''
           | _ => .ok acc s)
         | .fatal => .fatal
         | .unsupported => .unsupported
         | .err => .ok acc s)
      | '.' :: r =>
        (match pIdent r with
         | .ok id r' => pPostfix fuel (.op ['A','c','c','e','s','s'] [acc, .ident id]) r'
         | _ => match pInteger r with
           | .ok v r' => pPostfix fuel (.op ['A','c','c','e','s','s'] [acc, .int v]) r'
           | _ => .ok acc s)
      | '(' :: r =>
        (match pList fuel r with
         | .ok args r' => (match bl r' with
           | ')' :: r'' => pPostfix fuel (.call acc args) r''
           | _ => .ok acc s)
         | .fatal => .fatal
         | .unsupported => .unsupported
         | .err => .ok acc s)
      | _ => .ok acc s

  def pOp8 (fuel : Nat) (s : List Char) : PR Ast :=
    match fuel with
    | 0 => .err
    | fuel + 1 =>
      match pOpValue fuel s with
      | .ok x r => pPostfix fuel x r
      | e => e

  /-- `op_7`: unary operators, right recursive -/
  def pOp7 (fuel : Nat) (s : List Char) : PR Ast :=
    match fuel with
    | 0 => .err
    | fuel + 1 =>
      let s := bl s
      match matchTag (Gen.unaryTags.map fun t => (t, false)) s with
      | some (t, r) =>
        (match pOp7 fuel r with
         | .ok x r' => .ok (.op (lookupName Gen.unMap t) [x]) r'
         | .fatal => .fatal
         | .unsupported => .unsupported
         | .err => pOp8 fuel s)
      | none => pOp8 fuel s

  /-- one ladder level given the list of remaining (tighter) levels, tightest last -/
  def pLevel (fuel : Nat) (lv : List (List (List Char × Bool))) (s : List Char) : PR Ast :=
    match fuel with
    | 0 => .err
    | fuel + 1 =>
      match lv with
      | [] => pOp7 fuel s
      | tags :: tighter =>
        match pLevel fuel tighter s with
        | .ok x r => pLevelTail fuel tags tighter x r
        | e => e

  def pLevelTail (fuel : Nat) (tags : List (List Char × Bool)) (tighter : List (List (List Char × Bool)))
      (acc : Ast) (s : List Char) : PR Ast :=
    match fuel with
    | 0 => .ok acc s
    | fuel + 1 =>
      match matchTag tags (bl s) with
      | some (t, r) =>
        (match pLevel fuel tighter r with
         | .ok y r' => pLevelTail fuel tags tighter (.op (lookupName Gen.binMap t) [acc, y]) r'
         | .fatal => .fatal
         | .unsupported => .unsupported
         | .err => .ok acc s)
      | none => .ok acc s

  def pOp1 (fuel : Nat) (s : List Char) : PR Ast :=
    match fuel with
    | 0 => .err
    | fuel + 1 => pLevel fuel (Gen.levels.reverse.map fun l => l.2.2.2) s

  def pAssigns (fuel : Nat) (s : List Char) (acc : List Ast) (first : Bool) : PR (List Ast) :=
    match fuel with
    | 0 => .err
    | fuel + 1 =>
      -- separated_list0(ws(';'), op_assign)
      let start : Option (List Char) := if first then some s else
        match bl s with
        | ';' :: r => some r
        | _ => none
      match start with
      | none => .ok acc s
      | some r0 =>
        match pIdent r0 with
        | .ok id r1 =>
          (match bl r1 with
           | '=' :: r2 =>
             (match pOp0 fuel r2 with
              | .ok v r3 => pAssigns fuel r3 (acc ++ [.tuple [.ident id, v]]) false
              | .fatal => .fatal
              | .unsupported => .unsupported
              | .err => .ok acc s)
           | _ => .ok acc s)
        | _ => .ok acc s

  /-- `op_0`: `op_if` (two forms), `op_let`, `op_1` -/
  def pOp0 (fuel : Nat) (s : List Char) : PR Ast :=
    match fuel with
    | 0 => .err
    | fuel + 1 =>
      let s := bl s
      -- if … then … else …
      let ifForm : PR Ast := match stripTag ['i','f'] false s with
        | some r =>
          (match pOp0 fuel r with
           | .ok c r1 =>
             (match stripTag ['t','h','e','n'] false (bl r1) with
              | some r2 =>
                (match pOp0 fuel r2 with
                 | .ok y r3 =>
                   (match stripTag ['e','l','s','e'] false (bl r3) with
                    | some r4 =>
                      (match pOp0 fuel r4 with
                       | .ok n r5 => .ok (.op ['I','f'] [c, y, n]) r5
                       | e => e)
                    | none => .err)
                 | e => e)
              | none => .err)
           | e => e)
        | none => .err
      match ifForm with
      | .ok x r => .ok x r
      | .fatal => .fatal
      | .unsupported => .unsupported
      | .err =>
        -- … ? … : …
        let ternary : PR Ast := match pOp1 fuel s with
          | .ok c r1 =>
            (match bl r1 with
             | '?' :: r2 =>
               (match pOp0 fuel r2 with
                | .ok y r3 =>
                  (match bl r3 with
                   | ':' :: r4 =>
                     (match pOp0 fuel r4 with
                      | .ok n r5 => .ok (.op ['I','f'] [c, y, n]) r5
                      | e => e)
                   | _ => .err)
                | e => e)
             | _ => .err)
          | e => e
        match ternary with
        | .ok x r => .ok x r
        | .fatal => .fatal
        | .unsupported => .unsupported
        | .err =>
          let letForm : PR Ast := match stripTag ['l','e','t'] false s with
            | some r =>
              (match pAssigns fuel r [] true with
               | .ok vars r1 =>
                 let r1 := match bl r1 with
                   | ';' :: r' => r'
                   | _ => r1
                 (match stripTag ['i','n'] false (bl r1) with
                  | some r2 =>
                    (match pOp0 fuel r2 with
                     | .ok e r3 => .ok (.op ['S','c','o','p','e'] [.array vars, e]) r3
                     | e => e)
                  | none => .err)
               | .fatal => .fatal
               | .unsupported => .unsupported
               | .err => .err)
            | none => .err
          match letForm with
          | .ok x r => .ok x r
          | .fatal => .fatal
          | .unsupported => .unsupported
          | .err => pOp1 fuel s
end

/-- `root`: `all_consuming(terminated(op_0, multispace0 opt(";;") multispace0))` -/
def parse (s : List Char) : PR Ast :=
  match pOp0 (20 * s.length + 40) s with
  | .ok x r =>
    let r := r.dropWhile isSpace
    let r := match r with
      | ';' :: ';' :: r' => r'
      | _ => r
    let r := r.dropWhile isSpace
    if r.isEmpty then .ok x [] else .err
  | e => e

/-! ### rendering, the way `impl Display for Value` prints a tree -/

def natStr (n : Nat) : String := toString n

/-- `{:?}` of a `str`, for the characters the model's string literals can contain -/
def escDebug (s : List Char) : String :=
  String.ofList (s.flatMap fun c =>
    if c = '"' then ['\\', '"'] else if c = '\\' then ['\\', '\\'] else if c = '\n' then ['\\', 'n']
    else if c = '\r' then ['\\', 'r'] else if c = '\t' then ['\\', 't'] else [c])

partial def Ast.render : Ast → String
  | .int n => natStr n
  | .bool b => if b then "true" else "false"
  | .str s => "\"" ++ escDebug s ++ "\""
  | .ident s => "<" ++ String.ofList s ++ ">"
  | .array xs => "[" ++ String.intercalate "," (xs.map Ast.render) ++ "]"
  | .tuple xs => "(" ++ String.intercalate "," (xs.map Ast.render) ++ ")"
  | .op n args => String.ofList n ++ "(" ++ String.intercalate "," (args.map Ast.render) ++ ")"
  | .call f args => f.render ++ "(" ++ String.intercalate "," (args.map Ast.render) ++ ")"

end Redproxy.Milu
