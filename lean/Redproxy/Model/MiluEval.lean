import Redproxy.Model.MiluParser
/-!
  Model of the milu type checker and evaluator (`milu/src/script.rs`, `milu/src/script/stdlib.rs`) and of the
  request adaptor (`src/rules/script_ext.rs`).

  The model keeps the code's two notions apart:
  * `typeOf` / `valueOf`       = `Evaluatable::type_of` / `value_of` of a `Value`
  * `realTypeOf` / `realValueOf` = `Value::real_type_of` / `real_value_of` (unwrap ONE level of an evaluatable
    native object: a `let` binding, `request.target`, `request.source`)
  A `let`-bound identifier evaluates to a native `ScopeBinding` object that captures the defining context;
  arrays and tuples are values whose elements stay UNEVALUATED expressions (evaluated by `Index`/`Access`/
  `IsMemberOf`/`strcat` in the context of the consumer).  Both are reproduced here.

  External behaviour entering as parameters: regex matching (`re`), and the text form of the request's
  addresses (fields of `Req`, computed by the real code per case).
-/
namespace Redproxy.MiluEval
open Redproxy.Milu (Ast)

abbrev Str := List Char

inductive UnOp | not | bitNot | neg
  deriving Repr, DecidableEq
inductive BinOp
  | plus | minus | mul | div | mod | band | bor | bxor | shl | shr | shru
  | and | or | xor | gt | ge | lt | le | eq | ne | like | notLike
  deriving Repr, DecidableEq

/-- source expressions (what the parser produces) -/
inductive Expr where
  | int (n : Int)
  | bool (b : Bool)
  | str (s : Str)
  | ident (x : Str)
  | arr (xs : List Expr)
  | tup (xs : List Expr)
  | un (op : UnOp) (a : Expr)
  | bin (op : BinOp) (a b : Expr)
  | ite (c y n : Expr)
  | index (a i : Expr)
  | access (a f : Expr)                       -- `f` is an identifier or an integer literal
  | member (a ary : Expr)
  | letE (bs : List (Str × Expr)) (body : Expr)
  | call (f : Str) (args : List Expr)         -- `f(args)` with an identifier in function position
  deriving Repr, Inhabited

mutual
  def Expr.beq : Expr → Expr → Bool
    | .int a, .int b => a == b
    | .bool a, .bool b => a == b
    | .str a, .str b => a == b
    | .ident a, .ident b => a == b
    | .arr a, .arr b => Expr.beqList a b
    | .tup a, .tup b => Expr.beqList a b
    | .un o a, .un p b => o == p && Expr.beq a b
    | .bin o a1 a2, .bin p b1 b2 => o == p && Expr.beq a1 b1 && Expr.beq a2 b2
    | .ite a1 a2 a3, .ite b1 b2 b3 => Expr.beq a1 b1 && Expr.beq a2 b2 && Expr.beq a3 b3
    | .index a1 a2, .index b1 b2 => Expr.beq a1 b1 && Expr.beq a2 b2
    | .access a1 a2, .access b1 b2 => Expr.beq a1 b1 && Expr.beq a2 b2
    | .member a1 a2, .member b1 b2 => Expr.beq a1 b1 && Expr.beq a2 b2
    | .letE bs a, .letE cs b => Expr.beqBinds bs cs && Expr.beq a b
    | .call f a, .call g b => f == g && Expr.beqList a b
    | _, _ => false
  def Expr.beqList : List Expr → List Expr → Bool
    | [], [] => true
    | x :: xs, y :: ys => Expr.beq x y && Expr.beqList xs ys
    | _, _ => false
  def Expr.beqBinds : List (Str × Expr) → List (Str × Expr) → Bool
    | [], [] => true
    | (n, x) :: xs, (m, y) :: ys => n == m && Expr.beq x y && Expr.beqBinds xs ys
    | _, _ => false
end

/-- a context: innermost frame first; a `let` pushes one frame.  The globals (`request`, `cidr_match`,
    `to_string`, `to_integer`, `split`, `strcat`) live below the last frame. -/
abbrev Env := List (List (Str × Expr))

/-- runtime values.  An array / tuple VALUE holds the values of its members (the literal evaluates them where it
    is written: arrays with `real_value_of`, tuples with `value_of`). -/
inductive Val where
  | int (n : Int)
  | bool (b : Bool)
  | str (s : Str)
  | arr (xs : List Val)
  | tup (xs : List Val)
  | request | target | source              -- the request adaptor and its two address objects
  | sb (e : Expr) (env : Env)              -- `ScopeBinding { ctx, value }`
  | callable (f : Str)                     -- a stdlib stub reached through an identifier
  deriving Inhabited

inductive Ty where
  | str | int | bool
  | arr (t : Ty)
  | tup (ts : List Ty)
  | any
  | request | target | source
  | sb (e : Expr) (env : Env)
  | callable (f : Str)
  deriving Inhabited

mutual
  /-- `impl PartialEq for Type`: `Any` equals everything; native objects compare by hash (a `ScopeBinding`
      hashes its value expression only, not its context). -/
  def Ty.compat : Ty → Ty → Bool
    | .any, _ => true
    | _, .any => true
    | .str, .str => true
    | .int, .int => true
    | .bool, .bool => true
    | .arr a, .arr b => Ty.compat a b
    | .tup a, .tup b => Ty.compatList a b
    | .request, .request => true
    | .target, .target => true
    | .source, .source => true
    | .sb e _, .sb f _ => Expr.beq e f
    | .callable f, .callable g => f == g
    | _, _ => false
  def Ty.compatList : List Ty → List Ty → Bool
    | [], [] => true
    | x :: xs, y :: ys => Ty.compat x y && Ty.compatList xs ys
    | _, _ => false
end

/-- dynamic error classes (by the message the code produces) -/
inductive EK
  | overflow | div | shift | index | regex | parseInt      -- inherently dynamic
  | type                                                    -- cast / mismatch / not comparable / not callable
  | undefined                                               -- identifier or property undefined
  | tupleIndex
  deriving Repr, DecidableEq

def EK.dynamic : EK → Bool
  | .overflow | .div | .shift | .index | .regex | .parseInt => true
  | _ => false

inductive R (α : Type) where
  | ok (a : α)
  | err (k : EK)
  | panic (site : String)
  | fuel

instance : Monad R where
  pure := .ok
  bind r f := match r with
    | .ok a => f a
    | .err k => .err k
    | .panic s => .panic s
    | .fuel => .fuel

def globals : List Str :=
  ["to_string".toList, "to_integer".toList, "split".toList, "strcat".toList, "cidr_match".toList]

/-- `HashMap::insert` per binding: the LAST binding of a name in a frame wins -/
def frameLookup (x : Str) : List (Str × Expr) → Option Expr
  | [] => none
  | (n, e) :: rest =>
    match frameLookup x rest with
    | some e' => some e'
    | none => if n == x then some e else none

/-- `ScriptContext::lookup` followed by `value_of` of the stored value (stored values are native objects) -/
def lookup (x : Str) : Env → R Val
  | [] =>
    if x == "request".toList then .ok .request
    else if globals.contains x then .ok (.callable x)
    else .err .undefined
  | fr :: rest =>
    match frameLookup x fr with
    | some e => .ok (.sb e rest)
    | none => lookup x rest

def tyOfNative : Val → Ty
  | .request => .request
  | .target => .target
  | .source => .source
  | .sb e env => .sb e env
  | .callable f => .callable f
  | .int _ => .int
  | .bool _ => .bool
  | .str _ => .str
  | .arr _ => .arr .any
  | .tup _ => .tup []

/-! ### i64 arithmetic -/
def i64min : Int := -9223372036854775808
def i64max : Int := 9223372036854775807
def inRange (n : Int) : Bool := i64min ≤ n && n ≤ i64max
def chk (n : Int) (k : EK) : R Val := if inRange n then .ok (.int n) else .err k
def bv (n : Int) : BitVec 64 := BitVec.ofInt 64 n

/-- what each declared `function!` signature demands: argument types and the result type -/
def unSig : UnOp → Ty × Ty
  | .not => (.bool, .bool)
  | .bitNot => (.int, .int)
  | .neg => (.int, .int)

inductive BinKind | arith | logic | compare | like
def BinOp.kind : BinOp → BinKind
  | .plus | .minus | .mul | .div | .mod | .band | .bor | .bxor | .shl | .shr | .shru => .arith
  | .and | .or | .xor => .logic
  | .gt | .ge | .lt | .le | .eq | .ne => .compare
  | .like | .notLike => .like

def strLt : Str → Str → Bool
  | [], [] => false
  | [], _ :: _ => true
  | _ :: _, [] => false
  | a :: as, b :: bs => if a.toNat < b.toNat then true else if b.toNat < a.toNat then false else strLt as bs

def cmpInt (op : BinOp) (a b : Int) : Bool :=
  match op with
  | .gt => a > b | .ge => a ≥ b | .lt => a < b | .le => a ≤ b | .eq => a == b | _ => a != b
def cmpStr (op : BinOp) (a b : Str) : Bool :=
  match op with
  | .gt => strLt b a | .ge => !strLt a b | .lt => strLt a b | .le => !strLt b a | .eq => a == b | _ => a != b
def cmpBool (op : BinOp) (a b : Bool) : Bool :=
  match op with
  | .gt => a && !b | .ge => a || !b | .lt => !a && b | .le => !a || b | .eq => a == b | _ => a != b

def arith (op : BinOp) (a b : Int) : R Val :=
  match op with
  | .plus => chk (a + b) .overflow
  | .minus => chk (a - b) .overflow
  | .mul => chk (a * b) .overflow
  | .div => if b == 0 then .err .div else chk (Int.tdiv a b) .div
  | .mod => if b == 0 then .err .div else if a == i64min && b == -1 then .err .div else .ok (.int (Int.tmod a b))
  | .band => .ok (.int (bv a &&& bv b).toInt)
  | .bor => .ok (.int (bv a ||| bv b).toInt)
  | .bxor => .ok (.int (bv a ^^^ bv b).toInt)
  | .shl => if 0 ≤ b && b < 64 then .ok (.int (bv a <<< b.toNat).toInt) else .err .shift
  | .shr => if 0 ≤ b && b < 64 then .ok (.int ((bv a).sshiftRight b.toNat).toInt) else .err .shift
  | .shru => if 0 ≤ b && b < 64 then .ok (.int ((bv a) >>> b.toNat).toInt) else .err .shift
  | _ => .err .type

/-! ### strings -/
def digitsOf : Nat → List Char
  | n => (toString n).toList
def intStr (n : Int) : Str := if n < 0 then '-' :: digitsOf n.natAbs else digitsOf n.natAbs

def isDigit (c : Char) : Bool := '0' ≤ c && c ≤ '9'
def parseDigits (neg : Bool) (ds : Str) : Option Int :=
  if ds.isEmpty || !ds.all isDigit then none else
  if inRange (if neg then -((ds.foldl (fun acc c => acc * 10 + (c.toNat - 48)) 0 : Nat) : Int)
      else ((ds.foldl (fun acc c => acc * 10 + (c.toNat - 48)) 0 : Nat) : Int))
  then some (if neg then -((ds.foldl (fun acc c => acc * 10 + (c.toNat - 48)) 0 : Nat) : Int)
      else ((ds.foldl (fun acc c => acc * 10 + (c.toNat - 48)) 0 : Nat) : Int))
  else none

/-- `str::parse::<i64>`: optional sign, at least one digit, only digits, in range -/
def parseI64 (s : Str) : Option Int :=
  match s with
  | '-' :: r => parseDigits true r
  | '+' :: r => parseDigits false r
  | r => parseDigits false r

def isPrefix : Str → Str → Bool
  | [], _ => true
  | _ :: _, [] => false
  | a :: as, b :: bs => a == b && isPrefix as bs

/-- `str::split(&d)` for a non-empty delimiter; for the empty delimiter Rust yields "", each char, "" -/
def splitOnAux (d : Str) (fuel : Nat) (s cur : Str) : List Str :=
  match fuel with
  | 0 => [cur.reverse ++ s]
  | fuel + 1 =>
    match s with
    | [] => [cur.reverse]
    | c :: r => if isPrefix d s then cur.reverse :: splitOnAux d fuel (s.drop d.length) [] else splitOnAux d fuel r (c :: cur)
def splitStr (s d : Str) : List Str :=
  if d.isEmpty then ([] :: s.map (fun c => [c])) ++ [[]] else splitOnAux d (s.length + 1) s []

/-! ### the request -/
structure Req where
  listener : Str
  connector : Str
  feature : Str
  srcHost : Str
  srcPort : Int
  srcType : Str
  srcText : Str
  tgtHost : Str
  tgtPort : Int
  tgtType : Str
  tgtText : Str
  deriving Repr, Inhabited

/-- external parameters: regex (`none` = the pattern does not compile) and `cidr_match` -/
structure Ext where
  re : Str → Str → Option Bool
  cidr : Str → Str → Bool

def escDebugL (s : Str) : Str :=
  s.flatMap fun c =>
    if c = '"' then ['\\', '"'] else if c = '\\' then ['\\', '\\'] else if c = '\n' then ['\\', 'n']
    else if c = '\r' then ['\\', 'r'] else if c = '\t' then ['\\', 't'] else [c]

def unName : UnOp → Str
  | .not => "Not".toList | .bitNot => "BitNot".toList | .neg => "Negative".toList
def binName : BinOp → Str
  | .plus => "Plus".toList | .minus => "Minus".toList | .mul => "Multiply".toList | .div => "Divide".toList
  | .mod => "Mod".toList | .band => "BitAnd".toList | .bor => "BitOr".toList | .bxor => "BitXor".toList
  | .shl => "ShiftLeft".toList | .shr => "ShiftRight".toList | .shru => "ShiftRightUnsigned".toList
  | .and => "And".toList | .or => "Or".toList | .xor => "Xor".toList | .gt => "Greater".toList
  | .ge => "GreaterOrEqual".toList | .lt => "Lesser".toList | .le => "LesserOrEqual".toList
  | .eq => "Equal".toList | .ne => "NotEqual".toList | .like => "Like".toList | .notLike => "NotLike".toList

def commaSep : List Str → Str
  | [] => []
  | [x] => x
  | x :: xs => x ++ ',' :: commaSep xs

mutual
  /-- `impl Display for Value` on a source expression -/
  def Expr.show : Expr → Str
    | .int n => intStr n
    | .bool b => if b then "true".toList else "false".toList
    | .str s => '"' :: escDebugL s ++ ['"']
    | .ident x => '<' :: x ++ ['>']
    | .arr xs => '[' :: commaSep (Expr.showList xs) ++ [']']
    | .tup xs => '(' :: commaSep (Expr.showList xs) ++ [')']
    | .un o a => unName o ++ '(' :: Expr.show a ++ [')']
    | .bin o a b => binName o ++ '(' :: Expr.show a ++ ',' :: Expr.show b ++ [')']
    | .ite c y n => "If(".toList ++ Expr.show c ++ ',' :: Expr.show y ++ ',' :: Expr.show n ++ [')']
    | .index a i => "Index(".toList ++ Expr.show a ++ ',' :: Expr.show i ++ [')']
    | .access a f => "Access(".toList ++ Expr.show a ++ ',' :: Expr.show f ++ [')']
    | .member a b => "IsMemberOf(".toList ++ Expr.show a ++ ',' :: Expr.show b ++ [')']
    | .letE bs e => "Scope([".toList ++ commaSep (Expr.showBinds bs) ++ "],".toList ++ Expr.show e ++ [')']
    | .call f args => '<' :: f ++ ">(".toList ++ commaSep (Expr.showList args) ++ [')']
  def Expr.showList : List Expr → List Str
    | [] => []
    | x :: xs => Expr.show x :: Expr.showList xs
  def Expr.showBinds : List (Str × Expr) → List Str
    | [] => []
    | (n, e) :: xs => ("(<".toList ++ n ++ ">,".toList ++ Expr.show e ++ [')']) :: Expr.showBinds xs
end

def opaqueStr : Str := "<opaque>".toList

/-- `Debug` of a stdlib stub is its struct name (`function_head!`): the four globals of `ScriptContext::default` -/
def stubName (f : Str) : Str :=
  if f == "to_string".toList then "ToString".toList
  else if f == "to_integer".toList then "ToInteger".toList
  else if f == "split".toList then "Split".toList
  else if f == "strcat".toList then "StringConcat".toList
  else opaqueStr

mutual
  /-- `Value::to_string()` of a runtime value; native objects print their `Debug` form, which the
      correspondence canonicalises to `<opaque>` -/
  def Val.show : Val → Str
    | .int n => intStr n
    | .bool b => if b then "true".toList else "false".toList
    | .str s => '"' :: escDebugL s ++ ['"']
    | .arr xs => '[' :: commaSep (Val.showList xs) ++ [']']
    | .tup xs => '(' :: commaSep (Val.showList xs) ++ [')']
    | .callable f => stubName f
    | _ => opaqueStr
  def Val.showList : List Val → List Str
    | [] => []
    | x :: xs => Val.show x :: Val.showList xs
end

def isScalarTy : Ty → Bool
  | .int | .str | .bool | .any => true
  | _ => false

/-- `Vec<Value>::get(i64)` -/
def vecGet (xs : List Val) (i : Int) : R Val :=
  let idx : Nat :=
    if i ≥ 0 then i.toNat
    else
      let m : Nat := if i == i64min then i64max.toNat else (-i).toNat
      if m ≤ xs.length then xs.length - m else 18446744073709551615
  match xs[idx]? with
  | some e => .ok e
  | none => .err .index

def mapR {α β} (f : α → R β) : List α → R (List β)
  | [] => .ok []
  | x :: xs => match f x with
    | .ok y => (match mapR f xs with
      | .ok ys => .ok (y :: ys)
      | .err k => .err k
      | .panic s => .panic s
      | .fuel => .fuel)
    | .err k => .err k
    | .panic s => .panic s
    | .fuel => .fuel

/-- declared parameter types and result of the callable stubs reachable through an identifier -/
def fnSig (f : Str) : Option (List Ty × Ty) :=
  if f == "to_string".toList then some ([.any], .str)
  else if f == "to_integer".toList then some ([.str], .int)
  else if f == "split".toList then some ([.str, .str], .arr .str)
  else if f == "strcat".toList then some ([.arr .str], .str)
  else if f == "cidr_match".toList then some ([.str, .str], .bool)
  else none

/-- the `$(if $aname != $atype { bail!(..) })+` chain -/
def checkArgs : List Ty → List Ty → Bool
  | [], [] => true
  | a :: as, d :: ds => Ty.compat a d && checkArgs as ds
  | _, _ => false

/-- the signature of a binary builtin applied to the (real) types of its two arguments -/
def binSig (op : BinOp) (ta tb : Ty) : R Ty :=
  match op.kind with
  | .compare => if Ty.compat ta tb && isScalarTy ta && isScalarTy tb then .ok .bool else .err .type
  | .arith => if !Ty.compat ta .int then .err .type else if !Ty.compat tb .int then .err .type else .ok .int
  | .logic => if !Ty.compat ta .bool then .err .type else if !Ty.compat tb .bool then .err .type else .ok .bool
  | .like => if !Ty.compat ta .str then .err .type else if !Ty.compat tb .str then .err .type else .ok .bool

/-! ### the type checker -/
mutual
  def typeOf : Nat → Env → Expr → R Ty
    | 0, _, _ => .fuel
    | fuel + 1, env, e =>
      match e with
      | .int _ => .ok .int
      | .bool _ => .ok .bool
      | .str _ => .ok .str
      | .ident x => do
        let v ← lookup x env
        pure (tyOfNative v)
      | .arr [] => .ok (.arr .any)
      | .arr (a :: rest) => do
        let t ← realTypeOf fuel env a
        let ts ← mapR (realTypeOf fuel env) (a :: rest)
        if ts.all (fun xt => Ty.compat xt t) then pure (.arr t) else .err .type
      | .tup xs => do
        let ts ← mapR (typeOf fuel env) xs
        pure (.tup ts)
      | .un op a => do
        let t ← realTypeOf fuel env a
        if Ty.compat t (unSig op).1 then pure (unSig op).2 else .err .type
      | .bin op a b => do
        let ta ← realTypeOf fuel env a
        let tb ← realTypeOf fuel env b
        binSig op ta tb
      | .ite c y n => do
        let tc ← typeOf fuel env c
        let ty ← typeOf fuel env y
        let tn ← typeOf fuel env n
        if !Ty.compat .bool tc then .err .type
        else if !Ty.compat ty tn then .err .type
        else pure ty
      | .index a i => do
        let ti ← typeOf fuel env i
        if !Ty.compat ti .int then .err .type else
        let ta ← typeOf fuel env a
        match ta with
        | .arr t => pure t
        | _ => .err .type
      | .access a f => do
        let ta ← typeOf fuel env a
        match ta with
        | .request =>
          (match f with
           | .ident n =>
             if n == "listener".toList || n == "connector".toList || n == "feature".toList then pure .str
             else if n == "target".toList then pure .target
             else if n == "source".toList then pure .source
             else .err .undefined
           | _ => .err .type)
        | .target | .source =>
          (match f with
           | .ident n =>
             if n == "host".toList || n == "type".toList then pure .str
             else if n == "port".toList then pure .int
             else .err .undefined
           | _ => .err .type)
        | .sb e' env' => do
          let t ← typeOf fuel env' e'
          tupleTy t f
        | .tup ts => tupleTy (.tup ts) f
        | _ => .err .type
      | .member a ary => do
        let ta ← typeOf fuel env a
        let tary ← typeOf fuel env ary
        match tary with
        | .arr t => if Ty.compat ta t then pure .bool else .err .type
        | _ => .err .type
      | .letE bs body => typeOf fuel (bs :: env) body
      | .call f args => do
        let v ← lookup f env
        match v with
        | .callable g =>
          (match fnSig g with
           | some (ds, r) =>
             if args.length != ds.length then .err .type else do
             let ts ← mapR (realTypeOf fuel env) args
             if checkArgs ts ds then pure r else .err .type
           | none => .err .type)
        | _ => .err .type
  def realTypeOf : Nat → Env → Expr → R Ty
    | 0, _, _ => .fuel
    | fuel + 1, env, e => do
      let t ← typeOf fuel env e
      match t with
      | .sb e' env' => typeOf fuel env' e'
      | .target | .source => pure .str
      | t => pure t
  /-- `Access::signature::tuple` -/
  def tupleTy (t : Ty) (f : Expr) : R Ty :=
    match f with
    | .int i =>
      (match t with
       | .tup ts =>
         if i < 0 then .err .tupleIndex else
         (match ts[i.toNat]? with
          | some x => .ok x
          | none => .err .tupleIndex)
       | _ => .err .type)
    | _ => .err .type
end

def asInt : Val → R Int
  | .int n => .ok n
  | _ => .err .type
def asBool : Val → R Bool
  | .bool b => .ok b
  | _ => .err .type
def asStr : Val → R Str
  | .str s => .ok s
  | _ => .err .type

mutual
  /-- derived `PartialEq` of `Value`, as far as `IsMemberOf` can observe it -/
  def Val.beq : Val → Val → Bool
    | .int a, .int b => a == b
    | .bool a, .bool b => a == b
    | .str a, .str b => a == b
    | .arr a, .arr b => Val.beqList a b
    | .tup a, .tup b => Val.beqList a b
    | .request, .request => true
    | .target, .target => true
    | .source, .source => true
    | .sb e _, .sb f _ => Expr.beq e f
    | .callable f, .callable g => f == g
    | _, _ => false
  def Val.beqList : List Val → List Val → Bool
    | [], [] => true
    | x :: xs, y :: ys => Val.beq x y && Val.beqList xs ys
    | _, _ => false
end

/-! ### the evaluator -/
/-- a strict binary builtin (arithmetic, comparison, regex match) applied to two evaluated arguments -/
def binStrict (x : Ext) (op : BinOp) (va vb : Val) : R Val :=
  match op.kind with
  | .arith => do
    let na ← asInt va
    let nb ← asInt vb
    arith op na nb
  | .compare =>
    (match va, vb with
     | .int a, .int b => pure (.bool (cmpInt op a b))
     | .str a, .str b => pure (.bool (cmpStr op a b))
     | .bool a, .bool b => pure (.bool (cmpBool op a b))
     | _, _ => .err .type)
  | .like => do
    let sa ← asStr va
    let sb ← asStr vb
    match x.re sa sb with
    | some m => pure (.bool (if op == .like then m else !m))
    | none => .err .regex
  | .logic => do
    let ba ← asBool va
    let bb ← asBool vb
    pure (.bool (ba != bb))

/-- `Access::call::tuple` (the members of a tuple value are values already) -/
def tupleVal (v : Val) (f : Expr) : R Val :=
  match f with
  | .int i =>
    (match v with
     | .tup ts =>
       if i < 0 then .err .tupleIndex else
       (match ts[i.toNat]? with
        | some x => .ok x
        | none => .err .tupleIndex)
     | _ => .err .type)
  | _ => .err .type

mutual
  def valueOf (x : Ext) (q : Req) : Nat → Env → Expr → R Val
    | 0, _, _ => .fuel
    | fuel + 1, env, e =>
      match e with
      | .int n => .ok (.int n)
      | .bool b => .ok (.bool b)
      | .str s => .ok (.str s)
      | .ident n => lookup n env
      | .arr xs => do
        let vs ← mapR (realValueOf x q fuel env) xs
        pure (.arr vs)
      | .tup xs => do
        let vs ← mapR (valueOf x q fuel env) xs
        pure (.tup vs)
      | .un op a => do
        let v ← realValueOf x q fuel env a
        match op with
        | .not => do let b ← asBool v; pure (.bool (!b))
        | .bitNot => do let n ← asInt v; pure (.int (-n - 1))
        | .neg => do let n ← asInt v; chk (-n) .overflow
      | .bin op a b =>
        match op with
        | .and => do
          let va ← realValueOf x q fuel env a
          let ba ← asBool va
          if !ba then pure (.bool false) else do
          let vb ← realValueOf x q fuel env b
          let bb ← asBool vb
          pure (.bool bb)
        | .or => do
          let va ← realValueOf x q fuel env a
          let ba ← asBool va
          if ba then pure (.bool true) else do
          let vb ← realValueOf x q fuel env b
          let bb ← asBool vb
          pure (.bool bb)
        | .xor => do
          let va ← realValueOf x q fuel env a
          let ba ← asBool va
          let vb ← realValueOf x q fuel env b
          let bb ← asBool vb
          pure (.bool (ba != bb))
        | op => do
          let va ← realValueOf x q fuel env a
          let vb ← realValueOf x q fuel env b
          binStrict x op va vb
      | .ite c y n => do
        let vc ← valueOf x q fuel env c
        let b ← asBool vc
        if b then valueOf x q fuel env y else valueOf x q fuel env n
      | .index a i => do
        let vi ← valueOf x q fuel env i
        let n ← asInt vi
        let va ← valueOf x q fuel env a
        match va with
        | .arr xs => vecGet xs n
        | _ => .err .type
      | .access a f => do
        let va ← valueOf x q fuel env a
        match va with
        | .request =>
          (match f with
           | .ident n =>
             if n == "listener".toList then pure (.str q.listener)
             else if n == "connector".toList then pure (.str q.connector)
             else if n == "feature".toList then pure (.str q.feature)
             else if n == "target".toList then pure .target
             else if n == "source".toList then pure .source
             else .err .undefined
           | _ => .err .type)
        | .target =>
          (match f with
           | .ident n =>
             if n == "host".toList then pure (.str q.tgtHost)
             else if n == "port".toList then pure (.int q.tgtPort)
             else if n == "type".toList then pure (.str q.tgtType)
             else .err .undefined
           | _ => .err .type)
        | .source =>
          (match f with
           | .ident n =>
             if n == "host".toList then pure (.str q.srcHost)
             else if n == "port".toList then pure (.int q.srcPort)
             else if n == "type".toList then pure (.str q.srcType)
             else .err .undefined
           | _ => .err .type)
        | .sb e' env' => do
          let v ← valueOf x q fuel env' e'
          tupleVal v f
        | .tup xs => tupleVal (.tup xs) f
        | _ => .err .type
      | .member a ary => do
        let va ← realValueOf x q fuel env a
        let vary ← realValueOf x q fuel env ary
        match vary with
        | .arr xs => pure (.bool (xs.any (fun v => Val.beq v va)))
        | _ => .err .type
      | .letE bs body => valueOf x q fuel (bs :: env) body
      | .call f args => do
        let v ← lookup f env
        match v with
        | .callable g =>
          if args.length != (match fnSig g with | some (ds, _) => ds.length | none => 0) then .panic "args!: iter.next().unwrap()"
          else do
          let vs ← mapR (realValueOf x q fuel env) args
          (match vs with
           | [a] =>
             if g == "to_string".toList then pure (.str a.show)
             else if g == "to_integer".toList then do
               let s ← asStr a
               (match parseI64 s with
                | some n => pure (.int n)
                | none => .err .parseInt)
             else if g == "strcat".toList then
               (match a with
                | .arr xs => do
                  let parts ← mapR asStr xs
                  pure (.str parts.flatten)
                | _ => .err .type)
             else .err .type
           | [a, b] => do
             let sa ← asStr a
             let sb ← asStr b
             if g == "split".toList then pure (.arr ((splitStr sa sb).map Val.str))
             else if g == "cidr_match".toList then pure (.bool (x.cidr sa sb))
             else .err .type
           | _ => .err .type)
        | _ => .err .type
  def realValueOf (x : Ext) (q : Req) : Nat → Env → Expr → R Val
    | 0, _, _ => .fuel
    | fuel + 1, env, e => do
      let v ← valueOf x q fuel env e
      match v with
      | .sb e' env' => valueOf x q fuel env' e'
      | .target => pure (.str q.tgtText)
      | .source => pure (.str q.srcText)
      | v => pure v
end

/-! ### from the parser model's tree to `Expr` -/
def unOfName (n : Str) : Option UnOp :=
  if n == "Not".toList then some .not else if n == "BitNot".toList then some .bitNot
  else if n == "Negative".toList then some .neg else none

def allBinOps : List BinOp :=
  [.plus, .minus, .mul, .div, .mod, .band, .bor, .bxor, .shl, .shr, .shru, .and, .or, .xor, .gt, .ge, .lt, .le, .eq, .ne, .like, .notLike]
def binOfName (n : Str) : Option BinOp := allBinOps.find? (fun o => binName o == n)

mutual
  def ofAst : Ast → Option Expr
    | .int n => some (.int n)
    | .bool b => some (.bool b)
    | .str s => some (.str s)
    | .ident s => some (.ident s)
    | .array xs => do let ys ← ofAstList xs; some (.arr ys)
    | .tuple xs => do let ys ← ofAstList xs; some (.tup ys)
    | .op n args => do
      let ys ← ofAstList args
      match ys with
      | [a] => (match unOfName n with | some o => some (.un o a) | none => none)
      | [a, b] =>
        if n == "Index".toList then some (.index a b)
        else if n == "Access".toList then some (.access a b)
        else if n == "IsMemberOf".toList then some (.member a b)
        else if n == "Scope".toList then
          (match a with
           | .arr vars => do
             let bs ← vars.mapM (fun v => match v with
               | .tup [.ident k, e] => some (k, e)
               | _ => none)
             some (.letE bs b)
           | _ => none)
        else (match binOfName n with | some o => some (.bin o a b) | none => none)
      | [a, b, c] => if n == "If".toList then some (.ite a b c) else none
      | _ => none
    | .call (.ident f) args => do let ys ← ofAstList args; some (.call f ys)
    -- a callee that is not an identifier is never callable (`Call::func` bails): the empty name is undefined
    | .call _ args => do let ys ← ofAstList args; some (.call [] ys)
  def ofAstList : List Ast → Option (List Expr)
    | [] => some []
    | x :: xs => do let y ← ofAst x; let ys ← ofAstList xs; some (y :: ys)
end

end Redproxy.MiluEval
