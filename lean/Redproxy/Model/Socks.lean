import Redproxy.Model.Rd
import Redproxy.Model.Addr
/-!
  SOCKS4/4a/5 request and response codecs (`src/common/socks.rs`), as `Rd` programs where the code
  reads (and, for the v5 negotiation, writes) a stream, and as pure byte producers where it only writes.
-/
namespace Redproxy.Socks
open Redproxy
open Redproxy.Rd (u8 u16 u32 exact wr fl failWith)

structure Request where
  version : Nat
  cmd : Nat
  target : Addr
  auth : Option (Bytes × Bytes)      -- PasswordAuth: (user, pass)
  deriving Repr, DecidableEq

structure Response where
  version : Nat
  cmd : Nat
  target : Addr
  deriving Repr, DecidableEq

/-- `read_length_and_string` -/
def readLenString : Rd Bytes := do
  let len ← u8
  let b ← exact len
  if utf8Valid b then pure b else failWith "invalid utf-8"

/-- `read_null_terminated_string` -/
def readNulString : Rd Bytes :=
  .untilD 0 fun l =>
    match l.getLast? with
    | some 0 =>
      let b := l.dropLast
      if utf8Valid b then pure b else failWith "invalid utf-8"
    | _ => failWith "unexpected end of stream"

/-- `PasswordAuth::select_method` -/
def selectMethod (required : Bool) (methods : Bytes) : Option Nat :=
  if methods.contains 0 && !required then some 0
  else if methods.contains 2 then some 2
  else none

/-- `PasswordAuth::auth_v5` (server side) -/
def authV5Server (method : Nat) : Rd (Option (Bytes × Bytes)) :=
  if method = 0 then pure none
  else if method = 2 then do
    let _ver ← u8
    let user ← readLenString
    let pass ← readLenString
    wr [1]; wr [0]; fl
    pure (some (user, pass))
  else failWith "not supported method"

def readTargetV5 (atype : Nat) : Rd Addr :=
  if atype = 1 then do
    let dst ← u32; let p ← u16; pure (.v4 dst p)
  else if atype = 3 then do
    let d ← readLenString; let p ← u16; pure (.domain d p)
  else if atype = 4 then do
    let dst ← exact 16; let p ← u16; pure (.v6 dst p)
  else failWith "not supported addr type"

def readRequestV4 : Rd Request := do
  let cmd ← u8
  let dport ← u16
  let dst ← u32
  let clientId ← readNulString
  if dst < 0x100 then do
    let domain ← readNulString
    pure { version := 4, cmd := cmd, target := Addr.domain domain dport, auth := some (clientId, []) }
  else pure { version := 4, cmd := cmd, target := Addr.v4 dst dport, auth := some (clientId, []) }

def readRequestV5 (required : Bool) : Rd Request := do
  let n ← u8
  let methods ← exact n
  match selectMethod required methods with
  | none => do wr [5, 0xff]; fl; failWith "No auth method in common"
  | some method => do
    wr [5, method]; fl
    let auth ← authV5Server method
    let version ← u8
    if version ≠ 5 then failWith "bad version in socks5 request" else
    let cmd ← u8
    let _rsv ← u8
    let atype ← u8
    let target ← readTargetV5 atype
    pure { version := version, cmd := cmd, target := target, auth := auth }

/-- `SocksRequest::read_from` with `PasswordAuth { required }` -/
def readRequest (required : Bool) : Rd Request := do
  let version ← u8
  if version = 4 then readRequestV4
  else if version = 5 then readRequestV5 required
  else failWith "Unknown socks version"

def readResponse : Rd Response := do
  let version ← u8
  if version = 0 then do
    let cmd ← u8; let dport ← u16; let dst ← u32
    pure { version := 4, cmd := cmd, target := .v4 dst dport }
  else if version = 5 then do
    let cmd ← u8
    let _rsv ← u8
    let atype ← u8
    let target ← readTargetV5 atype
    pure { version := 5, cmd := cmd, target := target }
  else failWith "Unknown socks version"

def be16Bytes (n : Nat) : Bytes := [n / 256 % 256, n % 256]

/-- `SocksResponse::write_to` (+ flush) -/
def writeResponse (r : Response) : Rd Unit :=
  if r.version = 4 then
    match r.target with
    | .domain _ p => do wr [0]; wr [if r.cmd = 0 then 90 else 91]; wr (be16Bytes p); wr [0, 0, 0, 1]; fl
    | .v4 ip p => do wr [0]; wr [if r.cmd = 0 then 90 else 91]; wr (be16Bytes p); wr (Addr.ip4Octets ip); fl
    | .v6 _ _ => do wr [0]; wr [if r.cmd = 0 then 90 else 91]; failWith "ipv6 not supported in socks4"
    | .unknown => do wr [0]; wr [if r.cmd = 0 then 90 else 91]; .panic "unreachable"
  else if r.version = 5 then
    match r.target with
    | .domain d p => do
      wr [r.version % 256]; wr [r.cmd % 256]; wr [0]; wr [3]; wr ((d.length % 256) :: d); wr (be16Bytes p); fl
    | .v4 ip p => do
      wr [r.version % 256]; wr [r.cmd % 256]; wr [0]; wr [1]; wr (Addr.ip4Octets ip); wr (be16Bytes p); fl
    | .v6 ip p => do
      wr [r.version % 256]; wr [r.cmd % 256]; wr [0]; wr [4]; wr ip; wr (be16Bytes p); fl
    | .unknown => do wr [r.version % 256]; wr [r.cmd % 256]; wr [0]; .panic "unreachable"
  else failWith "not supported version"

/-- `PasswordAuth::auth_v4` (client side): the user id sent to a v4 upstream -/
def clientIdV4 (auth : Option (Bytes × Bytes)) : Bytes :=
  match auth with
  | some (u, _) => u
  | none => []

/-- `SocksRequest::write_v4` with `PasswordAuth` -/
def writeRequestV4 (r : Request) : Rd Unit := do
  wr [r.version % 256]; wr [r.cmd % 256]
  match r.target with
  | .domain d p =>
    if d.contains 0 then failWith "domain name not representable in socks4a" else do
    wr (be16Bytes p); wr [0, 0, 0, 1]
    let cid := clientIdV4 r.auth
    if cid.contains 0 then failWith "user id not representable in socks4" else do
    wr cid; wr [0]; wr d; wr [0]
  | .v4 ip p =>
    if ip < 0x100 then failWith "address not representable in socks4" else do
    wr (be16Bytes p); wr (Addr.ip4Octets ip)
    let cid := clientIdV4 r.auth
    if cid.contains 0 then failWith "user id not representable in socks4" else do
    wr cid; wr [0]
  | .v6 _ _ => failWith "ipv6 not supported in socks4"
  | .unknown => .panic "unreachable"

/-- `PasswordAuth::auth_v5` (client side) -/
def authV5Client (auth : Option (Bytes × Bytes)) (method : Nat) : Rd Unit :=
  if method = 0 then pure ()
  else if method = 2 then
    match auth with
    | none => .panic "unwrap"
    | some (user, pass) =>
      if user.length > 255 ∨ pass.length > 255 then failWith "user name or password too long" else do
      wr [1]; wr [user.length % 256]; wr user; wr [pass.length % 256]; wr pass; fl
      let _ver ← u8
      let result ← u8
      if result = 0 then pure () else failWith "authenication failed"
  else failWith "not supported method"

/-- `SocksRequest::write_v5` with `PasswordAuth` -/
def writeRequestV5 (r : Request) : Rd Unit := do
  let methods : Bytes := if r.auth.isSome then [0, 2] else [0]
  wr [r.version % 256]; wr [methods.length % 256]; wr methods; fl
  let _ver ← u8
  let peer ← u8
  if !methods.contains peer then failWith "not supported auth method" else do
  authV5Client r.auth peer
  wr [r.version % 256]; wr [r.cmd % 256]; wr [0]
  match r.target with
  | .domain d p =>
    if d.length > 255 then failWith "domain name too long for socks5" else do
    wr [3]; wr ((d.length % 256) :: d); wr (be16Bytes p)
  | .v4 ip p => do wr [1]; wr (Addr.ip4Octets ip); wr (be16Bytes p)
  | .v6 ip p => do wr [4]; wr ip; wr (be16Bytes p)
  | .unknown => .panic "unreachable"

/-- `SocksRequest::write_to` (+ flush) -/
def writeRequest (r : Request) : Rd Unit :=
  if r.version = 4 then do writeRequestV4 r; fl
  else if r.version = 5 then do writeRequestV5 r; fl
  else failWith "not supported version"

/-! ### SOCKS5 UDP datagram header (`socks::frames`) -/

structure UFrame where
  addr : Option Addr
  sessionId : Nat
  body : Bytes
  deriving Repr, DecidableEq

/-- `decode_socks_frame`: consumes the header from the body, sets `addr` -/
def decodeUdp (body : Bytes) : Res (Addr × Bytes) :=
  match body with
  | _ver :: _cmd :: _rsv :: atyp :: rest =>
    if atyp = 1 then
      match rest with
      | a :: b :: c :: d :: p1 :: p0 :: r => .ok (.v4 (Addr.ip4OfOctets a b c d) (p1 * 256 + p0), r)
      | _ => .err "frame too short"
    else if atyp = 4 then
      if rest.length < 18 then .err "frame too short" else
      match rest.drop 16 with
      | p1 :: p0 :: r => .ok (.v6 (rest.take 16) (p1 * 256 + p0), r)
      | _ => .err "frame too short"
    else if atyp = 3 then
      match rest with
      | [] => .err "frame too short"
      | len :: r =>
        if r.length < len + 2 then .err "frame too short" else
        let d := r.take len
        if !utf8Valid d then .err "utf8" else
        match r.drop len with
        | p1 :: p0 :: r' => .ok (.domain d (p1 * 256 + p0), r')
        | _ => .err "frame too short"
    else .err "not supported atype"
  | _ => .err "frame too short"

/-- `encode_socks_frame` -/
def encodeUdp (addr : Option Addr) (body : Bytes) : Res Bytes :=
  match addr with
  | some (.v6 ip p) => .ok ([5, 3, 0, 4] ++ ip ++ be16Bytes p ++ body)
  | some (.v4 ip p) => .ok ([5, 3, 0, 1] ++ Addr.ip4Octets ip ++ be16Bytes p ++ body)
  | some (.domain d p) =>
    if d.length > 255 then .err "domain too long"
    else .ok ([5, 3, 0, 3] ++ [d.length % 256] ++ d ++ be16Bytes p ++ body)
  | _ => .err "not supported addr"

end Redproxy.Socks
