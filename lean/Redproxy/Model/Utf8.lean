import Redproxy.Model.Core
/-! UTF-8 validity exactly as `core::str::from_utf8` decides it (RFC 3629: no overlong forms, no
    surrogates, nothing above U+10FFFF), plus the few string helpers of `str` the HTTP code uses. -/
namespace Redproxy

def isCont (b : Nat) : Bool := 0x80 ≤ b && b ≤ 0xBF

def utf8Valid : Bytes → Bool
  | [] => true
  | b0 :: r =>
    if b0 < 0x80 then utf8Valid r
    else if 0xC2 ≤ b0 && b0 ≤ 0xDF then
      match r with
      | b1 :: r' => isCont b1 && utf8Valid r'
      | _ => false
    else if 0xE0 ≤ b0 && b0 ≤ 0xEF then
      match r with
      | b1 :: b2 :: r' =>
        (if b0 = 0xE0 then 0xA0 ≤ b1 && b1 ≤ 0xBF
         else if b0 = 0xED then 0x80 ≤ b1 && b1 ≤ 0x9F
         else isCont b1) && isCont b2 && utf8Valid r'
      | _ => false
    else if 0xF0 ≤ b0 && b0 ≤ 0xF4 then
      match r with
      | b1 :: b2 :: b3 :: r' =>
        (if b0 = 0xF0 then 0x90 ≤ b1 && b1 ≤ 0xBF
         else if b0 = 0xF4 then 0x80 ≤ b1 && b1 ≤ 0x8F
         else isCont b1) && isCont b2 && isCont b3 && utf8Valid r'
      | _ => false
    else false

/-- reversed UTF-8 encodings of the `White_Space` code points (what `str::trim_end` removes) -/
def wsRev : List Bytes :=
  [[0x09], [0x0A], [0x0B], [0x0C], [0x0D], [0x20],
   [0x85, 0xC2], [0xA0, 0xC2], [0x80, 0x9A, 0xE1],
   [0x80, 0x80, 0xE2], [0x81, 0x80, 0xE2], [0x82, 0x80, 0xE2], [0x83, 0x80, 0xE2], [0x84, 0x80, 0xE2],
   [0x85, 0x80, 0xE2], [0x86, 0x80, 0xE2], [0x87, 0x80, 0xE2], [0x88, 0x80, 0xE2], [0x89, 0x80, 0xE2],
   [0x8A, 0x80, 0xE2], [0xA8, 0x80, 0xE2], [0xA9, 0x80, 0xE2], [0xAF, 0x80, 0xE2], [0x9F, 0x81, 0xE2],
   [0x80, 0x80, 0xE3]]

def stripPrefix? (p : Bytes) (l : Bytes) : Option Bytes :=
  if p.isPrefixOf l then some (l.drop p.length) else none

/-- on the reversed string: drop leading (= trailing) white space -/
def trimRev (fuel : Nat) (l : Bytes) : Bytes :=
  match fuel with
  | 0 => l
  | fuel + 1 =>
    match wsRev.findSome? (fun p => stripPrefix? p l) with
    | some l' => trimRev fuel l'
    | none => l

/-- `str::trim_end` on a valid UTF-8 byte string -/
def trimEnd (l : Bytes) : Bytes := (trimRev l.length l.reverse).reverse

def isAsciiWs (b : Nat) : Bool := b = 0x20 || b = 0x09 || b = 0x0A || b = 0x0C || b = 0x0D

/-- `str::split_ascii_whitespace().collect()` -/
def splitAsciiWs (l : Bytes) : List Bytes :=
  (l.splitBy fun a b => !isAsciiWs a && !isAsciiWs b).filter fun t => !(t.all isAsciiWs)

/-- split at the first occurrence of a separator -/
def splitOnce (sep : Bytes) : Bytes → Option (Bytes × Bytes)
  | [] => if sep = [] then some ([], []) else none
  | b :: r =>
    if sep.isPrefixOf (b :: r) then some ([], (b :: r).drop sep.length)
    else match splitOnce sep r with
      | some (x, y) => some (b :: x, y)
      | none => none

/-- `splitn(3, ' ')` -/
def splitN3 (l : Bytes) : List Bytes :=
  match splitOnce [0x20] l with
  | none => [l]
  | some (a, r) =>
    match splitOnce [0x20] r with
    | none => [a, r]
    | some (b, c) => [a, b, c]

/-- `rsplitn(2, ':')`: (after the last ':', before it) -/
def rsplitColon (l : Bytes) : Option (Bytes × Bytes) :=
  match splitOnce [0x3A] l.reverse with
  | none => none
  | some (portRev, hostRev) => some (hostRev.reverse, portRev.reverse)

def isDigit (b : Nat) : Bool := 0x30 ≤ b && b ≤ 0x39

def decVal (l : Bytes) : Nat := l.foldl (fun acc b => acc * 10 + (b - 0x30)) 0

/-- `"…".parse::<u16>()`: optional `+`, at least one digit, leading zeros allowed, no overflow -/
def parseUnsigned (max : Nat) (l : Bytes) : Option Nat :=
  let d := match l with
    | 0x2B :: r => r
    | _ => l
  if d ≠ [] ∧ d.all isDigit ∧ decVal d ≤ max then some (decVal d) else none

def parseU16 (l : Bytes) : Option Nat := parseUnsigned 65535 l
def parseU32 (l : Bytes) : Option Nat := parseUnsigned 4294967295 l

def decDigits (fuel n : Nat) (acc : Bytes) : Bytes :=
  match fuel with
  | 0 => acc
  | fuel + 1 => if n < 10 then (0x30 + n) :: acc else decDigits fuel (n / 10) ((0x30 + n % 10) :: acc)

/-- decimal rendering (`{}` of an integer) -/
def showNat (n : Nat) : Bytes := decDigits (n + 1) n []

def strBytes (s : String) : Bytes := s.toUTF8.toList.map (·.toNat)

end Redproxy
