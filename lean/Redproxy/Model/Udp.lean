import Redproxy.Model.Core
/-!
  Model of the UDP session logic: the reverse listener's per-source session table (`src/listeners/reverse.rs`
  `udp_accept`), the listener-side frame reader (`src/common/udp.rs` `UdpFrameReader::read`) and the direct connector's
  reader (`src/connectors/direct.rs` `DirectFrames::read`).  The codecs on the way (SOCKS5-UDP header, RPFM frames,
  QUIC datagram fragments) are modelled and proved in `Model/Socks`, `Model/Frames`, `Model/Fragment` (C03, C11).
-/
namespace Redproxy.Udp
open Redproxy

/-- a datagram arriving at the listener: source (client) address and payload -/
structure Dgram where
  src : Nat
  payload : Bytes
  deriving Repr, DecidableEq

/-- session table: per source, the frames handed to that session so far (oldest first) -/
abbrev Sessions := List (Nat × List Bytes)

def enqueue (src : Nat) (p : Bytes) : Sessions → Sessions
  | [] => []
  | (k, q) :: rest => if k == src then (k, q ++ [p]) :: rest else (k, q) :: enqueue src p rest

def hasSession (s : Sessions) (src : Nat) : Bool := s.any (fun e => e.1 == src)

/-- `udp_accept` (repaired): a datagram from a known source goes to that source's session; one from a new source
    creates the session AND is its first frame -/
def udpAccept (s : Sessions) (d : Dgram) : Sessions :=
  if hasSession s d.src then enqueue d.src d.payload s else s ++ [(d.src, [d.payload])]

/-- as it was at the pinned commit: the datagram that created the session was dropped -/
def udpAcceptOld (s : Sessions) (d : Dgram) : Sessions :=
  if hasSession s d.src then enqueue d.src d.payload s else s ++ [(d.src, [])]

def run (ds : List Dgram) : Sessions := ds.foldl udpAccept []

def queueOf (s : Sessions) (src : Nat) : List Bytes :=
  match s.find? (fun e => e.1 == src) with
  | some e => e.2
  | none => []

/-- what a socket receive can give -/
inductive Recv where
  | dgram (from_ : Nat) (payload : Bytes)
  | error                       -- e.g. ICMP port unreachable on a connected socket
  deriving Repr, DecidableEq

structure Frame where
  addr : Option Nat
  body : Bytes
  deriving Repr, DecidableEq

/-- `UdpFrameReader::read` on the socket branch (repaired): a receive error is returned as an error -/
def listenerRead (target : Nat) : Recv → Res (Option Frame)
  | .dgram _ p => .ok (some { addr := some target, body := p })
  | .error => .err "recv"

/-- at the pinned commit the `Result` of `recv_from` was discarded: an error became an empty frame for `target` -/
def listenerReadOld (target : Nat) : Recv → Res (Option Frame)
  | .dgram _ p => .ok (some { addr := some target, body := p })
  | .error => .ok (some { addr := some target, body := [] })

/-- `DirectFrames::read`: the reply is labelled with the address it came from; an error is an error -/
def connectorRead : Recv → Res (Option Frame)
  | .dgram a p => .ok (some { addr := some a, body := p })
  | .error => .err "recv"

/-- the frame branch of the relay loop (`copy_half`): every frame the reader yields is written to the other side; the
    loop ends when the reader reports the end of its source (`none`) or an error — never because of what a write
    returned -/
def relayFrames : List (Res (Option Frame)) → List Frame
  | [] => []
  | .ok (some f) :: rest => f :: relayFrames rest
  | _ => []

/-- the variant of seeded change C10d: the writer's byte count doubles as the end-of-source signal (a plain UDP socket
    reports 0 bytes for an empty datagram) -/
def relayFramesLenStops : List (Res (Option Frame)) → List Frame
  | [] => []
  | .ok (some f) :: rest => if f.body.length > 0 then f :: relayFramesLenStops rest else [f]
  | _ => []

end Redproxy.Udp
