/-
  Core definitions shared by all models.  Import-free (core Lean only) so that the model
  driver `rpmodel` links as a `lean_exe`.

  Bytes are `List Nat`; every encoder reduces what it emits `% 256` exactly where the Rust code
  casts (`as u8`, `put_u8`, `put_u16`), so a truncating cast is visible in the model.  Decoders
  take arbitrary lists; the harness only ever feeds values `< 256`.
-/
namespace Redproxy

abbrev Bytes := List Nat

/-- Rust `Result` plus panics made explicit.  `panic` carries the name of the panic site. -/
inductive Res (α : Type) where
  | ok (a : α)
  | err (e : String)
  | panic (site : String)
  deriving Repr, DecidableEq

namespace Res
def isPanic {α} : Res α → Bool
  | .panic _ => true
  | _ => false
def bind {α β} (r : Res α) (f : α → Res β) : Res β :=
  match r with
  | .ok a => f a
  | .err e => .err e
  | .panic s => .panic s
instance : Monad Res where
  pure := .ok
  bind := Res.bind
end Res

/-- big-endian u16 of two bytes -/
def be16 (hi lo : Nat) : Nat := hi * 256 + lo

def hexDigit (n : Nat) : Char :=
  if n < 10 then Char.ofNat (48 + n) else Char.ofNat (87 + n)

def hexOfBytes (b : Bytes) : String :=
  String.ofList (b.flatMap fun x => [hexDigit (x / 16 % 16), hexDigit (x % 16)])

def hexVal (c : Char) : Option Nat :=
  if '0' ≤ c ∧ c ≤ '9' then some (c.toNat - 48)
  else if 'a' ≤ c ∧ c ≤ 'f' then some (c.toNat - 87)
  else if 'A' ≤ c ∧ c ≤ 'F' then some (c.toNat - 55)
  else none

def bytesOfHexAux : List Char → Bytes → Option Bytes
  | [], acc => some acc.reverse
  | [_], _ => none
  | a :: b :: rest, acc =>
    match hexVal a, hexVal b with
    | some x, some y => bytesOfHexAux rest ((x * 16 + y) :: acc)
    | _, _ => none

/-- `-` denotes the empty byte string (so that every field is a non-empty token). -/
def bytesOfHex (s : String) : Option Bytes :=
  if s == "-" then some [] else bytesOfHexAux s.toList []

def hexOrDash (b : Bytes) : String := if b.isEmpty then "-" else hexOfBytes b

end Redproxy
