import Redproxy.Model.Core
import Redproxy.Model.Fragment
