import Driver.C11
import Driver.Codec
import Driver.C09
import Driver.C08
import Driver.C02
import Driver.C17
import Driver.C06
import Driver.Relay
import Driver.C16
import Driver.C13
import Driver.C10
import Driver.C07
import Driver.C18
import Driver.C14
import Driver.C19

def main (args : List String) : IO UInt32 := do
  match args with
  | ["c11"] => Redproxy.Driver.C11.main; return 0
  | ["codec"] => Redproxy.Driver.Codec.main; return 0
  | ["c09"] => Redproxy.Driver.C09.main; return 0
  | ["c08"] => Redproxy.Driver.C08.main; return 0
  | ["c02"] => Redproxy.Driver.C02.main; return 0
  | ["c17"] => Redproxy.Driver.C17.main; return 0
  | ["c06"] => Redproxy.Driver.C06.main; return 0
  | ["relay"] => Redproxy.Driver.Relay.main; return 0
  | ["c16"] => Redproxy.Driver.C16.main; return 0
  | ["c13"] => Redproxy.Driver.C13.main; return 0
  | ["c10"] => Redproxy.Driver.C10.main; return 0
  | ["c07"] => Redproxy.Driver.C07.main; return 0
  | ["c18"] => Redproxy.Driver.C18.main; return 0
  | ["c14"] => Redproxy.Driver.C14.main; return 0
  | ["c19"] => Redproxy.Driver.C19.main; return 0
  | _ => IO.eprintln "usage: rpmodel <mode>  (cases on stdin, one output line per case on stdout)"; return 2
