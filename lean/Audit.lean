import Lean
/-! `lake env lean --run Audit.lean <Module>`: list every theorem declared in the module with the
    axioms it depends on (the programmatic form of `#print axioms`), one line each:
    `THM<TAB>name<TAB>theorem<TAB>ax1,ax2,...` -/
open Lean

instance : MonadEnv (StateM Environment) where
  getEnv := get
  modifyEnv f := modify f

unsafe def main (args : List String) : IO UInt32 := do
  let some modStr := args.head? | do IO.eprintln "usage: Audit.lean <Module>"; return 2
  let mod := modStr.toName
  initSearchPath (← findSysroot)
  unsafe enableInitializersExecution
  let env ← importModules #[{ module := mod }] {} (loadExts := true)
  let some idx := env.getModuleIdx? mod | do IO.eprintln "module not found"; return 2
  let mut n := 0
  let names := env.header.moduleData[idx.toNat]!.constNames
  for name in names do
    if name.isInternal then continue
    match env.find? name with
    | some (.thmInfo _) =>
      let (axsA, _) := (collectAxioms (m := StateM Environment) name).run env
      let axs := axsA.toList.map toString
      IO.println s!"THM\t{name}\ttheorem\t{String.intercalate "," axs}"
      n := n + 1
    | _ => pure ()
  IO.println s!"COUNT\t{n}"
  return 0
