#!/usr/bin/env python3
"""write seeded/<id>/meta.json for the seeded changes (table below) from their verify.txt"""
import json, os, re
T = {
 "C01a": ("C01", "both hops plain TCP with useSplice on (the default) AND payload glued to the CONNECT / SOCKS request (early data): the read-ahead is dropped on the splice path only", "C01 (oracle: early data / bytes lost in the loopback end-to-end matrix; correspondence)"),
 "C01b": ("C01", "a SOCKS4/4a client AND an IPv6 outgoing socket of the upstream hop (e.g. an http upstream configured by IPv6 address): the 8-byte reply is cut to `00 5A` and tunnel bytes follow", "C01 (oracle: chained tunnel over an http upstream on ::1) and C06 (oracle: no complete reply)"),
 "C02a": ("C02", "cidr_match with an IPv6 literal inside ::/96 or ::ffff:0:0/96 (it is normalised to IPv4 first)", "C02 (oracle: bit-mask containment; correspondence with the CIDR model)"),
 "C02b": ("C02", "a filter that passes the load-time check and fails to evaluate for a particular request (index out of range, non-numeric host, division by zero): it then matches everything", "C02 (oracle: per-rule evaluation through milu; correspondence)"),
 "C04a": ("C04", "buffered path, the sender's FIN already queued when the proxy reads the final chunk (write; shutdown back to back): the last chunk is lost, EOF is still relayed", "C04 and C01 (oracle: bytes lost before EOF in the loopback matrix; scripted copy_bidi correspondence)"),
 "C04b": ("C04", "buffered path, a real RST from one side while the other side stays idle: the reset is treated as EOF and the tunnel is not torn down", "C04 (oracle: abort relayed as EOF on scripted streams, abort-not-relayed end to end)"),
 "C06a": ("C06", "an upstream refusal whose error text exceeds 512 bytes (a verbose HTTP upstream): Content-Length advertises more than is sent", "C06 (oracle: no complete reply; correspondence on the framing)"),
 "C06b": ("C06", "a SOCKS4/4a client AND an IPv6 outgoing socket: success reply truncated to 2 bytes (same change as C01b)", "C06 (oracle: no complete reply / extra bytes) and C01"),
 "C07a": ("C07", "an external auth command with the verdict cache on, a credential containing ':' accepted first, then a different pair that joins to the same 'user:pass' string", "C07 (oracle: routed without valid credentials / wrong verdict in the cache history; correspondence)"),
 "C07b": ("C07", "tls.client {ca, required: true} whose CA file holds no certificate (empty, DER, key only): verification fails open", "C07 (oracle: client-cert-not-enforced in the TLS matrix with an empty / key-only CA file)"),
 "C08a": ("C08", "a let-bound name used directly as an array index: accepted by the checker, cast error for every request", "C08 (oracle: type error at request time; generator family `varpos` and a directed case)"),
 "C08b": ("C08", "exactly i64::MIN % -1 (no literal for MIN: needs an operator combination): panic instead of a dynamic error", "C08 (oracle: panic; exhaustive operator x literal-pool pairs) and C18 (real binary with such a rule)"),
 "C10a": ("C10", "QUIC datagram channel and a serialized frame whose length is an exact multiple of mtu-4: one fragment too many is advertised, the datagram never completes", "C11 (oracle + correspondence of make_fragments); not by C10's own run, which does not exercise the QUIC channel"),
 "C10b": ("C10", "a connected UDP session whose destination port closes after a successful round trip: the ICMP error becomes an empty datagram without reply address", "C10 (oracle: phantom datagram from DirectFrames::read called after a round trip and a closed port)"),
 "C13a": ("C13", "burst of data at 0 < t < idle followed by silence: the single sleep is re-armed from `now`, the tunnel stays open up to twice the period", "C13 (oracle: closed-late against the real binary; correspondence of the closing second)"),
 "C13b": ("C13", "one direction active longer than the idle period, then half-closed, the other side answering after the next tick: closed early, the answer is lost", "C13 (oracle: half-close scenario reply lost)"),
 "C14a": ("C14", "an open tunnel (or pending upstream connect) + POST /api/rules + a new connection: the rule list's read guard is held for the whole connection", "C14 (proof obligation: regenerated lock-site table fails no_lock_across_external_wait / rules_lock_is_innermost; oracle: scenario open-tunnel-then-reload)"),
 "C14b": ("C14", "a slow upstream connect on the direct connector + GET /api/live + a new connection: the context's write lock is held across DNS lookup and connect", "C14 (proof obligation: lock-site table; oracle: scenario upstream-connect-pending)"),
 "C15a": ("C15", "a reload queued exactly between the two read locks of the refactored rule lookup: index from the old list used on the new list", "C15 (oracle: mixed decision / panic in the concurrent phase)"),
 "C15b": ("C15", "a rejected replacement that repeats at least one live rule verbatim before its invalid rule: the repeated rules are removed from the live list", "C15 (oracle: decided by the wrong list after a rejected reload; correspondence)"),
 "C16a": ("C16", "more than history_size connections ending within one GC tick: the oldest of the batch are kept instead of the newest", "C16 (oracle: history-not-newest-first; correspondence of the history ids)"),
 "C16b": ("C16", "source read succeeds and the following destination write fails (upstream vanishes with client data in flight): bytes are counted although nothing was delivered", "C16 (oracle: byte counters of the vanishing-upstream connection)"),
 "C17a": ("C17", "hash-by key `request.target` and two requests whose target renders identically but is represented differently (domain literal vs socket address)", "C17 (oracle: hash-not-sticky; correspondence with the std hash of the rendered key)"),
 "C17b": ("C17", "round robin from at least two OS threads: the fetch-then-store race repeats a member", "C17 (oracle: exact per-member counts under 8 concurrent tasks at high rate)"),
 "C18a": ("C18", "a rule whose filter computes i64::MIN % -1: accepted by --test, the first matching request aborts the process (same change as C08b)", "C18 (oracle: accepted-config-crashes with the real binary) and C08"),
 "C18b": ("C18", "a load balancer listing one defined and one undefined member: passes verify, the selection unwraps a missing connector", "C18 (oracle: process died / accepted-config-hangs in the member-graph cases)"),
 "C19a": ("C19", "a QUIC connector not named `quic` whose shared connection was closed by the upstream in an orderly way: the dead connection stays cached", "C19 (oracle: no-recovery after an orderly close of the in-process QUIC upstream)"),
 "C19b": ("C19", "an upstream RST mid-session with a passive client: the reset is treated as EOF, the tunnel is not torn down (same change as C04b)", "C19 (oracle: tunnel across outage not ended with an error) and C04"),
 "C03a": ("C03", "a SOCKS4 upstream hop and an IPv6 destination inside ::/96 (`::a.b.c.d`, not ::ffff:a.b.c.d): it is sent as the IPv4 address a.b.c.d instead of being refused", "C03 (oracle: destination reinterpreted by the SOCKS4 encoder; correspondence with the encoder model)"),
 "C03b": ("C03", "a SOCKS5 upstream hop and a destination host name of exactly 256 bytes: the length byte wraps to 0 and the name bytes follow as protocol data", "C03 (oracle: over-long name accepted / decoded destination differs; correspondence)"),
 "C05a": ("C05", "an RPFM frame (inline stream or reassembled QUIC datagrams) whose address attribute is 1-2 bytes shorter than its length byte claims: get_u16 / copy_to_slice past the end panics (abort in the shipped binary)", "C05 (oracle: decoder panic in the (tag,len) attribute grid; correspondence of the outcome class)"),
 "C05b": ("C05", "an http listener with tls: and one client that connects and never completes the TLS handshake: the handshake is awaited inside the accept loop, nobody else is accepted by that listener", "C05 (proof obligation: regenerated accept-loop table fails accept_loops_have_no_peer_wait; oracle: stall matrix, stages https-tls-*)"),
 "C09a": ("C09", "two or more different prefix operators in a row (`!~x`, `-~x`, `!-x`): the chain is folded left to right, the first written operator ends up innermost", "C09 (proof obligation: regenerated precedence ladder; oracle: tree of the text differs from the tree of its fully parenthesised form)"),
 "C09b": ("C09", "a word operator (and / or / xor) directly followed by a comment, a quote, a digit or an opening bracket: the operator is no longer recognised", "C09 (proof obligation: ladder; oracle: filler between tokens changes the result / documented spelling rejected)"),
 "C11a": ("C11", "a multi-fragment frame that never completes and receives a second fragment before the timeout: its deadline moves past its only timer entry, it is never discarded, and a later frame reusing the id is lost", "C11 (oracle: complete-not-delivered in the expired-then-id-reuse scenarios; correspondence with the reassembly model)"),
 "C11b": ("C11", "a stray fragment with the id of a frame in progress, another total and an unoccupied seq: its payload is spliced into the frame", "C11 (oracle: wrong-frame-delivered / complete-not-delivered with one stray per session; correspondence)"),
 "C12a": ("C12", "UDP over CONNECT with the inline channel and the first RPFM frame in the same segment as the end of the HTTP head (either side): the read-ahead bytes are dropped", "C12 (oracle: segmentation-dependent in the head+frames cases of h11c_connect / h11c_handshake; correspondence)"),
 "C12b": ("C12", "a SOCKS4 upstream whose 8-byte reply arrives in more than one segment (or is truncated): missing bytes are read as zero", "C12 (oracle: segmentation-dependent / truncated-accepted on the SOCKS4 reply reader; correspondence)"),
 "C01c": ("C01", "buffered path (useSplice off, or a TLS / QUIC side): a tunnel that ends while the relay holds undelivered bytes (write failure, or cancelled while back-pressured, e.g. by the idle timer) returns a dirty pooled buffer; the next tunnel sends those bytes ahead of its own", "C01 (oracle: bytes-of-another-connection in the cross-connection-after-failure scenarios, added for this seed; correspondence of the scripted copy_bidi events)"),
 "C05c": ("C05", "a UDP tproxy listener (needs CAP_NET_ADMIN: cannot run in the sandbox) and one source sending more than 100 datagrams to one session while its upstream is dialled: the accept loop waits in a blocking queue send", "C05 (proof obligation only: the regenerated accept-loop table fails accept_loops_have_no_peer_wait — no-failing-input-found, the listener cannot be started here; the same defect existed in the pinned reverse UDP listener and was shown end to end and repaired: 0d45019)"),
 "C07c": ("C07", "auth.required with a users list, and a presented password that is a proper prefix of the configured one (the empty password included; every SOCKS4 request with a valid user id)", "C07 (oracle: routed without valid credentials; correspondence with the credential model)"),
 "C10c": ("C10", "a SOCKS5 UDP association at a direct connector, destinations given by NAME, and the same name addressed with two different ports: later datagrams go to the first port", "C10 (oracle: delivered-to-wrong-destination — two origins and by-name destinations added for this seed)"),
 "C04c": ("C04", "splice path (plain TCP both sides, useSplice on): one endpoint half-closes while the other still has data to send that is not yet queued in the proxy (a reply produced after seeing EOF): shutdown(Both) on the peer cuts the opposite direction", "C04 (oracle: bytes lost after the peer's half-close in the loopback matrix; correspondence)"),
 "C06c": ("C06", "a SOCKS listener and a request that fails before it is queued: wrong or missing credentials, BIND or an unknown command, UDP ASSOCIATE with allowUdp off: no callback is installed yet, the client gets a bare EOF", "C06 (oracle: no complete reply; correspondence with the reply model)"),
 "C14c": ("C14", "GET /api/status arriving while the collector's tick waits for the history list (e.g. behind a slow GET /api/history): the handler holds `alive` while it awaits `terminated`, the collector holds `terminated` and awaits `alive`", "C14 (proof obligation: regenerated lock-site table fails registry_locks_nest_in_one_order — added with the lock ranks terminated < alive; oracle: scenario history-read-slow-during-gc-then-status — added)"),
 "C16c": ("C16", "GET /api/live served after a connection was dropped and before the collector's next tick: the handler prunes the dead entry, the collector's `remove(..).unwrap()` panics and the collector is gone", "C16 (oracle: records missing from history / log once the API is polled during the run — poller added)"),
 "C02c": ("C02", "a UDP request whose first matching rule targets a connector without UDP support (a load balancer) and a later rule that matches too and targets a UDP-capable connector: the request is carried by the later rule instead of being refused", "C02 (oracle: decided by a later rule / upstream contacted for a request that must be refused; correspondence with the routing model)"),
 "C15c": ("C15", "a posted list with a filter-less rule that is not last and an invalid rule behind it: the tail is dropped before validation, the POST is accepted and the shortened list goes live", "C15 (oracle: invalid list accepted / decided by the wrong list; correspondence)"),
 "C17c": ("C17", "two or more round-robin balancers (or nested ones) in one process whose requests interleave: they share one cursor", "C17 (oracle: rr-unfair with two balancers side by side and with nested balancers — added for this seed; correspondence of the sequences)"),
 "C19c": ("C19", "QUIC connector, a CONNECT to a silent origin behind a live upstream (times out after 10 s) while another tunnel is open on the same shared connection: clearing the cache closes the connection under it", "C19 (oracle: other-tunnel-disturbed in the silent-origin scenario — added for this seed, with the shared-connection model extended by the open tunnels)"),
}
root = "/verif/seeded"
for sid, (prop, needs, caught) in sorted(T.items()):
    d = os.path.join(root, sid)
    if not os.path.isdir(d):
        print("missing", sid); continue
    v = open(os.path.join(d, "verify.txt")).read() if os.path.exists(os.path.join(d, "verify.txt")) else ""
    res = dict(re.findall(r"RESULT (\w+) (.*)", v))
    demo = [f for f in os.listdir(d) if f.startswith("demo")]
    meta = {
        "id": sid, "property": prop,
        "breaks": "see notes.md (written by the sub-agent that produced the change; it saw only the property text and its own worktree)",
        "needs_to_manifest": needs,
        "files": {"patch": "patch.diff", "demonstration": demo[0] if demo else None, "notes": "notes.md",
                  "original_patch": "patch.orig.diff" if os.path.exists(os.path.join(d, "patch.orig.diff")) else None},
        "confirmed_by_me": {
            "how": "tools/verify_seed.sh in a scratch worktree of /repo: existing suite with the demonstration only, with the patch only, with both (cargo test --workspace --offline)",
            "demo_only": res.get("demo_only"), "patch_only": res.get("patch_only"), "patch_and_demo": res.get("patch_demo"),
            "meaning": "suite passes with the patch (78 existing tests), the demonstration passes without the patch and fails with it",
        },
        "checked_with": "tools/seedtest.sh seeded/%s %s  (git -C /repo apply patch.diff; bin/check; git -C /repo checkout -- .)" % (sid, prop),
        "detected_by": caught,
    }
    if meta["files"]["original_patch"]:
        meta["rebased"] = "patch.diff is the same change rebased onto the repaired /repo (a fix: commit touched the same lines); re-verified with the demonstration in a scratch worktree at the new HEAD"
    json.dump(meta, open(os.path.join(d, "meta.json"), "w"), indent=1)
print("wrote", len(T))
