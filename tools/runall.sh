#!/bin/sh
# tools/runall.sh [tier]: run every registered check on the current /repo tree, one line per property
cd "$(dirname "$0")/.."
tier=${1:-quick}
for p in C01 C02 C03 C04 C05 C06 C07 C08 C09 C10 C11 C12 C13 C14 C15 C16 C17 C18 C19; do
  bin/check $p --tier $tier 2>/dev/null | grep -E "^(VIOLATION|KNOWN-FINDING|C[0-9][0-9]:)" | cut -c1-220
done
