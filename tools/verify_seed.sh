#!/bin/sh
# tools/verify_seed.sh <PID> <x> : confirm a seeded change in its scratch worktree /tmp/seed/<PID>/wt
#   demo only -> suite passes; patch only -> suite passes; patch + demo -> the demo fails
# then store it as /verif/seeded/<PID><x>/ (patch.diff, demo.*, notes.md) with the observed counts in verify.txt
P=$1; X=$2; W=/tmp/seed/$P/wt; O=/tmp/seed/$P/out; D=/verif/seeded/$P$X
export CARGO_NET_OFFLINE=true
cd $W || exit 2
git checkout -q -- . && git clean -fdq -e target
run() { cargo test --workspace --offline -j 6 2>&1 | grep -E "^test result|FAILED|panicked|error(\[|:)" | head -20; }
res() { echo "$1" | awk '/^test result/ {p+=$4; f+=$6} END {printf "passed=%d failed=%d", p, f}'; }
demo=$(ls $O/$P$X.demo.* | head -1)
apply_demo() { case "$demo" in *.diff) git apply "$demo";; *) true;; esac; }
mkdir -p $D
{
echo "== demo only (unchanged code)"; apply_demo; r=$(run); echo "$r" | tail -5; echo "RESULT demo_only $(res "$r")"
case "$demo" in *.sh) (sh "$demo"; echo "RESULT demo_script_unchanged rc=$?");; *.py) (python3 "$demo"; echo "RESULT demo_script_unchanged rc=$?");; esac
git checkout -q -- . && git clean -fdq -e target
echo "== patch only"; git apply $O/$P$X.patch.diff || echo "PATCH DOES NOT APPLY"; r=$(run); echo "$r" | tail -5; echo "RESULT patch_only $(res "$r")"
echo "== patch + demo"; apply_demo; r=$(run); echo "$r" | tail -8; echo "RESULT patch_demo $(res "$r")"
case "$demo" in *.sh) (sh "$demo"; echo "RESULT demo_script_patched rc=$?");; *.py) (python3 "$demo"; echo "RESULT demo_script_patched rc=$?");; esac
git checkout -q -- . && git clean -fdq -e target
} > $D/verify.txt 2>&1
cp $O/$P$X.patch.diff $D/patch.diff
cp $demo $D/$(basename $demo | sed "s/^$P$X\.//")
cp $O/$P$X.notes.md $D/notes.md 2>/dev/null
grep RESULT $D/verify.txt
