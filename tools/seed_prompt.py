#!/usr/bin/env python3
"""Print the prompt given to an independent seeding sub-agent for one property.
The agent sees only the property text and its own scratch worktree; nothing from /verif."""
import json, sys
pid = sys.argv[1]
for l in open('/verif/properties.jsonl'):
    p = json.loads(l)
    if p['id'] == pid:
        break
else:
    sys.exit('no such property')
print(f"""You are helping to evaluate a verification effort by playing the adversary. The project is redproxy-rs (a small Rust/tokio proxy router translating between HTTP CONNECT, SOCKS4/5, QUIC and TPROXY, with rule filters in a bundled expression language 'milu'). You have your own scratch git worktree of it at /tmp/seed/{pid}/wt (work ONLY there and in /tmp/seed/{pid}/out; never touch /repo or /verif, and do not read /verif). The sandbox has no network: always pass --offline to cargo (CARGO_NET_OFFLINE=true). `cargo test --workspace --offline` in the worktree runs the existing test suite (78 tests, all pass on the unchanged tree; first build takes a couple of minutes).

The property (semantic, about the system's observable behaviour):

  Title: {p['title']}
  Statement: {p['statement']}
  Quantified over: {p['quantifier']['text']}

Your task: produce TWO different, independent, realistic changes (call them a and b) to the redproxy-rs source (src/ or milu/src/), each of which BREAKS this property while (1) still compiling, (2) leaving every one of the existing tests passing (do not edit, delete or add to existing tests in the change itself), and (3) looking like a plausible maintainer edit (a refactor, optimisation, 'simplification', off-by-one, wrong operator/constant, reordered statements, dropped flush, etc.), NOT an obviously malicious one. Prefer changes that need something specific to manifest — a particular interleaving or segmentation, a fault at a particular point, a multi-step sequence of operations, an unusual input (boundary length, specific byte, particular operator combination), or two cooperating sites that each look fine alone — rather than changes that ordinary use would expose at once. The two changes should break the property in different ways / at different places. Note: the unchanged code may itself already violate the property on some inputs; your change must introduce a NEW failure on inputs for which the unchanged code behaves correctly.

For each change provide a demonstration: a Rust test (e.g. a new #[cfg(test)] test module or function added by a separate demo patch) or a small program/script that FAILS with the change applied and PASSES without it. Verify all of this yourself: build, run the full existing suite with the change (must pass), run the demo with and without the change.

Deliver, for each x in {{a, b}}, in /tmp/seed/{pid}/out/:
  {pid}{{x}}.patch.diff   — the breaking change only, as `git diff` output relative to the worktree's HEAD (must apply with `git apply` to a clean checkout of HEAD)
  {pid}{{x}}.demo.diff    — the demonstration as a separate `git diff` (adds a test or files only; applies on clean HEAD independently of the patch), or {pid}{{x}}.demo.sh / .py if it is a script
  {pid}{{x}}.notes.md     — which part of the property it breaks, what exactly is needed for it to manifest (the concrete input / sequence / schedule), the exact commands you ran and what they printed (existing suite with change: pass; demo with change: fail; demo without change: pass).
Leave the worktree clean (git checkout -- . && git clean -fd, but keep target/ to save time) when done. Your final message should summarise the two changes in a few lines each. If you can only find one good change in reasonable time (about 40 minutes), deliver one.""")
