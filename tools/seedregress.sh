#!/bin/sh
# tools/seedregress.sh [ids...] : apply every seeded change in turn, run its property's check (quick tier), record
# whether the check reports a VIOLATION; writes seeded/REGRESSION.txt.  /repo must be clean and otherwise unused.
cd /verif || exit 2
out=seeded/REGRESSION.txt.new
: > $out
ids="$@"
[ -z "$ids" ] && ids=$(ls seeded | grep -E '^C[0-9][0-9][a-z]$')
for id in $ids; do
  p=$(python3 -c "import json;print(json.load(open('seeded/$id/meta.json'))['property'])")
  r=$(tools/seedtest.sh seeded/$id $p 2>&1)
  v=$(echo "$r" | grep -c '^VIOLATION')
  inp=$(echo "$r" | grep '^VIOLATION' | grep -c 'no-failing-input-found')
  line=$(echo "$r" | grep "^$p:" | cut -c1-120)
  if [ "$v" -ge 1 ]; then
    if [ "$inp" -ge 1 ]; then st="DETECTED(proof-obligation-only)"; else st="DETECTED(failing-input)"; fi
  else st="MISSED"; fi
  echo "$id $p $st | $line" >> $out
done
# merge: keep the lines of seeds not re-run
if [ -f seeded/REGRESSION.txt ]; then grep -v "^#" seeded/REGRESSION.txt | while read l; do i=$(echo "$l" | cut -d" " -f1); grep -q "^$i " $out || echo "$l" >> $out; done; fi
sort $out > seeded/REGRESSION.txt; rm -f $out
git -C /repo status --short
