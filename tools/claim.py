#!/usr/bin/env python3
"""tools/claim.py <PID> <text-file>: add / replace a check entry in MANIFEST.json.
text-file holds 3 paragraphs separated by blank lines: level text / level note / technique"""
import json, sys
pid = sys.argv[1]
text, note, tech = [x.strip().replace("\n", " ") for x in open(sys.argv[2]).read().strip().split("\n\n")][:3]
p = '/verif/MANIFEST.json'; m = json.load(open(p))
m['checks'] = [c for c in m['checks'] if c['property_id'] != pid]
m['checks'].append({
    "property_id": pid, "quick_cmd": f"bin/check {pid} --tier quick", "thorough_cmd": f"bin/check {pid} --tier thorough",
    "evidence_file": f"evidence/{pid}.json", "replay_cmd_template": f"bin/check {pid} --replay {{path}}",
    "engine": "lean-proof+correspondence",
    "level_claimed": {"category": "proof", "text": text, "design_ref": f"DESIGN.md §6 {pid}"},
    "level_note": note, "technique": tech})
m['checks'].sort(key=lambda c: c['property_id'])
if pid not in m['engines'][0]['serves_properties']:
    m['engines'][0]['serves_properties'].append(pid); m['engines'][0]['serves_properties'].sort()
m['not_applicable'] = [n for n in m['not_applicable'] if n['property_id'] != pid]
json.dump(m, open(p, 'w'), indent=1)
print("claimed", pid, "; checks:", [c['property_id'] for c in m['checks']])
