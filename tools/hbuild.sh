#!/bin/sh
# build the hooked harness and show compiler errors
cd /verif
RUSTFLAGS='--cfg mengjiangproject_redproxy_rs_verif' REDPROXY_VERIF_DRIVER_RS=/verif/harness/driver.rs REDPROXY_VERIF_HARNESS_DIR=/verif/harness CARGO_NET_OFFLINE=true cargo build --offline --manifest-path ${VERIF_REPO:-/repo}/Cargo.toml --target-dir /verif/.build/cargo-hooked --config 'profile.dev.panic="unwind"' 2>&1 | grep -E "^error" -A14 | head -${1:-60}
