#!/bin/sh
# tools/seedtest.sh <seed-dir> <prop> [<prop>...] : apply a seeded breaking change to /repo, run the checks, undo.
d=$(readlink -f "$1"); shift
cd /repo || exit 2
if ! git diff --quiet; then echo "/repo is dirty"; exit 2; fi
git apply "$d/patch.diff" || { echo "patch does not apply"; exit 2; }
for p in "$@"; do
  (cd /verif && bin/check "$p" 2>/dev/null | tail -4)
done
git -C /repo checkout -- .
git -C /repo status --short
