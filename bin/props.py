"""Per-property configuration of bin/check and the generic correspondence runner."""
import os, json, hashlib, subprocess, time

PROPS = {
    "C11": {
        "props_module": "Redproxy.Props.C11",
        "mode": "c11",
        "session_start": "new ",
        "rule": "sessions against one Fragments value: exhaustive permutations+one duplicate of n<=5 (quick) / 6 (thorough) "
                "fragments, all 65536 (total,seq) headers as first and as second datagram, random frames x mtus "
                "{5,6,8,64,1200,1452,65535} permuted/duplicated/interleaved with malformed datagrams, 66k-frame id wrap, "
                "timer regimes; a session is non-trivial if it feeds >= 2 datagrams; distinct = distinct op sequences",
        "nontrivial_min_lines": 3,
        "trusted_base": ["hand-written model Redproxy/Model/Fragment.lean tied to src/common/fragment.rs by the "
                         "correspondence run (differential, generator-bounded)",
                         "Instant::now() replaced by a logical clock argument in the model"],
        "assumptions": ["monotone clock; HashMap/VecDeque behave as an association map / FIFO"],
    },
    "C03": {
        "props_module": "Redproxy.Props.C03",
        "mode": "c03", "model_mode": "codec",
        "rule": "destinations (hosts of length 0..300 incl. 253..257, byte classes alnum / .:[] / space CR LF TAB DEL / NUL / multi-byte UTF-8 "
                "incl. Unicode white space, IPv4/IPv6 incl. mapped, zero and 0.0.0.x, ports 0,1,53,80,443,65535,random) through every "
                "(writer, reader) pair of SOCKS5, SOCKS4/4a, HTTP CONNECT (h11c_connect -> h11c_handshake), RPFM (buffer and segmented "
                "stream), SOCKS5-UDP header, text form; plus two-hop composition from raw inbound client bytes (non-UTF-8, delimiters); "
                "a case is non-trivial if the destination is a domain or the writer refused; distinct = distinct case lines",
        "nontrivial": lambda c, i: (" D:" in c) or ("D:" in i) or i.startswith("err"),
        "trusted_base": ["hand-written codec models tied to the real writers/readers by exact byte-level correspondence",
                         "IPv6 socket-address text form is a parameter (table sampled from std::net per case)"],
        "assumptions": ["std parses the IPv6 text it prints"],
    },
    "C09": {
        "props_module": "Redproxy.Props.C09",
        "mode": "c09",
        "translators": ["ladder.py"],
        "rule": "program texts rendered from trees: every documented operator alone, every ordered pair (both shapes) and triple of the 26 "
                "binary spellings, unary/postfix against every binary, random trees to depth 6 incl. if/?:/let/arrays/tuples/calls, each in "
                "minimal-parenthesis and fully parenthesised form and with blank/comment filler at token boundaries; directed malformed "
                "texts; non-trivial = contains at least one operator; distinct = distinct texts",
        "nontrivial": lambda c, i: len(c) > 12,
        "trusted_base": ["translate/ladder.py extracts the op_rule! ladder, unary tags and spelling maps from milu/src/parser.rs and the "
                         "documented table from milu/readme.md (regex level; cross-checked because the generated tables drive the executable "
                         "parser model that is compared with the real parser)",
                         "hand-written parser model Redproxy/Model/MiluParser.lean; template strings and \\u escapes not modelled"],
        "assumptions": [],
    },
    "C02": {
        "props_module": "Redproxy.Props.C02",
        "mode": "c02",
        "session_start": "W ",
        "rule": "worlds (1-4 recording connectors with random feature sets, 0-8 rules: deny / connector / unknown target, no filter / one of 36 filters "
                "over every request attribute incl. ones that fail to evaluate / an invalid filter) installed through the real set_rules, then 2-6 "
                "requests each (6 request shapes x random payload x random set of refusing connectors) through the real process_request; "
                "cidr_match: 11+10 fixed and random IPv4/IPv6 addresses x random networks of every prefix length + each address against every one of its "
                "own prefixes + 55 text forms; a routing session is non-trivial if it holds >= 2 lines; distinct = distinct sessions / cidr lines",
        "nontrivial_min_lines": 2,
        "trusted_base": ["hand-written router model Redproxy/Model/Route.lean + evaluator model (C08) + Cidr model tied to set_rules / process_request / "
                         "cidr_match by exact correspondence", "recording connectors and in-memory duplex streams stand for upstreams and the client"],
        "assumptions": ["std::net / crate cidr text parsers behave as modelled (sampled by the correspondence)"],
    },
    "C15": {
        "props_module": "Redproxy.Props.C15",
        "mode": "c15", "model_mode": "c02",
        "session_start": "W ",
        "rule": "histories against one GlobalState: an initial valid list, then 2-6 steps each a reload with exactly one bad rule (syntax error / "
                "non-boolean or ill-typed filter / unknown upstream) at a random position, a valid reload, or GET /rules -> POST unchanged (the API's "
                "JSON), each followed by probe requests through the real process_request; then a concurrent phase (16 tasks x 40 requests racing "
                "with a task that swaps two lists as fast as it can, multi-thread runtime) where every decision must be the old or the new list's; "
                "a history is non-trivial if it holds >= 3 lines; distinct = distinct histories",
        "nontrivial_min_lines": 3,
        "trusted_base": ["router model Redproxy/Model/Route.lean (setRules, stepL/runL lock model) tied to set_rules / process_request by correspondence",
                         "tokio RwLock: a write lock is granted only while no read guard is held (assumed in stepL)"],
        "assumptions": ["the concurrent phase samples schedules; the all-schedules statement is the theorem decided_by_one_version about the lock model"],
    },
    "C17": {
        "props_module": "Redproxy.Props.C17",
        "mode": "c17",
        "rule": "the real LoadBalanceConnector (connectors::from_value + init + verify) with 1-7 recording members: round robin sequential (5 lengths "
                "per n, every window of j*n selections checked), round robin from 8 concurrent tasks on the multi-thread runtime (exact equal counts), "
                "hash-by over 7 key expressions x 4 member counts x ~45 requests incl. pairs that render to the same key from different "
                "representations (domain literal vs socket address), random (200n draws, members only, all seen); non-trivial = every line; "
                "distinct = distinct lines",
        "nontrivial": lambda c, i: True,
        "trusted_base": ["model Redproxy/Model/Lb.lean tied to loadbalance.rs by correspondence; DefaultHasher and thread_rng are parameters (the hash of "
                         "each key value is sampled by the harness with the same std hasher and passed to the model)"],
        "assumptions": ["the frequency clause of `random` is statistical: sampled, not proved; the counter wrap at 2^64 selections is stated (rr_wrap) and not exercised"],
    },
    "C06": {
        "props_module": "Redproxy.Props.C06",
        "mode": "c06",
        "rule": "real http and socks listeners (incl. one that requires credentials) on loopback + the real dispatcher / process_request + recording "
                "upstreams; a raw TCP client per case: protocol {HTTP CONNECT, SOCKS4/4a, SOCKS5} x 6 targets (domain, IPv4, IPv6, 1-char and 200-char "
                "hosts, port 65535) x outcome {established, explicit deny, no rule, unsupported feature, upstream refused, BIND, UDP ASSOCIATE "
                "disallowed, unknown command, bad credentials} x {with, without early data glued to the handshake}; every byte until EOF is recorded; "
                "non-trivial = every case; distinct = distinct case lines (outcome classes collapse in the model's input: measured on the lines)",
        "nontrivial": lambda c, i: True,
        "trusted_base": ["reply model Redproxy/Model/Reply.lean (callbacks as reply programs over the BufWriter model, folded over the process_request "
                         "effect trace) tied to the real listeners by exact byte correspondence; the error text of the 503 body is an input of the model"],
        "assumptions": ["loopback TCP delivers in order; 3 s is enough for the proxy to reply and close"],
    },
    "C01": {
        "props_module": "Redproxy.Props.C01",
        "mode": "c01", "model_mode": "relay",
        "rule": "(a) scripted in-memory streams into the real copy_bidi: random chunkings of both directions, buffer sizes {1,2,7,64,4096,65536}, "
                "partial-write scripts, a Pending before every read (interleaves the two halves and the ticker), a handshake of k bytes read through "
                "the BufReader first so that read-ahead must be handed over; exact events (coalesced data / flush / shutdown), result and byte "
                "counters compared; (b) real http and socks listeners + the real direct connector + a harness origin on loopback, useSplice on and "
                "off: payloads 0 B .. 400 kB (2 MB thorough) both ways, early data glued to the handshake, either side closing first, slow origin, "
                "8 (24) concurrent tunnels with distinct payloads; non-trivial = at least one payload byte; distinct = distinct case lines",
        "nontrivial": lambda c, i: not c.startswith("B ") or " - - " not in c,
        "trusted_base": ["relay model Redproxy/Model/Relay.lean tied to copy.rs by exact event correspondence on scripted streams; kernel TCP / splice, "
                         "the listeners' handshakes and the direct connector are exercised end to end (delivered bytes compared by length and hash)"],
        "assumptions": ["TLS and QUIC transports are not exercised by this check", "loopback TCP delivers in order without loss"],
    },
    "C04": {
        "props_module": "Redproxy.Props.C04",
        "mode": "c04", "model_mode": "relay",
        "rule": "(a) scripted streams into the real copy_bidi with EOF or a read error (reset) at the end of either direction; (b) loopback end to end, "
                "useSplice on and off: client half-closes first / origin half-closes first (the opposite direction must still deliver everything, each "
                "side must see EOF after its last byte) and client / origin aborts with SO_LINGER 0 (the other socket must be closed within 6 s); "
                "non-trivial = every case; distinct = distinct case lines",
        "nontrivial": lambda c, i: True,
        "trusted_base": ["relay model tied to copy.rs by correspondence (scripted: exact; end to end: observable outcome)"],
        "assumptions": ["RST timing and TLS close_notify are observed only on plain TCP loopback"],
    },
    "C16": {
        "props_module": "Redproxy.Props.C16",
        "mode": "c16",
        "session_start": "N ",
        "rule": "worlds with history size {0,1,3,100} (+{2,7} thorough), the real registry, GC thread (real 1 s ticks) and JSON access log; bursts of 2-6 "
                "(2-11) connections through real http / socks listeners on loopback: established with payload (with and without early data), denied, "
                "upstream refused, garbage instead of a handshake, hang-up mid-handshake, one connection held open across a GC tick; after each "
                "burst the live table, the history and the log file (after a rotate) are compared with the model, and every log record is checked "
                "against what the client and upstream actually did (listener, source port, target, connector, state grammar, error text, byte "
                "counters); a session is non-trivial if it has >= 3 lines; distinct = distinct sessions",
        "nontrivial_min_lines": 3,
        "trusted_base": ["registry model Redproxy/Model/Registry.lean tied to context.rs / access_log.rs by correspondence of ids in the live table, history and log"],
        "assumptions": ["connections of a burst end one after the other (the harness waits for each context to be dropped), so the drop order is the creation order",
                        "GC timing (1 s) is real time; log flushing is forced with a rotate"],
    },
    "C13": {
        "props_module": "Redproxy.Props.C13",
        "mode": "c13",
        "needs_plain": True,
        "rule": "the un-hooked binary built from the current tree, started with 6 generated configurations (timeouts absent / idle 2 udp 5 / idle 0 / idle 3 "
                "/ udp 4 / idle 86400 udp 1; useSplice on and off): the idle_timeout of a live CONNECT tunnel and of a live reverse-UDP session read "
                "from /api/live; then real-time scenarios under idle = 2 s, each its own tunnel, all concurrent, splice on and off: silent, burst at "
                "0.5 s, one byte at 1.4 s, a client-side trickle every second for 4.3 s, an origin-side trickle, (thorough: alternating directions, a "
                "late origin byte), a silent tunnel under idle = 0, and the half-close scenario (client uploads for 3.2 s, half-closes, origin answers "
                "1.3 s later); the second at which the tunnel is closed is compared with the model; non-trivial = every case; distinct = case lines",
        "nontrivial": lambda c, i: True,
        "trusted_base": ["timeout model Redproxy/Model/Idle.lean tied to main.rs / context.rs / copy.rs by correspondence through the real process; close "
                         "times are rounded to the second (scenarios keep >= 300 ms distance from tick boundaries)"],
        "assumptions": ["monotone wall clock; the scheduler runs the 1 s ticker within a few hundred ms"],
        "timeout": 120,
    },
    "C10": {
        "props_module": "Redproxy.Props.C10",
        "mode": "c10",
        "rule": "in-process real listeners and connectors with UDP echo origins: reverse-UDP listener -> direct with 1-4 clients interleaved (payloads "
                "0 B .. 60 kB, the first datagram of every session included); SOCKS5 UDP ASSOCIATE -> direct / -> http connector (frames inline over the CONNECT stream) / -> quic connector "
                "(QUIC datagrams, fragmented) / -> quic connector with inlineUdp, each through a second proxy instance -> direct, two origins addressed by "
                "IP literal and by name, each origin must receive exactly what was addressed to it and replies must carry the replying address; a sweep of "
                "consecutive payload lengths over the QUIC datagram channel; receive-error scenarios "
                "(client port closed after its last datagram, destination port closed); each datagram must come back exactly once, in order, to its "
                "own client with identical payload (length + hash); non-trivial = every case; distinct = case lines",
        "nontrivial": lambda c, i: True,
        "trusted_base": ["session model Redproxy/Model/Udp.lean tied to reverse.rs / udp.rs / direct.rs by correspondence; codec models of C03 / C11 for "
                         "the SOCKS5-UDP header, RPFM frames and QUIC fragments"],
        "assumptions": ["loopback UDP neither loses nor reorders at the harness's rates; ICMP port-unreachable is delivered on loopback",
                        "QUIC datagrams are not lost on loopback at the harness's rates (batches of 12)"],
    },
    "C07": {
        "props_module": "Redproxy.Props.C07",
        "mode": "c07",
        "rule": "real SOCKS listeners (open / credentials required: static user list + external command + cache) on loopback: every SOCKS5 offer list "
                "of length <= 3 over {00,01,02,80,ff} in every order (156 lists) x rotating credential classes (valid static, valid by command, wrong "
                "password, empty, colliding 'alice:x'/'secret', 255-byte, swapped), SOCKS4 user ids; histories of AuthData::check against the "
                "external command with cache timeout 1 / 0 / 300 s in real time (command invocations counted); TLS client-certificate matrix "
                "{http, socks, quic listener} x {tls.client absent, optional, required} x {no cert, valid, foreign CA} with real handshakes "
                "(tokio-rustls / quinn clients, committed test PKI); upstream matrix {http, socks connector} x {insecure} x {valid, foreign CA, wrong "
                "name}; non-trivial = every case; distinct = case lines",
        "nontrivial": lambda c, i: True,
        "trusted_base": ["auth model Redproxy/Model/Auth.lean tied to socks.rs / auth.rs / tls.rs / quic.rs by correspondence; rustls path validation and "
                         "name matching are trusted (the model takes their verdicts as inputs)"],
        "assumptions": ["test PKI under harness/pki (generated once with openssl, 20-year validity)", "QUIC connector upstream verification is modelled (always verifies) but not exercised"],
    },
    "C18": {
        "props_module": "Redproxy.Props.C18",
        "mode": "c18",
        "needs_plain": True,
        "rule": "(V) every combination of 11 name shapes x 14 type shapes (absent, strings incl. all kind names / deny / unknown, number, bool, null, "
                "sequence, map) through connectors::from_value and listeners::from_value (exhaustive over the table), (D) duplicate / reserved names "
                "through from_config, (L) 10 fixed + 40 (300) random load-balancer member graphs (self loops, 2- and 3-cycles, diamonds, chains, "
                "undefined members) through the real verify, then 12 requests through every accepted balancer, (M) ~1500 mutated documents (delete / "
                "retype every field with 18 replacement values) of every connector / listener kind, metrics, access log and rule lists through the real "
                "loaders + init under panic capture, (B) the un-hooked binary with --test on 8 configurations and, when accepted, 3 requests while the "
                "process is watched; non-trivial = every case; distinct = case lines",
        "nontrivial": lambda c, i: True,
        "trusted_base": ["loader / member-graph model Redproxy/Model/Config.lean tied to connectors/mod.rs, listeners/mod.rs, loadbalance.rs by correspondence; "
                         "serde struct deserialisation is a parameter of the model (exercised by the mutation stream under panic capture, not modelled)"],
        "assumptions": ["the mutation stream is a sample of malformed documents, not an enumeration"],
        "timeout": 300,
    },
    "C14": {
        "props_module": "Redproxy.Props.C14",
        "mode": "c14",
        "translators": ["locksites.py"],
        "rule": "in process: real http and socks listeners, direct connectors, the real MetricsServer (axum) on loopback; scenarios with three stalled "
                "clients each: stalled before sending anything / mid method / mid target / after the request line / mid header (http), mid hello / "
                "after hello / mid request / mid SOCKS4 user id (socks), (thorough: at every byte offset of a CONNECT request), a tunnel blocked on "
                "a peer that never reads, an upstream connect that never completes (DNS server that never answers), an open idle tunnel during a "
                "rule reload; in each scenario every API endpoint (status, live, history, rules, metrics, POST rules) must answer within 2 s and a "
                "fresh connection through each listener must be served within 2 s; stalled clients accumulate across scenarios; then the stall matrix of C05 with the API "
                "probed at every stage (http+tls / socks+tls / quic / reverse-udp listeners: clients stalled in the TLS and QUIC handshakes, on QUIC streams, "
                "UDP floods and bursts); plus the lock-site table regenerated from the source; non-trivial = every scenario; distinct = case lines",
        "nontrivial": lambda c, i: True,
        "trusted_base": ["translate/locksites.py (textual, brace-level) extracts the guards held across awaits; the lock model Redproxy/Model/Locks.lean "
                         "treats every lock as exclusive", "scenario conformance is timing based (2 s bound on loopback)"],
        "assumptions": ["tokio Mutex / RwLock semantics; a listener callback writes one short reply (fits the socket buffer) while the connection's lock is held"],
        "timeout": 600,
    },
    "C19": {
        "props_module": "Redproxy.Props.C19",
        "mode": "c19",
        "needs_plain": True,
        "rule": "real direct / http / socks connectors in process against upstreams the harness stops (connections reset) and restarts on the same "
                "port: healthy, two attempts during the outage, first attempt after it (2 rounds, 3 thorough), each successful attempt must really echo "
                "a byte; a tunnel open across the outage (must end with an error and close the client side) next to a tunnel through another "
                "upstream (must keep working); the real QuicConnector in process against the un-hooked binary as upstream proxy (quic listener -> "
                "direct, test PKI), killed with SIGKILL and restarted on the same port: recovery within two attempts, none of them hanging "
                "(thorough: also an attempt during the outage, two outages); non-trivial = every case; distinct = case lines",
        "nontrivial": lambda c, i: True,
        "trusted_base": ["connection-cache model Redproxy/Model/QuicCache.lean tied to connectors/quic.rs by correspondence through a real kill / restart "
                         "of the upstream process; quinn's loss detection is environment"],
        "assumptions": ["a SIGKILLed upstream leaves the cached QUIC connection dead without the connector's endpoint noticing (observed)",
                        "the CONNECT exchange bound of the repaired code is 10 s; the harness waits 13 s before it calls an attempt hung"],
        "timeout": 300,
    },
    "C08": {
        "props_module": "Redproxy.Props.C08",
        "mode": "c08",
        "rule": "milu programs as text through the real parser, type checker (context as Filter::validate builds it) and evaluator (context as "
                "Filter::evaluate builds it, 6 request shapes): directed witnesses and builtin boundary cases, every binary operator over an "
                "18-value literal pool incl. the i64 extremes (exhaustive), every unary operator, type-directed random programs in four families "
                "(scalar, with let, with arrays/tuples/index/member/split/strcat, and an untyped stream that is mostly rejected); non-trivial = the "
                "program was accepted by the checker; distinct = distinct (request, text) lines",
        "nontrivial": lambda c, i: i.startswith("T=") and not i.startswith("T=err"),
        "trusted_base": ["hand-written checker/evaluator model Redproxy/Model/MiluEval.lean tied to milu/src/script.rs + stdlib.rs + "
                         "src/rules/script_ext.rs by exact correspondence (type, value or error class) on the programs above",
                         "regex matching is a parameter of the model (the driver instantiates it for the literal/anchor/dot patterns the generator uses)",
                         "the text is parsed by the parser model of C09 on the model side and by the real parser on the implementation side"],
        "assumptions": ["regex crate: compile/match behaviour outside the generated pattern class is not modelled"],
    },
    "C05": {
        "props_module": "Redproxy.Props.C05",
        "mode": "c05", "model_mode": "codec",
        "translators": ["acceptsites.py"],
        "rule": "malformed-first: for generated valid messages of each of 12 decoder entry points (SOCKS request/reply readers, HTTP "
                "request/response head readers, RPFM from_buffer/read_head/stream reader, SOCKS-UDP header, h11c_connect reading a hostile "
                "upstream reply incl. Session-Id, h11c_handshake, SOCKS connector negotiation, TargetAddress parser): every value of each of "
                "the first bytes, truncation at every offset, random garbage/insert/delete; the (tag,len) grid of RPFM address attributes; a grid of "
                "header-line shapes (key x separator x value x line end) in request and response heads; "
                "QUIC datagram sequences into Fragments<Frame>; and the stall matrix: real http / http+tls / socks / socks+tls / quic / reverse-udp "
                "listeners in process, three clients stalled at each of 18 handshake stages (TCP accept only, partial / complete TLS ClientHello, "
                "TLS done + partial request, QUIC Initial only (lossy forwarder), QUIC connection without stream, partial request on a stream, "
                "garbage datagrams, a UDP flood into a session whose upstream stopped reading), then a fresh client per listener within 3 s; non-trivial = not the unmodified valid message; distinct = distinct case lines",
        "nontrivial": lambda c, i: True,
        "trusted_base": ["hand-written decoder models (Socks/Http/Frames/Fragment) tied to the code by outcome-class correspondence under catch_unwind",
                         "dev profile (overflow checks on) with panic=unwind override so that panics are observable",
                         "translate/acceptsites.py (textual) extracts the awaits each listener's accept loop performs outside tokio::spawn and classifies them; "
                         "the accept-loop model (Model/Accept.lean) abstracts a listener to 'take a client, perform these waits, spawn'; a blocking send into a "
                         "bounded per-session queue counts as a wait on that session's peer (the pinned reverse UDP listener had one: repaired, 0d45019)",
                         "the stall matrix is timing based (3 s bound on loopback)"],
        "assumptions": ["resource exhaustion (unbounded read_line / read_until buffers) is outside the model"],
    },
    "C12": {
        "props_module": "Redproxy.Props.C12",
        "mode": "c12", "model_mode": "codec",
        "rule": "generated valid messages of every stream codec (SOCKS5 request with/without RFC1929, SOCKS4/4a request, SOCKS4/5 "
                "reply, client side of the SOCKS5 negotiation, HTTP request/response head, 1-5 RPFM frames) x every segmentation "
                "for messages <= 11 (quick) / 13 (thorough) bytes, random cut sets (incl. all-single-byte) otherwise x random tail; "
                "every truncation point; a case is non-trivial if it has >= 2 segments or is a truncation; distinct = distinct case lines",
        "nontrivial": lambda c, i: ("," in c) or i.startswith("err"),
        "trusted_base": ["hand-written models Redproxy/Model/{Rd,Socks,Http,Frames,Utf8,Addr}.lean tied to src/common/{socks,http,frames}.rs "
                         "by the correspondence run over a scripted AsyncRead",
                         "tokio BufReader/BufWriter: a refill returns one segment; read_until/read_line/read_exact semantics",
                         "fuel of the header-line loop and of the frame loop exceeds every generated input (documented parameter)"],
        "assumptions": ["segments are non-empty (a zero-length read is end of stream in tokio)"],
    },
}


def _read_lines(path):
    with open(path, encoding="utf-8", errors="replace") as f:
        return f.read().split("\n")[:-1]


def run_correspondence(pid, cfg, hbin, outdir, args, extra_bins, run, LEAN, log):
    prefix = os.path.join(outdir, "run")
    for ext in ("cases", "impl", "oracle", "stats", "model"):
        try:
            os.remove(prefix + "." + ext)
        except OSError:
            pass
    problems = []
    env = {"REDPROXY_VERIF_DRIVER": "1", "RUST_BACKTRACE": "0"}
    kv = [f"seed={args.seed}", f"tier={args.tier}"]
    for k, v in extra_bins.items():
        kv.append(f"{k}bin={v}")
    if args.replay:
        kv.append(f"replay={args.replay}")
    t0 = time.time()
    # the harness runs with its out directory as working directory: configurations under test may create files at
    # relative paths (log files named by a mutated field), which must not land in /verif
    rc, out, dt = run([hbin, cfg["mode"], prefix] + kv, env=env, timeout=cfg.get("timeout", 3000), cwd=outdir)
    log(f"harness {cfg['mode']} rc={rc} {dt:.1f}s")
    cases = _read_lines(prefix + ".cases") if os.path.exists(prefix + ".cases") else []
    impl = _read_lines(prefix + ".impl") if os.path.exists(prefix + ".impl") else []
    oracle_fails = []
    n = min(len(cases), len(impl))
    sess = cfg.get("session_start")

    def context(i):
        if not sess:
            return []
        j = i
        while j > 0 and not cases[j].startswith(sess):
            j -= 1
        ctx = cases[j:i + 1]
        if len(ctx) > 60:
            ctx = ctx[:5] + ["... (%d lines) ..." % (len(ctx) - 45)] + ctx[-40:]
        return ctx

    if rc != 0:
        last = cases[-1] if cases else "(none)"
        oracle_fails.append({"kind": "process-died", "detail": f"the harness process running the real code exited with status {rc} "
                             f"(abort / stack overflow / uncaught panic) after case {len(cases)}: {out[-400:]}",
                             "case": last, "line": len(cases), "file": prefix + ".cases", "context": context(len(cases) - 1) if cases else []})
    # model
    with open(prefix + ".cases") as fin, open(prefix + ".model", "w") as fout:
        p = subprocess.run([os.path.join(LEAN, ".lake", "build", "bin", "rpmodel"), cfg.get("model_mode", cfg["mode"])], stdin=fin, stdout=fout,
                           stderr=subprocess.PIPE, text=True)
    if p.returncode != 0:
        problems.append(("model-run", f"rpmodel {cfg['mode']} failed: {p.stderr[-500:]}"))
    model = _read_lines(prefix + ".model")
    log(f"model done {time.time() - t0:.1f}s, {n} cases")
    disagreements = []
    for i in range(n):
        m = model[i] if i < len(model) else "(missing)"
        if impl[i] != m:
            if len(disagreements) < 50:
                disagreements.append({"line": i + 1, "file": prefix + ".cases", "case": cases[i][:2000], "impl": impl[i][:2000],
                                      "model": m[:2000], "context": [c[:300] for c in context(i)]})
            else:
                disagreements.append(None)
    disagreements = [d if d else {} for d in disagreements]
    if os.path.exists(prefix + ".oracle"):
        for l in _read_lines(prefix + ".oracle"):
            parts = l.split("\t")
            if len(parts) < 3:
                continue
            no = int(parts[0])
            i = no - 1
            if len(oracle_fails) >= 200:
                oracle_fails.append({"kind": parts[1], "detail": parts[2], "line": no, "file": prefix + ".cases",
                                     "case": cases[i][:2000] if 0 <= i < n else "", "context": []})
                continue
            oracle_fails.append({"kind": parts[1], "detail": parts[2], "line": no, "file": prefix + ".cases",
                                 "case": cases[i][:2000] if 0 <= i < n else "", "impl": impl[i][:500] if 0 <= i < n else "",
                                 "model": model[i][:500] if 0 <= i < len(model) else "", "context": [c[:300] for c in context(i)] if 0 <= i < n else []})
    stats = {}
    if os.path.exists(prefix + ".stats"):
        try:
            stats = json.load(open(prefix + ".stats"))
        except Exception:
            pass
    # distinct non-trivial cases, measured
    seen = set()
    samples = []
    minl = cfg.get("nontrivial_min_lines", 1)
    if sess:
        cur = []
        def flush():
            if len(cur) >= minl:
                h = hashlib.sha1("\n".join(cur).encode()).digest()
                if h not in seen:
                    seen.add(h)
                    if len(samples) < 12 and (len(seen) % 997 == 1 or len(samples) < 3):
                        samples.append([c[:200] for c in cur[:12]])
        for i in range(n):
            if cases[i].startswith(sess):
                flush()
                cur = []
            cur.append(cases[i] + " => " + impl[i])
        flush()
    else:
        pred = cfg.get("nontrivial")
        for i in range(n):
            if pred is None or pred(cases[i], impl[i]):
                h = hashlib.sha1(cases[i].encode()).digest()
                if h not in seen:
                    seen.add(h)
                    if len(samples) < 12 and (len(seen) % 997 == 1 or len(samples) < 3):
                        samples.append((cases[i] + " => " + impl[i])[:400])
    return {"stats": stats, "n_cases": n, "disagreements": disagreements, "oracle_fails": oracle_fails,
            "samples": samples, "distinct_nontrivial": len(seen), "problems": problems}
