#!/usr/bin/env python3
"""translate/locksites.py <repo> <gen-dir>

Regenerates Redproxy/Gen/LockSites.lean from /repo's current source: every place where a guard of the registry
lock (`alive` / `terminated` Mutex), of a connection's lock (`ContextRef` RwLock) or of the rule list's RwLock is
bound and stays alive across later `.await`s (kind `other`: a guard of any other async lock), with those awaits
classified:

  lock       a Mutex / rule-list acquisition (`.lock().await`, `rules().await`)
  lockAlive / lockTerminated   acquisition of the registry's `alive` map / `terminated` history list
  ctxlock    a connection's RwLock acquisition (`.read()/.write().await`)
  callback   a listener callback (`cb.on_connect/on_error/on_finish`) — writes one short reply to the client
  external   anything that waits for a peer or a timer: socket reads/writes, connect, DNS, handshakes, the relay,
             sleeps, channel sends
  local      anything else (pure / in-memory async)

Textual (brace level) analysis: a `let g = <expr>.write().await;` guard lives to the end of its block or to an
explicit `drop(g)`; a temporary guard (`x.lock().await.values()...`) lives to the end of its statement.
"""
import os, re, sys

repo, gen = sys.argv[1], sys.argv[2]
FILES = []
for root, _, fs in os.walk(os.path.join(repo, "src")):
    for f in fs:
        if f.endswith(".rs"):
            FILES.append(os.path.join(root, f))
FILES.sort()

ACQ = r"\.(write|read|lock|write_owned|read_owned)\(\)\s*\.await"
LET_GUARD = re.compile(r"let\s+(?:mut\s+)?(\w+)\s*(?::[^=]+)?=\s*(&\s*)?([^;{}]*?)(" + ACQ + r"|\.rules\(\)\s*\.await)\s*;")
TEMP_GUARD = re.compile(r"([\w\.\(\)&\s]*?)(" + ACQ + r")\s*\.(?!await)")
EXTERNAL = re.compile(
    r"read_from|write_to|write_with_body|read_u8|read_u16|read_u32|read_exact|read_line|read_until|read_to_end|\.connect\(|lookup_host|"
    r"\.accept\(|recv_from|recv\(|\.send\(|send_to|copy_bidi|h11c_handshake|h11c_connect|handshake\(|sleep\(|resolve\(|\.flush\(|write_all|"
    r"open_bi|accept_bi|enqueue\(|timeout\(|interval|\.tick\(|setup_udp_session|\.write\(\s*&|child\.wait|\.listen\(|log\.write\(")
CALLBACK = re.compile(r"cb\.on_(connect|error|finish)\(|HttpResponse::new\(\s*400")
LOCKAWAIT = re.compile(ACQ + r"|rules\(\)\s*\.await")


def strip_comments(s):
    s = re.sub(r"//[^\n]*", "", s)
    return re.sub(r"/\*.*?\*/", "", s, flags=re.S)


def mask_spawn(s):
    """blank out the argument of every `spawn( .. )`: the spawned future is another task, its awaits do not happen
    while the spawner's guard is held (same length, so offsets stay valid)"""
    out = s
    for m in re.finditer(r"\bspawn\s*\(", s):
        depth, i = 0, m.end() - 1
        while i < len(s):
            if s[i] == "(":
                depth += 1
            elif s[i] == ")":
                depth -= 1
                if depth == 0:
                    break
            i += 1
        out = out[:m.end()] + re.sub(r"[^\n]", " ", s[m.end():i]) + out[i:]
    return out


def block_end(s, pos):
    """index of the `}` that closes the block containing pos"""
    depth = 0
    i = pos
    while i < len(s):
        c = s[i]
        if c == "{":
            depth += 1
        elif c == "}":
            if depth == 0:
                return i
            depth -= 1
        i += 1
    return len(s)


def stmt_end(s, pos):
    depth = 0
    i = pos
    while i < len(s):
        c = s[i]
        if c in "({[":
            depth += 1
        elif c in ")}]":
            if depth == 0:
                return i
            depth -= 1
        elif c == ";" and depth == 0:
            return i
        i += 1
    return len(s)


def enclosing_fn(s, pos):
    m = None
    for m in re.finditer(r"fn\s+(\w+)", s[:pos]):
        pass
    return m.group(1) if m else "?"


def awaits_in(s, a, b):
    # a future handed to `spawn(..)` inside the guard's scope is another task: its awaits do not happen under the guard
    s = s[:a] + mask_spawn(s[a:b]) + s[b:]
    out = []
    for m in re.finditer(r"\.await", s[a:b]):
        e = a + m.start()
        # the expression text: back to the previous `;`, `{`, `}` or `=>`
        st = max(s.rfind(";", a, e), s.rfind("{", a, e), s.rfind("}", a, e), a)
        expr = re.sub(r"\s+", " ", s[st + 1:e + 6]).strip()
        tail = expr[-160:]
        if CALLBACK.search(tail):
            cls = "callback"
        elif EXTERNAL.search(tail):
            cls = "external"
        elif re.search(r"\.(read|write|read_owned|write_owned)\(\)\s*\.await", tail[-40:]) or \
                re.search(r"\bctx\w*\s*\.\s*(on_error|on_connect|on_finish|enqueue|to_string)\(", tail[-80:]):
            cls = "ctxlock"      # the ContextRefOps methods take the connection's lock themselves
        elif re.search(r"\balive\s*\.\s*lock\(\)\s*\.await", tail[-60:]):
            cls = "lockAlive"
        elif re.search(r"\bterminated\s*\.\s*lock\(\)\s*\.await", tail[-60:]):
            cls = "lockTerminated"
        elif LOCKAWAIT.search(tail[-40:]):
            cls = "lock"
        else:
            cls = "local"
        out.append((tail[-70:], cls))
    return out


def lock_kind(path, expr, acq):
    e = expr + acq
    if "rules" in e:
        return "rules"
    if "alive" in e:
        return "alive"
    if "terminated" in e:
        return "terminated"
    if re.search(r"\bctx\w*\s*(\.clone\(\))?\s*$|^\s*self\s*$|^\s*x\s*$|\bcontext\b", expr):
        return "ctx"
    return "other"


sites = []
for path in FILES:
    src = strip_comments(open(path, encoding="utf-8").read())
    # cut test modules
    t = src.find("#[cfg(test)]")
    if t >= 0:
        src = src[:t]
    rel = os.path.relpath(path, repo)
    for m in LET_GUARD.finditer(src):
        name, expr, acq = m.group(1), m.group(3), m.group(4)
        kind = lock_kind(rel, expr, acq)
        end = block_end(src, m.end())
        d = re.search(r"drop\(\s*" + re.escape(name) + r"\s*\)", src[m.end():end])
        if d:
            end = m.end() + d.start()
        aw = awaits_in(src, m.end(), end)
        sites.append((rel, enclosing_fn(src, m.start()), kind, "let " + name, aw))
    for m in TEMP_GUARD.finditer(src):
        expr, acq = m.group(1), m.group(2)
        # skip the ones that are `let` guards (already handled) — a temporary is followed by a method call
        kind = lock_kind(rel, expr[-60:], acq)
        end = stmt_end(src, m.end())
        # a temporary in the scrutinee of `if let` / `while let` / `match` lives to the end of that construct's block
        st = max(src.rfind(";", 0, m.start()), src.rfind("{", 0, m.start()), src.rfind("}", 0, m.start()))
        head = src[st + 1:m.start()].lstrip()
        if re.match(r"(if\s+let|while\s+let|match)\b", head):
            b = src.find("{", m.end())
            if b >= 0:
                end = block_end(src, b + 1)
        aw = awaits_in(src, m.end(), end)
        if aw:
            sites.append((rel, enclosing_fn(src, m.start()), kind, "temporary", aw))

if not sites:
    print("locksites: no lock sites found — the source no longer has the expected shape", file=sys.stderr)
    sys.exit(1)


def lstr(s):
    return '"' + s.replace("\\", "\\\\").replace('"', '\\"') + '"'


out = ["/- GENERATED by translate/locksites.py from /repo/src — do not edit -/", "namespace Redproxy.Gen", "",
       "inductive AwaitClass | lock | lockAlive | lockTerminated | ctxlock | callback | external | local", "  deriving Repr, DecidableEq", "",
       "/-- (file, function, which lock, how the guard is held, awaits while it is held) -/",
       "def lockSites : List (String × String × String × String × List (String × AwaitClass)) := ["]
rows = []
for (f, fn, kind, how, aw) in sites:
    aws = ", ".join("(%s, .%s)" % (lstr(e), c) for e, c in aw)
    rows.append("  (%s, %s, %s, %s, [%s])" % (lstr(f), lstr(fn), lstr(kind), lstr(how), aws))
out.append(",\n".join(rows))
out.append("]")
out.append("")
out.append("end Redproxy.Gen")
os.makedirs(gen, exist_ok=True)
open(os.path.join(gen, "LockSites.lean"), "w").write("\n".join(out) + "\n")
n_ext = sum(1 for s in sites for a in s[4] if a[1] == "external")
print("locksites: %d guard sites, %d awaits under a guard, %d of them external" % (len(sites), sum(len(s[4]) for s in sites), n_ext))
for s in sites:
    for a in s[4]:
        if a[1] in ("external", "callback"):
            print("  %s %s::%s [%s, %s] holds across %s: %s" % (a[1], s[0], s[1], s[2], s[3], a[1], a[0]))
